#!/venv/bin/python
"""Driver: /venv/bin/python -B check.py <PROPERTY-ID> [--tier quick|thorough] | --replay <path> | --all

Static analysis only: parses /repo's working tree (or $HTA_REPO) with `ast`; hta is never imported.
exit 0 property's decided clauses hold; exit 1 VIOLATION; exit 2 ANALYSIS-ERROR (not understood).
"""
import importlib
import json
import os
import sys
import traceback

HERE = os.path.dirname(os.path.abspath(__file__))
sys.path.insert(0, HERE)
sys.dont_write_bytecode = True


def run_one(pid: str, tier: str, repo=None) -> int:
    from sa.core.progdb import ProgramDB, AnalysisError
    from sa.core.report import Check
    seed = int(os.environ.get("VERIF_SEED", "0") or 0)
    mod = importlib.import_module(f"sa.props.{pid.lower()}")
    chk = Check(pid, tier, seed, getattr(mod, "EXPLANATION", ""))
    try:
        db = ProgramDB(repo or os.environ.get("HTA_REPO", "/repo"))
        chk.analysed["program"] = db.stats()
        mod.run(db, chk)
        if tier == "thorough":
            if hasattr(mod, "thorough"):
                mod.thorough(db, chk)
            from sa.selftest import thorough as _st
            _st.run(pid, chk)
    except AnalysisError as e:
        chk.error(str(e))
    except Exception as e:  # a checker crash is never a violation
        chk.error(f"checker crashed: {type(e).__name__}: {e} :: {traceback.format_exc().splitlines()[-3:]}")
    return chk.finish()


def main(argv):
    if not argv:
        print(__doc__)
        return 2
    tier = os.environ.get("VERIF_TIER", "quick")
    if "--tier" in argv:
        i = argv.index("--tier")
        tier = argv[i + 1]
        argv = argv[:i] + argv[i + 2:]
    os.environ["VERIF_TIER"] = tier
    if argv[0] == "--replay":
        d = json.load(open(argv[1]))
        print(f"replaying {d['property']}: {len(d['violations'])} recorded violation(s); re-running the check on the current tree")
        for v in d["violations"]:
            print(f"  recorded: {v['rule']} [{v['instance']}] at {v['where']}")
        return run_one(d["property"], tier)
    if argv[0] == "--all":
        rc = 0
        for i in range(1, 21):
            pid = f"C{i:02d}"
            if os.path.exists(os.path.join(HERE, "sa", "props", pid.lower() + ".py")):
                rc = max(rc, run_one(pid, tier))
        return rc
    return run_one(argv[0], tier)


if __name__ == "__main__":
    try:
        rc = main(sys.argv[1:])
    except SystemExit:
        raise
    except Exception:
        traceback.print_exc()
        print("ANALYSIS-ERROR: driver crashed")
        rc = 2
    sys.stdout.flush()
    os._exit(rc)
