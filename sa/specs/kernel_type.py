"""Kernel classification (utils.get_kernel_type): comm -> memory -> compute -> other over spec regular languages."""
from __future__ import annotations

from typing import Any

from ..core import terms as T
from ..core import regexeq
from ..core.interp import Interp
from ..core.values import FuncRef, to_term

UT = "hta.utils.utils"
SPEC_RE = {
    "COMM": r"^nccl.*Kernel",
    "MEM": r"(^Memcpy)|(^Memset)|(^dma)",
    "NONCOMPUTE": r"(^nccl.*Kernel)|(.*(Memcpy)|(Memset))|(.*Sync)",
}


def _call_merged(db, qual: str, name_term: T.Term) -> T.Term:
    m = db.mod(UT)
    I = Interp(db)
    from ..core.interp import Activation, Run
    I.run = Run([])
    I.stack = [Activation(m, None, {}, None, "<spec>")]
    return to_term(I.call_merged(FuncRef(m, m.func(qual), qual), [name_term], {}, None))


def kernel_type_term(db, name_term: T.Term) -> T.Term:
    """the term the *current source* computes for get_kernel_type(name_term)"""
    return _call_merged(db, "get_kernel_type", name_term)


def canon_regexes(t: Any, notes: list) -> Any:
    """replace every regex whose match-language equals a spec language by the spec's name"""
    if isinstance(t, tuple):
        if len(t) >= 3 and t[0] == "re" and isinstance(t[2], tuple) and T.is_const(t[2]):
            pat = t[2][1]
            for nm, sp in SPEC_RE.items():
                try:
                    eq, w = regexeq.match_equivalent(pat, sp)
                except regexeq.Unsupported as u:
                    return ("re", t[1], T.opaque(f"regex outside the modelled fragment: {u}")) + tuple(canon_regexes(x, notes) for x in t[3:])
                if eq:
                    return ("re", t[1], f"<{nm}>") + tuple(canon_regexes(x, notes) for x in t[3:])
            notes.append(pat)
            return ("re", t[1], ("other-language", pat)) + tuple(canon_regexes(x, notes) for x in t[3:])
        return tuple(canon_regexes(x, notes) for x in t)
    return t


def expected_cases(n: T.Term) -> T.Term:
    def m(nm):
        return T.cmp("!=", ("re", "match", f"<{nm}>", n), T.NONE)
    comm, mem, nonc = m("COMM"), m("MEM"), m("NONCOMPUTE")
    comp = T.not_(nonc)
    rows = [(comm, T.C("COMMUNICATION")), (T.and_(T.not_(comm), mem), T.C("MEMORY")),
            (T.and_(T.not_(comm), T.not_(mem), comp), T.C("COMPUTATION")),
            (T.and_(T.not_(comm), T.not_(mem), T.not_(comp)), T.C("OTHER"))]
    return ("cases", tuple(sorted(rows, key=repr)))


def check_kernel_type(db, chk, rule: str) -> None:
    regexeq.self_test()
    m = db.mod(UT)
    where = m.loc(m.func("get_kernel_type"))
    n = T.P("name")
    got = kernel_type_term(db, n)
    notes: list = []
    canon = T.renorm(canon_regexes(got, notes))
    if isinstance(canon, tuple) and canon and canon[0] == "ite" and T.ite_to_cases(canon) is not None:
        canon = T.ite_to_cases(canon)          # the same ladder written as nested conditional values (e.g. first match of a table of predicates)
    exp = expected_cases(n)
    chk.analysed_add("functions", [f"{UT}:{q}" for q in ("get_kernel_type", "is_comm_kernel", "is_memory_kernel", "is_compute_kernel")])
    if T.has_opaque(canon):
        chk.ob(rule, "kernel type decision chain", None, where, found=T.show(canon)[:400], why="; ".join(T.opaque_reasons(canon)))
        return
    chk.ob(rule, "decision chain comm -> memory -> compute -> other with the spec languages", canon == exp, where,
           found=T.show(canon)[:900], accepted=T.show(exp)[:900],
           why="a reordered chain or a changed regular language moves kernels between computation / communication / memory"
               + (f"; regexes with a different match-language: {notes}" if notes else ""))
    # each predicate individually (diagnosis: which predicate changed)
    for q, nm, neg in (("is_comm_kernel", "COMM", False), ("is_memory_kernel", "MEM", False), ("is_compute_kernel", "NONCOMPUTE", True)):
        t = T.renorm(canon_regexes(_call_merged(db, q, n), []))
        e = T.cmp("!=", ("re", "match", f"<{nm}>", n), T.NONE)
        e = T.not_(e) if neg else e
        tt = T.cmp("!=", t, T.NONE) if t and t[0] == "re" else t
        chk.ob(rule, f"{q} = {'not ' if neg else ''}match({SPEC_RE[nm]!r})", tt == e, m.loc(m.func(q)), found=T.show(tt)[:300], accepted=T.show(e)[:300],
               why="language equivalence is decided exactly (DFA product); an anchored match is required, not a search")
