"""Sets of symbol ids defined by a predicate over the symbol STRINGS: `[id for sym, id in table.items() if P(sym)]`.

Membership of an abstract name class in such a set is decided by evaluating P on representative symbol strings of the class - the documented names
themselves and near misses (longer / shorter / differently cased names).  A predicate that also accepts a near miss puts the class 'any other name' into
the set, which the callers' decision tables then report as a difference from the documented predicate."""
from __future__ import annotations

import re
from typing import Any, Dict, List, Optional

from ..core import terms as T

NEAR_MISSES = ["aten::add", "Event Sync 17", "Event Synchronize", "Context Sync (cudaDeviceSynchronize)", "Sync", "event sync", "Stream Sync", ""]


def _pred_on(cond: Any, key: Any, sym: str) -> Optional[bool]:
    """value of the comprehension filter `cond` when the symbol string (term `key`) is `sym`; None when not understood"""
    if cond == T.TRUE:
        return True
    if not isinstance(cond, tuple) or not cond:
        return None
    h = cond[0]
    if h == "truthy":
        return _pred_on(cond[1], key, sym)
    if h == "not":
        r = _pred_on(cond[1], key, sym)
        return None if r is None else not r
    if h in ("and", "or"):
        rs = [_pred_on(x, key, sym) for x in cond[1]]
        if any(r is None for r in rs):
            return None
        return all(rs) if h == "and" else any(rs)
    if h == "call" and isinstance(cond[1], str) and cond[1] in ("str.startswith", "str.endswith") and len(cond) == 4 and cond[2] == key:
        arg = cond[3]
        opts = [arg[1]] if T.is_const(arg) and isinstance(arg[1], str) else [x[1] for x in arg[1]] if isinstance(arg, tuple) and arg[0] == "tuple" and all(T.is_const(x) and isinstance(x[1], str) for x in arg[1]) else None
        if opts is None:
            return None
        return any(sym.startswith(o) if cond[1].endswith("startswith") else sym.endswith(o) for o in opts)
    if h == "call" and isinstance(cond[1], str) and len(cond) == 3 and cond[1] in (T.show(key) + ".startswith", T.show(key) + ".endswith"):
        # a method call on the (symbolic) symbol string, rendered as "<receiver>.startswith"
        return _pred_on(("call", "str." + cond[1].rsplit(".", 1)[1], key, cond[2]), key, sym)
    if h in ("eq", "ne") and key in cond[1:3]:
        other = cond[2] if cond[1] == key else cond[1]
        if T.is_const(other):
            return (sym == other[1]) == (h == "eq")
        return None
    if h == "in" and cond[1] == key:
        c = cond[2]
        items = c[1] if isinstance(c, tuple) and c and c[0] in ("list", "tuple", "set") else None
        if items is not None and all(T.is_const(x) for x in items):
            return sym in [x[1] for x in items]
        return None
    if h == "in" and T.is_const(cond[1]) and cond[2] == key and isinstance(cond[1][1], str):
        return cond[1][1] in sym          # "text" in sym
    if h == "strmatch" and len(cond) >= 4 and cond[2] == key and T.is_const(cond[3]):
        try:
            rx = re.compile(str(cond[3][1]))
        except re.error:
            return None
        return {"match": rx.match(sym) is not None, "contains": rx.search(sym) is not None, "fullmatch": rx.fullmatch(sym) is not None,
                "startswith": sym.startswith(str(cond[3][1])), "endswith": sym.endswith(str(cond[3][1]))}.get(cond[1])
    if h == "cmp" and len(cond) == 3 and isinstance(cond[2], tuple) and cond[2] and cond[2][0] == "re":
        return None
    return None


def comp_symbol_set(setterm: Any):
    """(key term, id term, filter) when setterm is a comprehension over the items of a symbol map yielding the ids of the symbols that satisfy the filter"""
    t = setterm
    while isinstance(t, tuple) and len(t) == 2 and t[0] in ("list", "set", "tuple"):
        t = t[1]
    if not (isinstance(t, tuple) and len(t) == 5 and t[0] == "comp" and t[1] in ("list", "set")):
        return None
    _, _, body, it, cond = t
    if not (isinstance(it, tuple) and it and it[0] == "call" and isinstance(it[1], str) and it[1].endswith(".items") and ("sym_index" in it[1] or "sym_id_map" in it[1])):
        return None
    key, ident = ("item", ("elem", it), 0), ("item", ("elem", it), 1)
    if body != ident:
        return None
    return key, ident, cond


def class_in_symbol_set(setterm: Any, names: List[str]) -> Optional[bool]:
    """is SOME symbol of the class (given by representative strings) in the set?  None when the set is not such a comprehension / the filter is not understood"""
    cs = comp_symbol_set(setterm)
    if cs is None:
        return None
    key, _, cond = cs
    rs = [_pred_on(cond, key, n) for n in names]
    if any(r is None for r in rs):
        return None
    return any(rs)
