"""Interval-union template (utils.merge_kernel_intervals): the rule shared by C04, C05, C07 and the
abstract 'merged frame' that the consumers' analyses use in its place."""
from __future__ import annotations

from typing import Any, List

from ..core import terms as T
from ..core.interp import Interp
from ..core.values import Frame, to_term

MERGE_REF = "hta.utils.utils:merge_kernel_intervals"


def _uninterpreted(t) -> set:
    """names of external calls the evaluator does not interpret (np.*, pd.* it has no model for, builtins it does not know)"""
    out = set()
    for s in T.find(t, lambda s: s[0] == "call" and isinstance(s[1], str)):
        n = s[1]
        if n.startswith(("np.", "pd.", "numpy.", "pandas.", "math.", "builtins.", "tuple.", "list.", "dict.", "set.", "frozenset.", "str.", "PyTuple.")) or n in ("map", "filter"):          # (incl. container methods the evaluator fell back on)
            out.add(n)
    return out


def check_term(chk, rule: str, inst: str, where: str, found: Any, accepted: List[Any], why: str = "", key=None) -> bool:
    found = T.renorm(T.boolnorm(found))
    accepted = [T.renorm(T.boolnorm(a)) for a in accepted]
    if T.has_opaque(found):
        return chk.ob(rule, inst, None, where, found=T.show(found)[:400], why="; ".join(T.opaque_reasons(found))[:300], key=key)
    ok = found in accepted
    def _nocoldata(x):
        # a column handed to a frame constructor as data (pd.DataFrame({"c": values})) holds those values: coldata(v) is v for a value slot
        if isinstance(x, tuple):
            if len(x) == 2 and x[0] == "coldata":
                return _nocoldata(x[1])
            return tuple(_nocoldata(y) for y in x)
        return x
    if not ok and T.renorm(_nocoldata(found)) in [T.renorm(_nocoldata(a)) for a in accepted]:
        ok = True
    if not ok and T.strip_casts(found) in [T.strip_casts(a) for a in accepted]:
        ok = True          # law: a cast to float64, or to int64 of an integer-valued term (ceil / floor results), keeps every value; a narrowing or truncating cast stays a difference
    if not ok:
        extra = _uninterpreted(found) - set().union(*[_uninterpreted(a) for a in accepted]) if accepted else _uninterpreted(found)
        if extra:   # the slot is computed through a library function the evaluator has no model for: not understood, not a violation
            return chk.ob(rule, inst, None, where, found=T.show(found)[:400], why=f"uses uninterpreted function(s) {sorted(extra)}", key=key)
    return chk.ob(rule, inst, ok, where, found=T.show(found)[:600], accepted=[T.show(a)[:600] for a in accepted], why=why, key=key)


def check_merge(db, chk, rule: str) -> None:
    """R1 of C04 / C05 / C07: merge_kernel_intervals instantiates the interval-union template."""
    mod, fn = db.func(MERGE_REF)
    where = mod.loc(fn)
    K = ("param", "K")
    I = Interp(db)
    runs = I.explore(MERGE_REF, lambda I: {"kernel_df": Frame(K)})
    chk.analysed_add("functions", MERGE_REF)
    if len(runs) != 1:
        chk.ob(rule, "single path through merge_kernel_intervals", None, where, found=f"{len(runs)} paths")
        return
    R = runs[0].ret
    if not isinstance(R, Frame):
        chk.ob(rule, "returns a frame", None, where, found=T.show(to_term(R))[:200])
        return
    TS, DUR = T.col(K, "ts"), T.col(K, "dur")
    END = T.add(TS, DUR)
    ts_t, end_t = R.col("ts"), R.col("end")
    # whatever the algorithm: the merged set is computed from ALL rows of the input (callers take the span of the merged set for the span of the input)
    restricted = sorted({T.show(c_[1])[:120] for t_ in (ts_t, end_t) for c_ in T.subterms(t_)
                         if isinstance(c_, tuple) and len(c_) == 3 and c_[0] == K and isinstance(c_[1], tuple) and c_[1] != T.TRUE and c_[1][:1] in (("cmp",), ("and",), ("or",), ("not",), ("in",))})
    if restricted:
        chk.ob(rule, "the merged set is computed from every row of the input (no row is dropped before merging)", False, where, found=restricted, accepted="all rows of kernel_df",
               why="the callers read the first start and the last end of the merged set as the span of the INPUT (kernel_time, idle_time): a zero-length activity at either end of the rank's activity that is dropped first shrinks the span")
    for nm, t in (("ts", ts_t), ("end", end_t)):
        if T.has_opaque(t) or t[0] != "agg":
            chk.ob(rule, f"merged {nm} is a per-group aggregate", None, where, found=T.show(t)[:300],          # (bounds computed some other way - a numpy reduction, a loop - are not held against the template: not understood)
                   accepted="agg(<fn>, <column>, by group)", why="the merged interval bounds must be aggregated per overlap group")
            return
    S = ts_t[3]
    # slot 1: sweep order
    acc_S = [(K, T.TRUE, ("sort", (TS,), True, k, None)) for k in ("quicksort", "stable", "mergesort", "heapsort")]
    chk.ob(rule, "sweep runs over the rows sorted by ts ascending", S in acc_S, where, found=T._ctx(S), accepted="rows of the input sorted by ts, ascending",
           why="with another order (or descending) cummax of the previous ends is not the running maximum end; e.g. [0,10],[1,2],[5,6]")
    # slot 2: end = ts + dur
    check_term(chk, rule, "interval end is ts + dur", where, end_t[2], [END], "the union is measured between ts and ts+dur")
    check_term(chk, rule, "merged start is the group's first/min ts", where, ("fn", ts_t[1], ts_t[2]), [("fn", "min", TS), ("fn", "first", TS)],
               "rows are ts-sorted, so min == first; anything else shifts the merged start")
    check_term(chk, rule, "merged end is the group's max end", where, ("fn", end_t[1], end_t[2]), [("fn", "max", END)],
               "a nested interval ends before its container: 'last' under-measures [0,10],[1,2]")
    # slot 3/4: group id
    keys = ts_t[4]
    ok_same = keys == end_t[4] and end_t[3] == S and len(keys) == 1
    chk.ob(rule, "ts and end aggregated over the same groups", ok_same, where, found=[T.show(k)[:200] for k in keys], accepted="one shared group key")
    if ok_same:
        G = keys[0]
        prev = T.win("shift", (1,), T.win("cummax", (), END, S), S)
        accepted = [T.win("cumsum", (), T.cmp(op, TS, prev), S) for op in (">", ">=")]
        check_term(chk, rule, "group id = cumsum(ts >(=) running max of previous ends)", where, G, accepted,
                   "without cummax [0,10],[1,2],[5,6] counts 11; shift(-1) or a reversed comparison splits overlapping kernels")
        if G in accepted and S in acc_S and end_t[2] == END:
            validate_template(chk, rule, K, ts_t, end_t, where)
    # slot 5: output order
    o = R.order
    ordered = (o is None and getattr(R, "gb_sorted", True) is True) or (isinstance(o, tuple) and o[0] == "sort" and o[1] == (ts_t,) and o[2] is True)
    chk.ob(rule, "merged intervals are returned ordered by start", ordered, where, found=T.show_order(o), accepted="sort by ts ascending (or group order)",
           why="consumers take the first row's ts and the last row's end as the span")
    cn = R.colnames()
    chk.ob(rule, "result has exactly the columns ts and end (+none that a melt would sweep)", cn is not None and sorted(cn) == ["end", "ts"], where,
           found=cn, accepted=["ts", "end"], why="kernel-type and overlap sweeps melt *all* columns of the merged frame into +/- markers")


def _union_measure(iv):
    """brute-force measure of a union of integer-endpoint intervals: count the unit cells covered"""
    cells = set()
    for a, b in iv:
        cells.update(range(a, b))
    return len(cells)


def validate_template(chk, rule: str, K, ts_t, end_t, where: str) -> None:
    """The accepted instantiation (the terms read out of the code, which equal the template) is interpreted by
    core.termeval on EVERY family of <= N intervals with integer endpoints on a small grid, in every input order,
    and compared with the brute-force union: total measure equal, merged intervals pairwise interior-disjoint and
    ordered, every input interval inside one merged interval.  This validates the template itself (and the term
    laws used to normalise it), not the code: the code is tied to the template by term equality above."""
    import itertools
    import os
    from ..core import termeval as E
    n_max = 4 if os.environ.get("VERIF_TIER") == "thorough" else 3
    grid = [(a, d) for a in range(4) for d in range(4)]
    cases = bad = 0
    first_bad = None
    try:
        for n in range(1, n_max + 1):
            for fam in itertools.product(grid, repeat=n):
                E.reset()
                tab = E.Table(K, [{"ts": a, "dur": d} for a, d in fam])
                lo, hi = E.group_agg(ts_t, tab), E.group_agg(end_t, tab)
                merged = sorted((lo[k], hi[k]) for k in lo)
                iv = [(a, a + d) for a, d in fam]
                ok = set(lo) == set(hi)
                ok = ok and sum(b - a for a, b in merged) == _union_measure(iv)
                ok = ok and all(merged[i][1] <= merged[i + 1][0] for i in range(len(merged) - 1))
                ok = ok and all(any(a >= x and b <= y for x, y in merged) for a, b in iv)
                ok = ok and [m for _, m in sorted(lo.items())] == [m[0] for m in merged]          # group ids increase with start
                cases += 1
                if not ok:
                    bad += 1
                    first_bad = first_bad or (fam, merged)
    except E.Unsupported as e:
        chk.ob(rule, "template validated on all small interval families", None, where, why=f"term evaluator: {e}")
        return
    chk.ob(rule, f"template validated against the brute-force union on all {cases} families of <= {n_max} intervals (grid 0..3 x 0..3, every order)",
           bad == 0, where, found=f"{bad} disagreeing families" + (f", first {first_bad}" if first_bad else ""), accepted="0 disagreeing families",
           why="the interval-union template must itself compute the measure of the union")
    chk.analysed_add("template_cases", f"merge:{cases}")


class MergeHook:
    """call hook: replaces merge_kernel_intervals(frame) by an abstract merged frame and records the argument."""

    def __init__(self):
        self.calls = []

    def reset(self):
        self.calls = []

    def __call__(self, I: Interp, name: str, pos, kw, node):
        if name.split(".")[-1] != "merge_kernel_intervals":
            return NotImplemented
        arg = pos[0] if pos else kw.get("kernel_df")
        if not isinstance(arg, Frame):
            return T.opaque("merge_kernel_intervals on a non-frame")
        return self.merged(I, arg, node)

    def merged(self, I: Interp, arg: Frame, node) -> Frame:
        ctx = arg.ctx()
        ts, dur = arg.col("ts"), arg.col("dur")
        base = ("merged", ctx, ts, dur)
        M = Frame(base, known=["ts", "end"])
        M.index = ("range", base)
        M.order = ("mergedorder",)
        self.calls.append({"arg_ctx": ctx, "ts": ts, "dur": dur, "arg_obj": arg.obj, "line": getattr(node, "lineno", 0), "frame": M})
        I.log("merge-call", node, arg_ctx=ctx, arg_obj=arg.obj, ts=ts, dur=dur)
        # side effects of the real function on its argument
        I.pm.mutating(arg, node, "merge_kernel_intervals sorts and adds columns to its argument")
        arg.order = ("sort", (ts,), True, "quicksort", None)
        arg.setcol("end", T.add(ts, dur))
        arg.setcol("group", ("mergegroup", ctx))
        return M


def merged_frame_of(ctx, ts, dur) -> Frame:
    base = ("merged", ctx, ts, dur)
    M = Frame(base, known=["ts", "end"])
    M.index = ("range", base)
    M.order = ("mergedorder",)
    return M


def span_terms(M: Frame):
    """accepted terms for 'end of the last merged interval - start of the first'"""
    c = M.ctx()
    e, s = M.col("end"), M.col("ts")
    a = T.sub(("at", ("iloc", c, -1), e), ("at", ("iloc", c, 0), s))
    b = T.sub(T.agg("max", e, c), T.agg("min", s, c))
    d = T.sub(T.agg("max", e, c), ("at", ("iloc", c, 0), s))
    e2 = T.sub(("at", ("iloc", c, -1), e), T.agg("min", s, c))
    return [a, b, d, e2]


def busy_term(M: Frame):
    c = M.ctx()
    return T.sub(T.agg("sum", M.col("end"), c), T.agg("sum", M.col("ts"), c))
