"""E3 for the two endpoint comparators: complete decision tables by path enumeration + evaluation of the
extracted path conditions on canonical representatives of every ordering pattern, then the order laws."""
from __future__ import annotations

import itertools
from typing import Any, Callable, Dict, List, Optional, Tuple

from ..core import terms as T
from ..core.interp import Interp
from ..core.values import Obj, PyTuple, to_term

FIELDS = ("idx", "time", "dur", "kind")


class Table:
    """decision procedure extracted from a comparator: less(p, q) -> 'LT' | 'GT' | 'EQ' | 'RAISE' | 'TOP' """

    def __init__(self, name: str, paths: List[Tuple[List[T.Term], Any, Optional[str]]], open_kind: int, close_kind: int, boolean: bool):
        self.name, self.paths, self.open_kind, self.close_kind, self.boolean = name, paths, open_kind, close_kind, boolean
        self.evals = 0

    def _leaf(self, p, q):
        def leaf(t):
            if t[0] == "param":
                who, fld = t[1].split(".")
                e = p if who == "x" else q
                return e[FIELDS.index(fld)]
            raise T.Unknown(t)
        return leaf

    def cmp(self, p, q) -> str:
        """p, q = (idx, time, dur, kind) with kind in {'O','C'}"""
        pk = (p[0], p[1], p[2], self.open_kind if p[3] == "O" else self.close_kind)
        qk = (q[0], q[1], q[2], self.open_kind if q[3] == "O" else self.close_kind)
        leaf = self._leaf(pk, qk)
        self.evals += 1
        hits = []
        for conds, ret, raised in self.paths:
            try:
                if all(T.evaluate(c, leaf) for c in conds):
                    hits.append((ret, raised))
            except T.Unknown:
                return "TOP"
        if len(hits) != 1:
            return "TOP"
        ret, raised = hits[0]
        if raised is not None:
            return "RAISE"
        try:
            v = T.evaluate(to_term(ret), leaf) if not isinstance(ret, (bool, int)) else ret
        except T.Unknown:
            return "TOP"
        if self.boolean:
            return "LT" if v else "GE"
        return "LT" if v < 0 else "GT" if v > 0 else "EQ"

    def less(self, p, q) -> Optional[bool]:
        r = self.cmp(p, q)
        if r in ("TOP", "RAISE"):
            return None
        return r == "LT"


def observation_discipline(paths) -> List[str]:
    """every atom may only compare like fields of x and y, or a field with a constant"""
    bad = []
    for conds, ret, raised in paths:
        terms = list(conds) + ([to_term(ret)] if not isinstance(ret, (bool, int)) and ret is not None else [])
        for t in terms:
            for a in T.find(t, lambda s: s[0] in ("cmp", "eq", "ne", "lin")):
                ps = [s for s in T.subterms(a) if isinstance(s, tuple) and s and s[0] == "param"]
                flds = {p[1].split(".")[1] for p in ps}
                if len(flds) > 1:
                    bad.append(T.show(a)[:120])
            for o in T.find(t, lambda s: s[0] in ("opaque", "call", "mul", "div", "getitem")):
                bad.append(T.show(o)[:120])
    return sorted(set(bad))


def extract(db, ref: str, mk_args: Callable[[], Dict[str, Any]], open_kind: int, close_kind: int, boolean: bool) -> Table:
    I = Interp(db)
    runs = I.explore(ref, lambda I: mk_args())
    paths = []
    for r in runs:
        paths.append((list(r.path), r.ret, r.raised))
    return Table(ref, paths, open_kind, close_kind, boolean)


def array_args():
    mk = lambda w: [T.P(f"{w}.idx"), T.P(f"{w}.dur"), T.P(f"{w}.kind"), T.P(f"{w}.time")]
    return {"x": mk("x"), "y": mk("y")}


def event_args():
    mk = lambda w: Obj(w, attrs={"idx": T.P(f"{w}.idx"), "time": T.P(f"{w}.time"), "dur": T.P(f"{w}.dur"), "type": T.P(f"{w}.kind")})
    return {"x": mk("x"), "y": mk("y")}


# ------------------------------------------------------------------------------------------ endpoint universe
def endpoints(n_events: int, durs=(0, 1, 2, 3), t: int = 10):
    """all endpoint tuples at one instant t for events with the given ids"""
    out = []
    for idx in range(1, n_events + 1):
        for d in durs:
            for k in ("O", "C"):
                out.append((idx, t, d, k))
    return out


def klass(p) -> str:
    return "Z" if p[2] == 0 else ("PO" if p[3] == "O" else "PC")


def check_laws(tab: Table, chk, rule_prefix: str, where: str, key_prefix: str, quad: bool = False) -> Dict[str, Any]:
    stats = {"pairs": 0, "triples": 0, "cycles": {}, "raise": [], "top": []}
    eps = endpoints(3)
    by_idx = lambda i: [e for e in eps if e[0] == i]
    # ---- pairs of distinct events, and the same-event pair of a zero-duration event
    o2_bad, o4 = [], {"PC<PO": [], "PO/PO": [], "PC/PC": [], "Z-own": [], "Z-side": []}
    for p in by_idx(1) + by_idx(2):
        for q in by_idx(1) + by_idx(2):
            if p == q:
                continue
            same_event = p[0] == q[0]
            if same_event and not (p[2] == 0 and q[2] == 0):
                continue   # both endpoints of one event meet only when its duration is 0
            stats["pairs"] += 1
            a, b = tab.cmp(p, q), tab.cmp(q, p)
            if "RAISE" in (a, b):
                stats["raise"].append((p, q))
                continue
            if "TOP" in (a, b):
                stats["top"].append((p, q))
                continue
            la, lb = a == "LT", b == "LT"
            if same_event:
                if p[3] == "O" and not (la and not lb):
                    o4["Z-own"].append((p, q, a, b))
                continue
            tie = la == lb
            if tie and not (p[3] == "C" and q[3] == "C"):
                o2_bad.append((p, q, a, b))
            kp, kq = klass(p), klass(q)
            if kp == "PC" and kq == "PO" and not (la and not lb):
                o4["PC<PO"].append((p, q, a, b))
            if kp == "PO" and kq == "PO":
                want = p[2] > q[2] if p[2] != q[2] else p[0] < q[0]
                if la != want or lb == want:
                    o4["PO/PO"].append((p, q, a, b))
            if kp == "PC" and kq == "PC" and p[2] != q[2]:
                want = p[2] < q[2]
                if la != want or lb == want:
                    o4["PC/PC"].append((p, q, a, b))
    # zero-duration events: both endpoints on the same side of every positive endpoint
    for z in (0,):
        zo, zc = (1, 10, 0, "O"), (1, 10, 0, "C")
        for q in by_idx(2):
            if q[2] == 0:
                continue
            a, b = tab.less(zo, q), tab.less(zc, q)
            if a is None or b is None or a != b:
                o4["Z-side"].append((q, a, b))
    chk.ob(f"{rule_prefix}.O1-total", f"{tab.name}: defined (no raise, no unknown) on all {stats['pairs']} realisable equal-time endpoint pairs", not stats["raise"] and not stats["top"] if not stats["top"] else None, where,
           found={"raise": stats["raise"][:3], "unknown": stats["top"][:3]}, accepted="LT / not LT on every pair")
    chk.ob(f"{rule_prefix}.O2-antisymmetric", f"{tab.name}: exactly one of less(p,q), less(q,p) for distinct events (CLOSE/CLOSE may tie)", not o2_bad, where, found=o2_bad[:4], accepted="antisymmetric",
           why="an inconsistent comparator makes sorted() return an arbitrary order")
    why = {"PC<PO": "a span closing at t must be popped before a span opening at t is pushed: touching spans are siblings",
           "PO/PO": "spans opening together: the longer (outer) first; identical spans nest in file order",
           "PC/PC": "spans closing together: the shorter (inner) first",
           "Z-own": "a zero-duration event opens before it closes",
           "Z-side": "a zero-duration event may never separate the two sides of a positive endpoint: both its endpoints lie on one side"}
    for k, bad in o4.items():
        chk.ob(f"{rule_prefix}.O4-tie-rules", f"{tab.name}: {k}", not bad, where, found=bad[:4], accepted="holds on every representative", why=why[k])
    # ---- triples
    cyc_classes: Dict[Tuple[str, ...], list] = {}
    for p in by_idx(1):
        for q in by_idx(2):
            for r in by_idx(3):
                stats["triples"] += 1
                for a, b, c in ((p, q, r), (p, r, q)):
                    x, y, z = tab.less(a, b), tab.less(b, c), tab.less(c, a)
                    if x and y and z:
                        cl = tuple(sorted((klass(a), klass(b), klass(c))))
                        cyc_classes.setdefault(cl, []).append((a, b, c))
    stats["cycles"] = {",".join(k): len(v) for k, v in cyc_classes.items()}
    names = {"Z": "ZERO", "PC": "POS_CLOSE", "PO": "POS_OPEN"}
    if not cyc_classes:
        chk.ob(f"{rule_prefix}.O3-strict-weak-order", f"{tab.name}: no 3-cycle among {stats['triples']} equal-time endpoint triples", True, where, found="acyclic", accepted="acyclic")
    for cl, lst in sorted(cyc_classes.items()):
        label = ",".join(names[c] for c in ("Z", "PC", "PO") if c in cl) if set(cl) == {"Z", "PC", "PO"} else ",".join(names[c] for c in cl)
        chk.ob(f"{rule_prefix}.O3-strict-weak-order", f"{tab.name}: no 3-cycle among endpoints of classes ({label})", False, where,
               found={"cycles": len(lst), "example": lst[0]}, accepted="acyclic: p<q<r implies not r<p",
               why="with a cyclic comparator the sorted order depends on the input order: touching siblings can become parent and child",
               key=f"{key_prefix}|cycle|{label}")
    if quad:
        # thorough: four events, durations 0..2, looking for 4-cycles not explained by a 3-cycle
        eps4 = endpoints(4, durs=(0, 1, 2))
        n4 = 0
        bad4 = []
        for combo in itertools.product(*[[e for e in eps4 if e[0] == i] for i in (1, 2, 3, 4)]):
            n4 += 1
            for perm in itertools.permutations(combo[1:]):
                seq = (combo[0],) + perm
                if all(tab.less(seq[i], seq[(i + 1) % 4]) for i in range(4)):
                    cls = {klass(e) for e in seq}
                    if cls != {"Z", "PC", "PO"}:
                        bad4.append(seq)
        stats["quadruples"] = n4
        chk.ob(f"{rule_prefix}.O3-strict-weak-order", f"{tab.name}: no 4-cycle outside the known class among {n4} endpoint quadruples", not bad4, where, found=bad4[:2], accepted="none")
    return stats


def sibling_nesting_rules(tab: Table) -> Dict[str, list]:
    """the tie rules that decide which operator owns an event at shared instants (used by C16 as a dependency clause)"""
    bad = {"PC<PO": [], "PO/PO": [], "PC/PC": []}
    eps = endpoints(2)
    for p in [e for e in eps if e[0] == 1]:
        for q in [e for e in eps if e[0] == 2]:
            for a, b in ((p, q), (q, p)):
                la, lb = tab.less(a, b), tab.less(b, a)
                ka, kb = klass(a), klass(b)
                if ka == "PC" and kb == "PO" and not (la is True and lb is False):
                    bad["PC<PO"].append((a, b))
                if ka == "PO" and kb == "PO":
                    want = a[2] > b[2] if a[2] != b[2] else a[0] < b[0]
                    if la is not want:
                        bad["PO/PO"].append((a, b))
                if ka == "PC" and kb == "PC" and a[2] != b[2] and la is not (a[2] < b[2]):
                    bad["PC/PC"].append((a, b))
    return bad


# ------------------------------------------------------------------------------------------ bounded tree semantics
def laminar_families(max_events: int = 3, grid: int = 4):
    """all properly nested (laminar) families of up to max_events closed spans [s, e] on the grid 0..grid, zero durations allowed.
    Two spans are compatible iff one contains the other or their interiors are disjoint (touching allowed)."""
    spans = [(s, e) for s in range(grid + 1) for e in range(s, grid + 1)]

    def compatible(a, b):
        (s1, e1), (s2, e2) = a, b
        if s1 <= s2 and e2 <= e1:
            return True
        if s2 <= s1 and e1 <= e2:
            return True
        return e1 <= s2 or e2 <= s1

    def rec(cur, start):
        if cur:
            yield tuple(cur)
        if len(cur) == max_events:
            return
        for i in range(start, len(spans)):
            if all(compatible(spans[i], c) for c in cur):
                yield from rec(cur + [spans[i]], i)     # i (not i+1): identical spans allowed

    yield from rec([], 0)


def oracle_parents(fam):
    """innermost enclosing event for POSITIVE-duration events (identical spans nest in file order = id order); None = root"""
    out = {}
    for i, (s, e) in enumerate(fam):
        if e == s:
            continue
        best = None
        for j, (s2, e2) in enumerate(fam):
            if j == i or e2 == s2:
                continue
            contains = s2 <= s and e <= e2 and ((s2, e2) != (s, e) or j < i)
            if contains:
                if best is None:
                    best = j
                else:
                    sb, eb = fam[best]
                    inner = (sb <= s2 and e2 <= eb) and ((sb, eb) != (s2, e2) or best < j)
                    if inner:
                        best = j
        out[i] = best
    return out


def simulate(tab: Table, fam, ids):
    """sort the endpoints with the extracted comparator table (functools.cmp_to_key + list.sort: trusted) and run the abstract push/pop scan"""
    import functools
    eps = []
    for i, (s, e) in enumerate(fam):
        eps.append((ids[i], s, e - s, "O"))
        eps.append((ids[i], e, e - s, "C"))

    def c(p, q):
        r = tab.cmp(p, q)
        if r in ("TOP", "RAISE"):
            raise T.Unknown(r)
        return -1 if r == "LT" else (0 if r == "EQ" else 1)
    order = sorted(eps, key=functools.cmp_to_key(c))
    stack, parent, depth = [], {}, {}
    for idx, t, d, k in order:
        if k == "O":
            parent[idx] = stack[-1] if stack else None
            depth[idx] = len(stack)
            stack.append(idx)
        elif stack:
            stack.pop()
    return parent, depth


def check_tree_semantics(tab: Table, chk, rule: str, where: str, key_prefix: str, max_events: int = 3, grid: int = 3) -> Dict[str, Any]:
    """bounded exhaustive check of the paper argument: comparator table + scan = innermost-enclosing-parent tree,
    on every laminar family within the bound and every assignment of ids (file positions)."""
    import itertools
    n_fam = n_runs = 0
    bad_known, bad_other, zero_bad = [], [], []
    for fam in laminar_families(max_events, grid):
        n_fam += 1
        exp = oracle_parents(fam)
        for perm in itertools.permutations(range(len(fam))):
            ids = [p + 1 for p in perm]               # event i has file position ids[i]
            # identical spans nest in FILE order: recompute the oracle with ids as the order
            expo = {}
            order_fam = sorted(range(len(fam)), key=lambda i: ids[i])
            fam_sorted = [fam[i] for i in order_fam]
            e2 = oracle_parents(fam_sorted)
            for pos, par in e2.items():
                expo[ids[order_fam[pos]]] = None if par is None else ids[order_fam[par]]
            n_runs += 1
            try:
                parent, depth = simulate(tab, fam, ids)
            except T.Unknown:
                continue
            wrong = {k: (parent.get(k), v) for k, v in expo.items() if parent.get(k) != v}
            # known class: a zero-duration event sits at an instant where one positive span closes and another opens
            known = any(s == e and any(e1 == s and e1 > s1 for (s1, e1) in fam) and any(s2 == s and e2_ > s2 for (s2, e2_) in fam) for (s, e) in fam)
            if wrong:
                (bad_known if known else bad_other).append((fam, ids, wrong))
            # zero-duration events: placed beneath an event whose closed span contains the instant (or the root)
            for i, (s, e) in enumerate(fam):
                if s == e:
                    p = parent.get(ids[i])
                    if p is not None:
                        ps, pe = fam[ids.index(p)]
                        if not (ps <= s <= pe):
                            (bad_known if known else zero_bad).append((fam, ids, ids[i], p))
    chk.ob(rule, f"{tab.name}: bounded tree semantics - sorted endpoints + push/pop scan give every positive-duration event its innermost enclosing parent "
                 f"({n_fam} laminar families of <= {max_events} spans on a grid of {grid + 1} instants x all id assignments = {n_runs} cases)", not bad_other, where,
           found=[str(b)[:200] for b in bad_other[:3]], accepted="parent == innermost enclosing span (identical spans in file order, touching spans siblings)",
           why="exhaustive within the bound; the comparator is used only through its extracted decision table")
    if bad_known:
        chk.ob(rule.replace("tree-semantics", "strict-weak-order") if False else "C03.O3-strict-weak-order", f"{tab.name}: mis-parented positive events in the bounded enumeration belong to the known cyclic class", False, where,
               found={"cases": len(bad_known), "example": str(bad_known[0])[:200]}, accepted="none", key=f"{key_prefix}|cycle|ZERO,POS_CLOSE,POS_OPEN")
    chk.ob(rule, f"{tab.name}: a zero-duration event is placed beneath an event whose closed span contains its instant", not zero_bad, where, found=[str(z)[:160] for z in zero_bad[:3]], accepted="contained or at the root")
    return {"families": n_fam, "cases": n_runs, "known_class_cases": len(bad_known), "other": len(bad_other)}
