"""E6 - column-coherence typestate  I_end: end == ts + dur  on the per-rank trace frame (C01-R5, C12-R4, C13-R5).

States of a frame: NO_END -> COHERENT (end := ts + dur) -> STALE (ts or dur rewritten) -> COHERENT (re-established).
The functions on the load path that write ts / dur / end are analysed with the symbolic evaluator; the obligation
is evaluated on the frame state at each function's exit, per path.  A whole-program scan then lists every other
writer of ts/dur on a frame that flows from Trace.traces (none is allowed without re-establishing I_end)."""
from __future__ import annotations

import ast

from ..core import terms as T
from ..core.interp import Interp, assume
from ..core.progdb import walk_no_nested
from ..core.values import Frame, Obj, PyTuple, to_term

TM = "hta.common.trace"
KEY = "hta.common.trace:Trace._align_all_ranks|stale-end"


def check_end_coherence(db, chk, rule: str) -> None:
    tm = db.mod(TM)
    # ------------------------------------------------------------ _align_all_ranks (full load)
    fn = tm.func("Trace._align_all_ranks")
    where = tm.loc(fn)
    R0, R1 = T.P("RANK0"), T.P("RANK1")
    T0, T1 = ("param", "TR", R0), ("param", "TR", R1)
    I = Interp(db, decide=assume(("hascol", T0, "end"), ("hascol", T1, "end")))
    runs = I.explore(f"{TM}:Trace._align_all_ranks",
                     lambda I: {"self": Obj("self", cls=(tm, "Trace"), attrs={"traces": {R0: Frame(T0), R1: Frame(T1)}})})
    runs = [r for r in runs if r.raised is None]
    chk.analysed_add("functions", f"{TM}:Trace._align_all_ranks")
    if len(runs) != 1:
        chk.ob(rule, "_align_all_ranks: one path when the frames carry an end column", None, where, found=len(runs))
    else:
        s = runs[0].env["self"]
        tr = s.attrs.get("traces")
        for rk, base in ((R0, T0), (R1, T1)):
            f = tr.get(rk) if isinstance(tr, dict) else None
            if not isinstance(f, Frame):
                chk.ob(rule, f"_align_all_ranks keeps a frame for {T.show(rk)}", None, where)
                continue
            ts, dur, end = f.col("ts"), f.col("dur"), f.col("end")
            ok = end == T.add(ts, dur)
            stale = end == T.col(base, "end") and ts != T.col(base, "ts")
            chk.ob(rule, f"after the time shift of {T.show(rk)}: end == ts + dur (I_end re-established)", ok if not T.has_opaque(end) else None, where,
                   found={"ts": T.show(ts)[:120], "end": T.show(end)[:120], "state": "STALE" if stale else ("COHERENT" if ok else "?")},
                   accepted="end = (shifted ts) + dur", why="every reader of end (last-step cut-off, kernel span attributes, annotation windows) mixes it with the shifted ts", key=KEY)
    check_time_dtype(db, chk, rule)
    # ------------------------------------------------------------ parse_trace_file (parse-only)
    pf = tm.func("parse_trace_file")
    DF = ("param", "PARSED")

    def hook(I, name, pos, kw, node):
        if name == "parse_trace_dataframe":
            return PyTuple([T.P("META"), Frame(DF), Obj("local_symtab")])
        if name in ("add_fwd_bwd_links", "add_iteration"):
            return None
        if name == "transform_correlation_to_index":
            return pos[0]
        return NotImplemented

    I = Interp(db, call_hook=hook)
    runs = I.explore(f"{TM}:parse_trace_file", lambda I: {"trace_file_path": "x.json", "cfg": Obj("cfg")})
    runs = [r for r in runs if r.raised is None and isinstance(r.ret, PyTuple)]
    chk.analysed_add("functions", f"{TM}:parse_trace_file")
    if len(runs) != 1 or not isinstance(runs[0].ret.items[1], Frame):
        chk.ob(rule, "parse_trace_file: one normal path returning (meta, frame, table)", None, tm.loc(pf), found=len(runs))
    else:
        f = runs[0].ret.items[1]
        ts, dur, end = f.col("ts"), f.col("dur"), f.col("end")
        chk.ob(rule, "parse_trace_file establishes end = ts + dur on the frame it returns (after every rewrite of ts/dur)", end == T.add(ts, dur), tm.loc(pf),
               found=T.show(end)[:120], accepted=T.show(T.add(ts, dur))[:120])
    # ------------------------------------------------------------ other writers of ts / dur in the Trace class and in analyzers operating on Trace.traces in place
    writers = []
    for q, f in tm.functions.items():
        if not q.startswith("Trace."):
            continue
        loaded = set()
        for n in walk_no_nested(f):
            # names bound to a loaded per-rank frame: loop targets over self.traces.items()/values(), self.traces[...], self.get_trace(...)
            src = None
            if isinstance(n, ast.For):
                src, tg = n.iter, n.target
            elif isinstance(n, ast.Assign) and len(n.targets) == 1:
                src, tg = n.value, n.targets[0]
            if src is not None and ("self.traces" in ast.unparse(src) or "self.get_trace" in ast.unparse(src)):
                for x in ast.walk(tg):
                    if isinstance(x, ast.Name):
                        loaded.add(x.id)
        for n in walk_no_nested(f):
            if isinstance(n, ast.Assign):
                for t in n.targets:
                    if isinstance(t, ast.Subscript) and isinstance(t.slice, ast.Constant) and t.slice.value in ("ts", "dur") and isinstance(t.ctx, ast.Store):
                        base = ast.unparse(t.value)
                        if base in loaded or "self.traces" in base:
                            writers.append((q, t.slice.value, tm.loc(n)))
    others = [w for w in writers if w[0] != "Trace._align_all_ranks"]
    chk.ob(rule, "no other method of Trace rewrites ts / dur of a loaded frame", not others, tm.loc(fn), found=writers, accepted=[("Trace._align_all_ranks", "ts", "...")],
           why="a further writer would need its own re-establishment of end = ts + dur")
    # readers of end on loaded frames (evidence: where the invariant is relied upon)
    readers = []
    for m in db.modules.values():
        for q, f in m.functions.items():
            for n in walk_no_nested(f):
                if isinstance(n, ast.Subscript) and isinstance(n.ctx, ast.Load) and isinstance(n.slice, ast.Constant) and n.slice.value == "end":
                    readers.append(f"{m.name}:{q}")
                elif isinstance(n, ast.Attribute) and isinstance(n.ctx, ast.Load) and n.attr == "end" and isinstance(n.value, (ast.Name, ast.Attribute, ast.Subscript)) \
                        and ("df" in ast.unparse(n.value) or "kernels" in ast.unparse(n.value)):
                    readers.append(f"{m.name}:{q}")
    readers = sorted(set(readers))
    chk.analysed_add("readers_of_end", readers)
    chk.ob(rule, "readers of the end column exist (the invariant is relied upon)", len(readers) >= 6, tm.loc(fn), found=len(readers), accepted=">= 6 reader functions", nontrivial=False)


def check_time_dtype(db, chk, rule: str) -> None:
    """the time columns of a loaded frame keep a full-width dtype: _align_all_ranks neither down-casts nor narrows ts / dur / end.
    (ts + dur, window bounds and node times are computed in the column's dtype; in a data-dependent narrow dtype they wrap.)"""
    from .discipline import narrowing_casts
    tm = db.mod(TM)
    fn = tm.func("Trace._align_all_ranks")
    where = tm.loc(fn)
    R0 = T.P("RANK0")
    T0 = ("param", "TR", R0)
    I = Interp(db, decide=assume(("hascol", T0, "end")))
    runs = [r for r in I.explore(f"{TM}:Trace._align_all_ranks", lambda I: {"self": Obj("self", cls=(tm, "Trace"), attrs={"traces": {R0: Frame(T0)}})}) if r.raised is None]
    if len(runs) != 1:
        chk.ob(rule, "_align_all_ranks: one path", None, where, found=len(runs))
        return
    r = runs[0]
    timecols = [T.col(T0, c) for c in ("ts", "dur", "end")]
    casts = [e for e in r.events if e["kind"] == "identity-cast" and e.get("term") is not None and any(tc in T.find(e["term"], lambda s: s[0] == "col") for tc in timecols)]
    f = r.env["self"].attrs["traces"].get(R0)
    narrow = []
    if isinstance(f, Frame):
        for c in ("ts", "dur", "end"):
            narrow += narrowing_casts(f.col(c))
    chk.ob(rule, "the shifted time columns are not down-cast (pd.to_numeric(downcast=...)) or narrowed", not casts and not narrow, where,
           found={"downcasts": [T.show(e["term"])[:100] for e in casts], "narrow casts": narrow}, accepted="ts = ts - min_ts in the column's own 64-bit dtype",
           why="after a data-dependent downcast (int16 when every start fits) ts + dur is evaluated in the narrow dtype: an event ending past 32767 us gets a negative end, a backward span edge and a negative weight")


def check_parser_time_dtype(db, chk, rule: str) -> None:
    """the parser's blanket integer down-cast must leave the start-time column at full width: end = ts + dur (and every later ts + dur)
    is evaluated in the wider of the two dtypes, so a trace whose timestamps all fit int16 would otherwise get ends that wrap."""
    from ..core import asthelp as H
    tp = db.mod("hta.common.trace_parser")
    f = tp.func("_compress_df")
    where = tp.loc(f)
    casts = [c for c in ast.walk(f) if isinstance(c, ast.Call) and ast.unparse(c.func).endswith("to_numeric") and any(k.arg == "downcast" for k in c.keywords)]
    if not casts:
        chk.ob(rule, "_compress_df: no blanket down-cast of integer columns", True, where, found="no to_numeric(downcast=...)", accepted="none, or one that excludes ts")
        return
    for c in casts:
        # enclosing loop over the columns and the guards between the loop and the cast
        cur, guards, loop = tp.parent.get(id(c)), [], None
        while cur is not None and cur is not f:
            if isinstance(cur, ast.If):
                guards.append(cur.test)
            if isinstance(cur, ast.For) and loop is None:
                loop = cur
            cur = tp.parent.get(id(cur))
        if loop is None or not isinstance(loop.target, ast.Name):
            arg = ast.unparse(c.args[0]) if c.args else ""
            chk.ob(rule, "_compress_df: a down-cast outside a column loop does not touch ts", "'ts'" not in arg and '"ts"' not in arg, where, found=ast.unparse(c)[:100], accepted="not the ts column")
            continue
        v = loop.target.id
        # the blanket cast is for INTEGER columns only: with errors="coerce" a cast of an object column turns every non-numeric label into NaN
        kinds = []
        for g in guards:
            for x in ast.walk(g):
                if isinstance(x, ast.Compare) and isinstance(x.left, ast.Attribute) and x.left.attr == "kind" and len(x.comparators) == 1:
                    kinds.append((type(x.ops[0]).__name__, H.str_const(x.comparators[0]) or [H.str_const(e) for e in getattr(x.comparators[0], "elts", [])]))
        coerce = any(k.arg == "errors" and H.str_const(k.value) == "coerce" for k in c.keywords)
        int_only = kinds == [("Eq", "i")] or kinds == [("Eq", "u")] or (len(kinds) == 1 and kinds[0][0] == "In" and set(kinds[0][1] or []) <= {"i", "u"})
        chk.ob(rule, "_compress_df: a coercing numeric cast is applied to integer columns only", True if (int_only or not coerce) else (False if kinds else None), tp.loc(c),
               found={"dtype guards": kinds, "errors": "coerce" if coerce else "raise"}, accepted="df[col].dtype.kind == 'i'",
               why="pid / tid written as strings ('stream 7', 'Spans') would silently become NaN: process and thread no longer decode to the file's values",
               key="hta.common.trace_parser:_compress_df|coerce-non-integer")
        if not int_only:
            continue
        over_all = "columns" in ast.unparse(loop.iter)
        listed = [H.str_const(e) for e in loop.iter.elts] if isinstance(loop.iter, (ast.List, ast.Tuple)) else None
        excl = False
        for g in guards:
            for t_ in (g.values if isinstance(g, ast.BoolOp) and isinstance(g.op, ast.And) else [g]):
                if isinstance(t_, ast.Compare) and len(t_.ops) == 1 and H.name_id(t_.left) == v:
                    cmp_, rhs = t_.ops[0], t_.comparators[0]
                    if isinstance(cmp_, ast.NotEq) and H.str_const(rhs) == "ts":
                        excl = True
                    if isinstance(cmp_, ast.NotIn) and isinstance(rhs, (ast.Tuple, ast.List, ast.Set)) and "ts" in [H.str_const(e) for e in rhs.elts]:
                        excl = True
                    if isinstance(cmp_, ast.NotIn) and isinstance(rhs, ast.Name):
                        cv = tp.constants.get(rhs.id) or next((val for t2, val, s2 in H.assignments(f) if H.name_id(t2) == rhs.id), None)
                        if isinstance(cv, (ast.Tuple, ast.List, ast.Set)) and "ts" in [H.str_const(e) for e in cv.elts]:
                            excl = True
        if listed is not None:
            verdict = "ts" not in listed
        elif over_all:
            verdict = True if excl else False
        else:
            verdict = None
        chk.ob(rule, "_compress_df: the integer down-cast leaves the ts column at its full width", verdict, tp.loc(c),
               found={"loop": ast.unparse(loop.iter)[:60], "guards": [ast.unparse(g)[:80] for g in guards]}, accepted="for col in df.columns: if <int column> and col != 'ts': downcast",
               why="with zero-based or small timestamps ts becomes int16/int8 like dur, and end = ts + dur wraps (e.g. ts 30000 + dur 5000 -> -30536)",
               key="hta.common.trace_parser:_compress_df|downcast-ts")
