"""Generic effect rules shared by several properties (each is a necessary condition of 'the result is a function of the
arguments / the stored object is the object that was built'):

  check_stateless        - an analysis neither keeps state between calls (module-/class-level containers, memoising
                           decorators) nor modifies the object graph of the Trace it was given
  check_pickle_hooks     - classes whose instances are pickled carry no state-dropping pickling hook
"""
from __future__ import annotations

import ast
from typing import Dict, Iterable, List, Optional, Tuple

from ..core import asthelp as H
from ..core.progdb import walk_no_nested

TRACE_PARAMS = ("t", "trace", "trace_data", "control", "test", "self")
_MEMO = {"lru_cache", "cache", "functools.lru_cache", "functools.cache", "cached_property", "functools.cached_property"}

# memoising decorators present on the pinned tree, each confirmed by reading: key -> why the cached value cannot go stale
MEMO_FROZEN: Dict[Tuple[str, str], str] = {
    ("hta.analyzers.critical_path_analysis", "CPGraph._add_zero_weight_launch_edges"): "memoises an environment option per graph object; not a function of the trace",
    ("hta.analyzers.critical_path_analysis", "CPGraph._event_to_attributed_edges_map"): "per-object map built from edge_to_event_map; its only reader is the public accessor "
                                                                                         "get_edges_attributed_to_event, which no construction step calls",
    ("hta.configs.event_args_yaml_parser", "parse_event_args_yaml"): "memoises the parsed YAML of a version string; the file is part of the package",
}
# stores into module-level containers that are not results: key -> reason
STATE_EXEMPT: Dict[Tuple[str, str], str] = {
    ("hta.analyzers.critical_path_analysis", "timeit"): "profiling decorator: accumulates wall-clock seconds per function name in PROFILE_TIMES, never read by an analysis",
}


def _top_functions(mod):
    """functions/methods that are not nested in another function (their walk covers the nested ones)"""
    for q, f in mod.functions.items():
        parts = q.split(".")
        nested = False
        for i in range(1, len(parts)):
            if ".".join(parts[:i]) in mod.functions:
                nested = True
        if not nested:
            yield q, f


def check_stateless(db, chk, rule: str, modnames: Iterable[str], scope: Optional[Iterable[str]] = None, self_ok: bool = True) -> None:
    """scope: qualname prefixes to restrict to (default: the whole module)"""
    n = 0
    for mn in modnames:
        mod = db.mod(mn)
        for q, f in _top_functions(mod):
            if scope is not None and not any(q == s or q.startswith(s + ".") for s in scope):
                continue
            n += 1
            sm = H.shared_state_mutations(mod, f)
            if (mn, q) in STATE_EXEMPT:
                chk.analysed_add("state_exempt", f"{mn}:{q}: {STATE_EXEMPT[(mn, q)]}")
                continue
            chk.ob(rule, f"{mn}:{q} keeps no state across calls (no store into a module- or class-level container)", not sm, mod.loc(f), found=sm, accepted="no such store",
                   why="a result cached under a key that omits one of the arguments is returned for a later call with other arguments", key=f"{mn}:{q}|shared-state")
            ps = [p for p in H.param_names(f) if p in TRACE_PARAMS and not (p == "self" and self_ok)]
            pm = H.param_container_mutations(f, ps) if ps else []
            chk.ob(rule, f"{mn}:{q} leaves the caller's Trace object graph untouched (no store through a parameter, an alias or a shallow copy)", not pm, mod.loc(f), found=pm,
                   accepted="deepcopy before replacing a rank's frame; otherwise read-only",
                   why="replacing trace.traces[rank] inside the caller's object makes every later analysis see the clipped / rewritten events", key=f"{mn}:{q}|caller-object")
            la = H.first_iteration_latches(f)
            chk.ob(rule, f"{mn}:{q}: no per-iteration value is latched from the first iteration of a loop (first rank's data reused for the others)", not la, mod.loc(f), found=la,
                   accepted="values derived from the loop variables are recomputed in every iteration", why="e.g. a name->type map built from the first rank's kernels leaves later ranks' new names unclassified",
                   key=f"{mn}:{q}|latch", nontrivial=False)
            gc_ = H.generators_consumed_twice(f)
            chk.ob(rule, f"{mn}:{q}: no generator is consumed twice", not gc_, mod.loc(f), found=gc_ or "none", accepted="a generator feeds one loop / one materialisation",
                   why="len(list(gen)) in a log statement exhausts the generator: the loop that follows emits nothing", key=f"{mn}:{q}|generator-twice", nontrivial=False)
            lb_ = H.late_bound_lazies(f)
            chk.ob(rule, f"{mn}:{q}: no generator / lambda that reads a loop-bound variable is kept beyond its iteration", not lb_, mod.loc(f), found=lb_ or "none", accepted="materialise inside the iteration ([...] instead of (...))",
                   why="a generator stored per rank and consumed after the rank loop computes every rank's rows from the LAST rank's frame", key=f"{mn}:{q}|late-binding", nontrivial=False)
            sv_ = H.shared_mutable_values(f)
            chk.ob(rule, f"{mn}:{q}: no container is built whose keys / slots share one mutable object", not sv_, mod.loc(f), found=sv_ or "none", accepted="one fresh list / dict per key ({k: [] for k in keys}, defaultdict(list))",
                   why="dict.fromkeys(ranks, []) gives every rank the SAME list: what is appended for one rank shows up under all of them", key=f"{mn}:{q}|shared-mutable", nontrivial=False)
            du_ = H.dead_updates_after_loop(f)
            chk.ob(rule, f"{mn}:{q}: no loop-carried value is advanced only AFTER its loop", not du_, mod.loc(f), found=du_ or "none", accepted="the update of an offset / counter read by the loop sits inside the loop",
                   why="`offset += count` placed after the loop leaves every iteration with the initial offset: each rank / group is given the first one's slice", key=f"{mn}:{q}|dead-update", nontrivial=False)
            cf_ = H.cross_iteration_flows(f)
            chk.ob(rule, f"{mn}:{q}: a rank's result does not read what an earlier rank's iteration stored (per-rank loops are independent)", not cf_, mod.loc(f), found=cf_,
                   accepted="containers filled in a per-rank loop are only read after the loop (or under the key stored earlier in the same iteration)",
                   why="e.g. an allow-list remembered from the first rank changes which kernels the later ranks list", key=f"{mn}:{q}|cross-iteration", nontrivial=False)
            for d in getattr(f, "decorator_list", []):
                dn = ast.unparse(d.func if isinstance(d, ast.Call) else d)
                if dn in _MEMO:
                    why = MEMO_FROZEN.get((mn, q))
                    params = H.param_names(f)
                    reads_cfg = any(isinstance(x, ast.Attribute) and isinstance(x.value, ast.Name) and x.value.id in ("hta_options", "os") for x in ast.walk(f)) or "environ" in ast.unparse(f)
                    if not params and reads_cfg:
                        # no argument in the cache key: evaluated once per PROCESS, although it reads a setting that can change between analyses
                        chk.ob(rule, f"{mn}:{q} memoised with @{dn}: the cache key contains an argument (at least the object), so a changed option is seen by the next analysis", False, mod.loc(f),
                               found={"decorators": [ast.unparse(x) for x in f.decorator_list], "parameters": params}, accepted="per-object memo (self in the key) or no memo",
                               why="a parameterless memoised reader of an environment option latches the first value for the life of the process", key=f"{mn}:{q}|memo")
                    else:
                        chk.ob(rule, f"{mn}:{q} memoised with @{dn}", True if why else None, mod.loc(f), found=dn, accepted=why or "not in the confirmed table", key=f"{mn}:{q}|memo")
    chk.analysed_add("stateless_scan_functions", n)


_HOOKS = ("__getstate__", "__setstate__", "__reduce__", "__reduce_ex__", "__getnewargs__", "__getnewargs_ex__")


def check_pickle_hooks(db, chk, rule: str, modname: str, classes: Iterable[str]) -> None:
    mod = db.mod(modname)
    for cn in classes:
        cls = mod.classes.get(cn)
        if cls is None:
            chk.ob(rule, f"class {cn} (instances are pickled) exists", None, modname, found="missing")
            continue
        hooks = [s for s in cls.body if isinstance(s, ast.FunctionDef) and s.name in _HOOKS]
        slots = [s for s in cls.body if isinstance(s, (ast.Assign, ast.AnnAssign)) and "__slots__" in ast.unparse(s)]
        verdict = True
        det = []
        for h in hooks:
            src = ast.unparse(h)
            drops = any(isinstance(n, ast.Call) and isinstance(n.func, ast.Attribute) and n.func.attr in ("pop", "popitem", "clear") for n in ast.walk(h)) or \
                any(isinstance(n, ast.Delete) for n in ast.walk(h)) or any(isinstance(n, ast.DictComp) and n.generators and n.generators[0].ifs for n in ast.walk(h))
            det.append(f"{h.name}: {'drops state' if drops else 'custom'}")
            verdict = False if drops else (None if verdict else verdict)
        chk.ob(rule, f"{modname}:{cn}: pickled with the default protocol (whole instance state), no state-dropping hook", verdict, mod.loc(cls), found=det or "no pickling hook", accepted="no __getstate__/__reduce__ hook",
               why="a field left out of the pickled state comes back as the class default (e.g. is_blocking False on every restored node)", key=f"{modname}:{cn}|pickle-hooks")
        # equality and hash stay the generated, value-based pair: restored objects are new objects and must still be found in sets / dict keys
        eqh = [st for st in cls.body if (isinstance(st, ast.FunctionDef) and st.name in ("__hash__", "__eq__")) or
               (isinstance(st, (ast.Assign, ast.AnnAssign)) and any(isinstance(t_, ast.Name) and t_.id in ("__hash__", "__eq__") for t_ in (st.targets if isinstance(st, ast.Assign) else [st.target])))]
        ident = [st for st in eqh if isinstance(st, (ast.Assign, ast.AnnAssign)) and ("object.__hash__" in ast.unparse(st) or "id(" in ast.unparse(st))] + \
                [st for st in eqh if isinstance(st, ast.FunctionDef) and st.name == "__hash__" and "id(self)" in ast.unparse(st)]
        chk.ob(rule, f"{modname}:{cn}: hash and equality are the generated value-based pair (no identity hash on a value-equal class)", True if not eqh else (False if ident else None), mod.loc(cls),
               found=[" ".join(ast.unparse(st).split())[:70] for st in eqh] or "generated by @dataclass", accepted="no explicit __hash__ / __eq__",
               why="with __hash__ = object.__hash__ an unpickled edge equals the saved one but hashes differently: it is not found in the restored critical_path_edges_set", key=f"{modname}:{cn}|hash-eq")
        chk.ob(rule, f"{modname}:{cn}: no __slots__ (default pickling covers every field)", not slots, mod.loc(cls), found=[ast.unparse(s) for s in slots], accepted="none", nontrivial=False)


_NARROW = ("int8", "int16", "int32", "uint8", "uint16", "uint32", "uint64", "unsigned", "short", "intc", "ubyte", "ushort", "uintc", "uint", "byte", "Int8", "Int16", "Int32", "UInt8", "UInt16", "UInt32", "UInt64", "float16", "float32", "half", "single")
_WIDE = ("int64", "int", "Int64", "float64", "float", "double", "object", "int_", "longlong")


def _type_name(ty) -> str:
    if isinstance(ty, tuple) and ty:
        if ty[0] == "const":
            return str(ty[1])
        if ty[0] in ("ext", "attr", "extattr"):
            return str(ty[-1]).split(".")[-1]
        if ty[0] == "builtin" or ty[0] == "name":
            return str(ty[-1])
    return str(ty)


def narrowing_casts(term) -> list:
    """type names of fixed-width narrow (or unsigned) casts inside a term: such a cast wraps / truncates silently when the data outgrow it"""
    from ..core import terms as T
    out = []
    for s in T.find(term, lambda s: s[0] == "astype" and len(s) == 3):
        nm = _type_name(s[1])
        if nm in _NARROW:
            out.append(nm)
    return out


def strip_wide_casts(term):
    """law: a cast to a 64-bit / Python numeric type is the identity on the integer-valued columns it is used on here"""
    if isinstance(term, tuple):
        if len(term) == 3 and term[0] == "astype" and _type_name(term[1]) in _WIDE:
            return strip_wide_casts(term[2])
        return tuple(strip_wide_casts(x) for x in term)
    return term


FACADE = "hta.trace_analysis"


def check_facade_stateless(db, chk, rule: str, methods: Iterable[str]) -> None:
    """the TraceAnalysis wrappers of a property keep nothing on the TraceAnalysis object between calls: every call recomputes from the
    trace and its own arguments (a per-object result cache keyed by some of the arguments returns stale results for the others)"""
    m = db.mod(FACADE)
    for name in methods:
        f = m.func(f"TraceAnalysis.{name}")
        bad = []
        for n in ast.walk(f):
            if isinstance(n, (ast.Assign, ast.AugAssign, ast.AnnAssign)):
                for t in (n.targets if isinstance(n, ast.Assign) else [n.target]):
                    base = t
                    while isinstance(base, (ast.Subscript, ast.Attribute)) and not (isinstance(base, ast.Attribute) and isinstance(base.value, ast.Name)):
                        base = base.value
                    if isinstance(base, ast.Attribute) and isinstance(base.value, ast.Name) and base.value.id == "self" and not (base.attr == "t" and t is not base):
                        bad.append(" ".join(ast.unparse(n).split())[:90])
            if isinstance(n, ast.Attribute) and n.attr == "__dict__" and isinstance(n.value, ast.Name) and n.value.id == "self":
                bad.append(f"self.__dict__ at line {n.lineno}")
            if isinstance(n, ast.Call) and isinstance(n.func, ast.Name) and n.func.id in ("setattr", "vars") and n.args and isinstance(n.args[0], ast.Name) and n.args[0].id == "self":
                bad.append(" ".join(ast.unparse(n).split())[:90])
            if isinstance(n, ast.Call) and isinstance(n.func, ast.Attribute) and n.func.attr in H._MUT_METHODS and isinstance(n.func.value, ast.Attribute) \
                    and isinstance(n.func.value.value, ast.Name) and n.func.value.value.id == "self":
                bad.append(" ".join(ast.unparse(n).split())[:90])
        bad += H.shared_mutable_values(f)
        decos = [ast.unparse(d) for d in f.decorator_list if any(k in ast.unparse(d) for k in ("cache", "memo"))]
        chk.ob(rule, f"TraceAnalysis.{name} keeps no state on the TraceAnalysis object and gives every rank its own containers (no attribute store, no self.__dict__, no memoising decorator, no dict.fromkeys(keys, []))", not bad and not decos, m.loc(f),
               found=sorted(set(bad)) + decos or "stateless", accepted="every call recomputes from self.t and its arguments",
               why="a result cache keyed by (rank, streams, ...) but not by every argument (e.g. consecutive_kernel_delay) answers a later call with the earlier call's result",
               key=f"{FACADE}:TraceAnalysis.{name}|facade-state")


ANALYZER_MODULES = ("hta.analyzers.breakdown_analysis", "hta.analyzers.communication_analysis", "hta.analyzers.critical_path_analysis", "hta.analyzers.trace_counters",
                    "hta.analyzers.cuda_kernel_analysis", "hta.analyzers.cupti_counter_analysis", "hta.analyzers.straggler_analysis", "hta.analyzers.timeline", "hta.trace_diff")


def check_no_shared_state(db, chk, rule: str, why: str) -> None:
    """only the shared-state clause of check_stateless, over every analyzer module: nothing computed from one trace's data (e.g. a table keyed by that
    trace's symbol ids) is kept in a module- or class-level container where the analysis of the next trace would find it"""
    n = 0
    for mn in ANALYZER_MODULES:
        if mn not in db.modules:
            continue
        mod = db.mod(mn)
        for q, f in _top_functions(mod):
            if (mn, q) in STATE_EXEMPT:
                continue
            n += 1
            sm = H.shared_state_mutations(mod, f)
            if sm:
                chk.ob(rule, f"{mn}:{q} keeps nothing derived from a trace in a module- or class-level container", False, mod.loc(f), found=sm, accepted="no such store", why=why, key=f"{mn}:{q}|shared-state")
    chk.ob(rule, "analyzer functions inspected for state that outlives a trace", True if n >= 40 else None, "hta/analyzers", found=n, accepted=">= 40", nontrivial=False)


def check_shared_trace_untouched(db, chk, rule: str) -> None:
    """Every analysis reads the ONE Trace object of the TraceAnalysis session. A property about one analysis therefore also needs that NO other
    analysis replaces or edits the containers of that object (through a parameter, an alias or a shallow copy): otherwise the result depends on
    which analyses ran before."""
    n = 0
    for mn in ANALYZER_MODULES:
        if mn not in db.modules:
            continue
        mod = db.mod(mn)
        for q, f in _top_functions(mod):
            ps = [p for p in H.param_names(f) if p in TRACE_PARAMS and p != "self"]
            if not ps:
                continue
            n += 1
            pm = H.param_container_mutations(f, ps)
            if pm:
                chk.ob(rule, f"{mn}:{q} leaves the session's Trace object untouched", False, mod.loc(f), found=pm, accepted="deepcopy before replacing a rank's frame",
                       why="after this analysis every other analysis of the session (this property's included) sees the replaced frame", key=f"{mn}:{q}|shared-trace")
    chk.ob(rule, f"no analysis of the session edits the shared Trace object graph ({n} functions taking a Trace scanned)", n >= 20, "hta/analyzers", found=n, accepted=">= 20 functions scanned", nontrivial=False)


def check_facade_binding(db, chk, rule: str, facade_q: str, callee_mod: str, callee_q: str, plural: Optional[dict] = None, returns=None) -> bool:
    """The TraceAnalysis wrapper hands each of its arguments to the like-named parameter of the analyzer function - decided by EVALUATING the wrapper with the
    analyzer function hooked (whatever way the call is written: positional, keyword, functools.partial, map over the ranks):
    every hooked call receives self.t as the trace, the wrapper's own parameter value under each like-named parameter, and - for a per-rank analyzer - the
    requested ranks one after the other.  Returns False when the wrapper could not be evaluated (the caller then reports 'not understood')."""
    from ..core.interp import Interp
    from ..core import terms as T
    from ..core.values import Obj, PyTuple, to_term
    ta = db.mod("hta.trace_analysis")
    fac = ta.func(facade_q)
    cm = db.mod(callee_mod)
    cal = cm.func(callee_q)
    where = ta.loc(fac)
    plural = plural or {}
    cparams = [p_ for p_ in H.param_names(cal) if p_ not in ("cls", "self")]
    fparams = [p_ for p_ in H.param_names(fac) if p_ != "self"]
    tobj = Obj("SESSION_TRACE")
    short = callee_q.split(".")[-1]

    def hook(I, name, pos, kw, node):
        if name.split(".")[-1] == short and (name.endswith(callee_q) or name.split(".")[0] in (callee_q.split(".")[0], "cls")):
            b = dict(zip(cparams, pos))
            b.update({k: v for k, v in kw.items() if k in cparams})
            I.log("facade-call", node, bound={k: v for k, v in b.items()})
            return returns(I) if returns is not None else None
        return NotImplemented
    env = {"self": Obj("self", cls=(ta, "TraceAnalysis"), attrs={"t": tobj})}
    for p_ in fparams:
        env[p_] = [T.P("R0"), T.P("R1")] if p_ in plural.values() else T.P(p_)
    I = Interp(db, call_hook=hook)
    try:
        runs = [r for r in I.explore(f"hta.trace_analysis:{facade_q}", lambda I: dict(env)) if r.raised is None]
    except Exception as e:          # noqa
        chk.ob(rule, f"{facade_q}: the wrapper is analysable", None, where, found=str(e)[:120])
        return False
    runs = [r for r in runs if any(e["kind"] == "facade-call" for e in r.events)]
    if not runs or len(runs) > 16:
        chk.ob(rule, f"{facade_q}: paths that reach {callee_q}", None, where, found=len(runs))
        return False
    for r in runs[:8]:
        calls = [e["bound"] for e in r.events if e["kind"] == "facade-call"]
        cond = (" [" + T.show(r.cond())[:50] + "]") if r.path else ""
        for pn in cparams:
            vals = [c.get(pn, "<default>") for c in calls]
            if pn in ("t", "trace"):
                ok = all(v is tobj for v in vals)
                acc = "self.t"
            elif pn in plural:
                ok = [to_term(v) if v != "<default>" else None for v in vals] == [T.P("R0"), T.P("R1")]
                acc = f"each of {plural[pn]} in turn"
            elif pn in fparams:
                ok = all(v != "<default>" and to_term(v) == T.P(pn) for v in vals)
                acc = pn
            else:
                continue
            chk.ob(rule, f"facade argument -> parameter {pn}{cond}", ok, where, found=[("self.t" if v is tobj else v if isinstance(v, str) else T.show(to_term(v))[:60]) for v in vals], accepted=acc,
                   why="arguments bound to another parameter silently change threshold / rank / stream selection")
    return True
