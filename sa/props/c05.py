"""C05 - kernel breakdown partitions busy time by type and conserves per-kernel time (structural clauses)."""
from __future__ import annotations

import ast

from ..core import terms as T
from ..core import asthelp as H
from ..core.interp import Interp
from ..core.progdb import AnalysisError
from ..core.values import Frame, Obj, PyTuple, to_term
from ..specs.merge import MergeHook, check_merge, check_term
from ..specs import kernel_type as KT

EXPLANATION = (
    "Symbolic column-term evaluation of BreakdownAnalysis._get_gpu_kernel_type_time, _aggr_gpu_kernel_time and get_gpu_kernel_breakdown. Decides the "
    "bit-sweep template (per type: merged intervals of that type's rows, markers +v/-v with v = distinct powers of two, time-sorted cumsum, next_time = "
    "shift(-1), rows kept iff running > 0, label by bit tests, sum of next_time - time per label), the aggregator provenance rule (on every path sum/max/"
    "min/mean/std of a row that keeps its name are aggregated directly from the kernels' dur; 'others' conserves the total; positional cut on the frame "
    "sorted by sum descending with a fresh index; guard shape > num_kernels), the analysed type list and the argument bindings. Structure, not numbers."
    " Later additions: effect rules (stateless, latch, cross-iteration flow, shared mutable values), two-rank exploration (one sweep and one aggregation per rank)."
)
BA = "hta.analyzers.breakdown_analysis"
STATS = ("sum", "max", "min", "mean", "std")


def leaves(t, melt=False):
    """the pieces of a column of a concatenated frame; with melt=True also one piece per value column of a melted frame"""
    if isinstance(t, tuple) and t and t[0] == "ccol":
        out = []
        for x in t[2]:
            out.extend(leaves(x, melt))
        return out
    # a column of a melted frame: one leaf per melted value column (melt stacks one copy of the rows per value column)
    mp = T.melt_pieces(t) if melt and isinstance(t, tuple) else None
    if mp is not None and len(mp) >= 2:
        out = []
        for _lab, x in mp:
            out.extend(leaves(x, melt))
        return out
    return [t]


def run(db, chk) -> None:
    from ..specs.discipline import check_shared_trace_untouched
    check_shared_trace_untouched(db, chk, "C05.R-shared-trace")
    from ..specs.discipline import check_facade_stateless
    check_facade_stateless(db, chk, "C05.R-facade-stateless", ['get_gpu_kernel_breakdown'])
    from ..specs.discipline import check_stateless
    check_stateless(db, chk, "C05.R-stateless", ['hta.analyzers.breakdown_analysis'])      # the result is a function of the arguments: no state kept between calls, caller's Trace untouched
    chk.floor("C05.R-stateless", 4)
    check_merge(db, chk, "C05.R1-interval-union")
    chk.floor("C05.R1-interval-union", 8)
    m = db.mod(BA)
    cls = (m, "BreakdownAnalysis")
    G = ("param", "G")
    _type_time(db, chk, m, cls, G)
    _aggr(db, chk, m, cls, G)
    _outer(db, chk, m, cls)


# ------------------------------------------------------------------------------------------ R1 bit sweep
def _type_time(db, chk, m, cls, G):
    rule = "C05.R1-bit-sweep"
    ref = f"{BA}:BreakdownAnalysis._get_gpu_kernel_type_time"
    fn = m.func("BreakdownAnalysis._get_gpu_kernel_type_time")
    where = m.loc(fn)
    types = ["COMPUTATION", "COMMUNICATION", "MEMORY"]
    hook = MergeHook()
    seen = []

    def dec(c):
        seen.append(c)
        return True

    I = Interp(db, call_hook=hook, decide=dec)
    runs = I.explore(ref, lambda I: {"cls": Obj("cls", cls=cls), "gpu_kernels": Frame(G), "kernel_type_to_analysis": list(types)})
    chk.analysed_add("functions", ref)
    if len(runs) != 1 or not isinstance(runs[0].ret, Frame) or runs[0].raised:
        chk.ob(rule, "one path returning a frame", None, where, found=len(runs))
        return
    r = runs[0]
    R = r.ret
    # 1 operands
    ok = len(hook.calls) == len(types)
    for ty, c in zip(types, hook.calls):
        exp = (G, T.cmp("==", T.col(G, "kernel_type"), T.C(ty)), None)
        chk.ob(rule, f"operand {ty}: merged intervals of exactly the rows of that type", c["arg_ctx"] == exp and c["ts"] == T.col(G, "ts") and c["dur"] == T.col(G, "dur"),
               where, found=T._ctx(c["arg_ctx"]), accepted=T._ctx(exp), why="un-merged overlaps of one type add its bit twice; another row set changes the partition")
    chk.ob(rule, "one merged operand per analysed type", ok, where, found=len(hook.calls), accepted=len(types))
    if not ok:
        return
    # 2 bit values
    mp = next((v for v in r.env.values() if isinstance(v, dict) and v and set(v) <= set(types) and all(isinstance(x, int) for x in v.values())), None)
    if mp is None:          # the assignment may live in a small object (a tuple of (type, bit) pairs, an attribute)
        def pairs_of(v):
            items = v.items if isinstance(v, PyTuple) else (v if isinstance(v, list) else None)
            if items and all(isinstance(x, PyTuple) and len(x.items) == 2 and isinstance(x.items[0], str) and isinstance(x.items[1], int) for x in items) and {x.items[0] for x in items} <= set(types):
                return {x.items[0]: x.items[1] for x in items}
            return None
        cands = list(r.env.values()) + [a for v in r.env.values() if isinstance(v, Obj) for a in v.attrs.values()]
        mp = next((d for d in map(pairs_of, cands) if d), None) or next((a for a in cands if isinstance(a, dict) and a and set(a) <= set(types) and all(isinstance(x, int) for x in a.values())), None)
    want = {ty: 1 << i for i, ty in enumerate(types)}
    if mp is None:
        chk.ob(rule, "marker values are distinct powers of two (one bit per type)", None, where, found="the type -> marker assignment was not found among the values of the run", accepted=want)
        return
    vals_ok = isinstance(mp, dict) and dict(mp) == want
    if isinstance(mp, dict) and not vals_ok:
        vs = list(mp.values())
        vals_ok = len(set(vs)) == len(vs) == len(types) and all(isinstance(v, int) and v > 0 and v & (v - 1) == 0 for v in vs)
    chk.ob(rule, "marker values are distinct powers of two (one bit per type)", vals_ok, where, found=dict(mp) if isinstance(mp, dict) else None, accepted=want,
           why="values sharing bits make the running sum ambiguous between combinations")
    if not vals_ok:
        return
    val = dict(mp)
    t = R.col("sum")
    if T.has_opaque(t) or t[0] != "agg":
        chk.ob(rule, "reported time is an aggregate of the sweep's durations", None if T.has_opaque(t) else False, where, found=T.show(t)[:300])
        return
    _, fname, X, ctx, keys = t
    base, rows, order = ctx
    ctx0 = (base, T.TRUE, order)
    # 3 sort key / time and status columns
    okord = isinstance(order, tuple) and order and order[0] == "sort" and len(order[1]) == 1 and order[2] is True
    chk.ob(rule, "sweep rows sorted by one key, ascending", okord, where, found=T.show_order(order)[:200], accepted="sort_values(by='time') ascending")
    if not okord:
        return
    TIME = order[1][0]
    tl = [x for x in leaves(TIME) if x[0] != "coldata"]
    exp_time, exp_status = [], []
    for ty, c in zip(types, hook.calls):
        M = c["frame"]
        mb = ("melt", M.ctx(), (), (("ts", M.col("ts")), ("end", M.col("end"))), "status", "time")
        mpt = ("dict", tuple(sorted(((T.C("ts"), T.C(val[ty])), (T.C("end"), T.C(-val[ty]))), key=repr)))
        exp_time.append(("replace", mpt, ("meltval", mb)))
        exp_status.append(("replace", mpt, ("meltvar", mb)))
    template = bool(tl) and all(isinstance(x, tuple) and x and x[0] == "replace" for x in tl)          # the +-marker sweep built by melt + replace; another construction of the boundaries is not understood (not wrong)

    def piece(x):
        """a piece of a boundary column in canonical form: replace(map, 'ts') -> the mapped marker, replace(map, <time term>) -> the time term (times are numbers: a map
        keyed by column names leaves them alone), coldata(X) (a column given as positional data / a broadcast scalar) -> X"""
        while isinstance(x, tuple) and x:
            if x[0] == "coldata" and len(x) == 2:
                x = x[1]
            elif x[0] == "replace" and len(x) == 3 and x[1][0] == "dict" and all(T.is_const(k_) and isinstance(k_[1], str) for k_, _v in x[1][1]):
                inner = x[2]
                if T.is_const(inner):
                    x = dict((k_[1], v_) for k_, v_ in x[1][1]).get(inner[1], inner)
                    break
                x = inner
            else:
                break
        return x
    status_terms = T.find(rows, lambda s_: s_[0] == "win" and s_[1] == "cumsum")
    pairs_ok = None
    if not template and status_terms:
        tp = [piece(x) for x in leaves(TIME, melt=True)]
        sp = [piece(x) for x in leaves(status_terms[0][3], melt=True)]
        keep = [i_ for i_, x in enumerate(tp) if not (isinstance(x, tuple) and x and x[0] == "series")] if len(tp) == len(sp) else []
        got_pairs = sorted(((tp[i_], sp[i_]) for i_ in keep), key=repr)
        want_pairs = sorted([(c_["frame"].col("ts"), T.C(val[ty_])) for ty_, c_ in zip(types, hook.calls)] + [(c_["frame"].col("end"), T.C(-val[ty_])) for ty_, c_ in zip(types, hook.calls)], key=repr)
        if got_pairs and all(T.is_const(b_) for _a, b_ in got_pairs):
            pairs_ok = got_pairs == want_pairs
            chk.ob(rule, "sweep boundaries (built without melt): +v at the start and -v at the end of every merged interval of every operand, each exactly once", pairs_ok, where,
                   found=[(T.show(a_)[:50], T.show(b_)) for a_, b_ in got_pairs], accepted=[(T.show(a_)[:50], T.show(b_)) for a_, b_ in want_pairs],
                   why="markers {start:+v, end:-v} with the type's own v; a missing or duplicated operand or a swapped sign breaks the running state")
    if template or pairs_ok is None:
      chk.ob(rule, "sort key = the time column: start and end of every merged operand, each exactly once", (sorted(tl, key=repr) == sorted(exp_time, key=repr)) if template else None, where,
           found=[T.show(x)[:160] for x in tl], accepted=[T.show(x)[:160] for x in exp_time],
           why="markers {ts:+v, end:-v} with the type's own v; a missing or duplicated operand or a swapped sign breaks the running state")
    STATUS_l = None
    run_terms = T.find(rows, lambda s: s[0] == "win" and s[1] == "cumsum")
    if len(run_terms) >= 1:
        RUN = run_terms[0]
        sl = [x for x in leaves(RUN[3]) if x[0] != "coldata"]
        chk.ob(rule, "running = cumsum of the marker column over the time-sorted rows", (RUN[4] == ctx0 and sorted(sl, key=repr) == sorted(exp_status, key=repr)) if template else ((RUN[4] == ctx0) if pairs_ok else None), where,
               found=[T.show(x)[:120] for x in sl] + [T._ctx(RUN[4])[:80]], accepted="cumsum(status) in time order")
        check_term(chk, rule, "rows kept iff running > 0 (some analysed kernel is running)", where, rows, [T.cmp(">", RUN, T.C(0))],
                   "running >= 0 adds idle gaps to a label; running > v drops single-type time")
        nxt = T.win("shift", (-1,), TIME, ctx0)
        d = T.sub(nxt, TIME)
        acc = [d, ("astype", ("ext", "builtins.int"), d), ("astype", T.C("int"), d)]
        check_term(chk, rule, "segment duration = next_time - time with next_time = shift(-1)(time) in the same order", where, X, acc,
                   "shift(+1) measures the previous segment under the current running state")
        chk.ob(rule, "reported time = SUM of segment durations per label", fname == "sum", where, found=fname, accepted="sum")
        # label
        ok_key = len(keys) == 1 and keys[0][0] == "ite"
        if ok_key:
            lab = keys[0]
            u = ("each", ("elem", ("unique", RUN, ctx0)))
            chk.ob(rule, "label assigned to the rows whose running value equals the labelled value", lab[1] in (T.cmp("==", RUN, u), T.cmp("==", RUN, u[1])), where,
                   found=T.show(lab[1])[:200], accepted="running == u")
            full = " overlapping ".join(types)
            chk.ob(rule, "label of a running value = the types whose bit is set, joined in analysis order", lab[2] == T.C(full), where, found=T.show(lab[2])[:200], accepted=full)
        else:
            chk.ob(rule, "grouped by one label column built from running", None, where, found=T.show(keys)[:200])
        # bit tests
        el = ("elem", ("unique", RUN, ctx0))
        need = [T.cmp(">", el, T.C(0))] + [("truthy", ("bitand",) + tuple(sorted((T.C(val[ty]), el), key=repr))) for ty in types]
        missing = [T.show(n)[:120] for n in need if n not in seen]
        extra = [T.show(s)[:160] for s in seen if s not in need and T.not_(s) not in need and not (s[0] == "not" and s[1][0] == "in")
                 and s[0] != "in"]
        chk.ob(rule, "label loop: a running value u > 0 gets type k iff u & bit_k", (not missing and not extra) if (ok_key or (not missing and not extra)) else None, where,          # (with the label column itself not understood, decisions that are absent from ITS construction prove nothing)
               found={"decisions": [T.show(s)[:120] for s in seen]}, accepted=[T.show(n)[:120] for n in need],
               why="u == bit_k labels only single-type states; a missing u > 0 guard labels idle time")
    else:
        chk.ob(rule, "kept rows depend on a cumulative sum of the markers", False if not T.has_opaque(rows) else None, where, found=T.show(rows)[:300], accepted="running > 0")
    chk.floor(rule, 10)


# ------------------------------------------------------------------------------------------ R2 aggregator
def _aggr(db, chk, m, cls, G):
    rule = "C05.R2-aggregator-provenance"
    ref = f"{BA}:BreakdownAnalysis._aggr_gpu_kernel_time"
    fn = m.func("BreakdownAnalysis._aggr_gpu_kernel_time")
    where = m.loc(fn)
    NK = T.P("num_kernels")
    for allow in (None, T.P("allowlist_names")):
        tag = "no allow-list" if allow is None else "with allow-list"
        I = Interp(db)
        runs = I.explore(ref, lambda I: {"cls": Obj("cls", cls=cls), "gpu_kernel_time": Frame(G), "num_kernels": NK, "duration_ratio": T.P("duration_ratio"),
                                         "allowlist_names": allow})
        runs = [r for r in runs if r.raised is None]
        chk.analysed_add("functions", ref)
        if not runs or len(runs) > 4:
            chk.ob(rule, f"paths of _aggr_gpu_kernel_time ({tag})", None, where, found=len(runs))
            continue
        DUR, NAME = T.col(G, "dur"), T.col(G, "name")
        Gctx = (G, T.TRUE, None)
        base_sum = T.agg("sum", DUR, Gctx, (NAME,))
        for r in runs:
            R = r.ret
            pc = T.show(r.cond())[:120]
            if not isinstance(R, Frame):
                chk.ob(rule, f"[{tag}] path {pc}: returns a frame", None, where, found=repr(R)[:100])
                continue
            nm = R.col("name")
            label = nm[1] if nm[0] == "key" and len(nm) == 2 else None
            if label is None:
                chk.ob(rule, f"[{tag}] path {pc}: rows are keyed by a name label", None if T.has_opaque(nm) else False, where, found=T.show(nm)[:200], accepted="group key over the kernels' names")
                continue
            keeps = label == NAME or (label[0] == "ite" and label[2] == NAME and label[3] == T.C("others"))
            chk.ob(rule, f"[{tag}] path {pc}: a row keeps its own kernel name or becomes 'others'", keeps, where, found=T.show(label)[:200], accepted="name | ite(kept, name, 'others')")
            for st in STATS:
                got = R.col(st)
                exp = T.agg(st, DUR, Gctx, (label,))
                acc = [exp, ("fillna", exp, T.C(0))] if st == "std" else [exp]
                check_term(chk, rule, f"[{tag}] path {pc}: column {st} = {st} of the kernels' dur, grouped by the final label", where, got, acc,
                           "statistics re-aggregated from per-name sums report max = min = mean = sum (F3); 'others' must aggregate the relabelled kernels themselves so totals are conserved")
            if label != NAME:
                # cut rule on the relabelled, sum-sorted frame
                vo = T.find(label, lambda s: s[0] == "valuesof")
                if len(vo) != 1:
                    chk.ob(rule, f"[{tag}] kept names are read from the relabelled summary frame", None, where, found=T.show(label[1])[:300])
                    continue
                relabel, sctx = vo[0][1], vo[0][2]
                # two spellings of the same decision: (1) the summary's name column is overwritten with 'others' and the kept names are what is left in it;
                # (2) the rows that keep their name are SELECTED from the summary (row predicate) and their names collected
                kept_pred = None
                if relabel in (NAME, ("key", NAME)) and isinstance(sctx, tuple) and len(sctx) == 3 and sctx[1] != T.TRUE:
                    kept_pred = sctx[1]
                    sctx = (sctx[0], T.TRUE, sctx[2])
                exp_order = [("sort", (base_sum,), False, k, None) for k in ("quicksort", "stable", "mergesort", "heapsort")]
                chk.ob(rule, f"[{tag}] summary sorted by sum descending before the positional cut", sctx[2] in exp_order and sctx[1] == T.TRUE, where,
                       found=T.show_order(sctx[2])[:200], accepted="sort_values(by=['sum'], ascending=False)")
                idx = ("range", sctx)
                a_cut = T.cmp(">=", idx, NK)
                csum = T.win("cumsum", (), base_sum, sctx)
                a_q = T.cmp(">", csum, T.agg("quantile", csum, sctx, (T.P("duration_ratio"),)))
                a_keep = T.cmp("<", base_sum, T.C(0)) if allow is None else ("in", T.col(("gb", Gctx, (NAME,)), "name") if False else None, None)
                atoms = T.bool_atoms(relabel if kept_pred is None else kept_pred)
                from .c06 import _table
                at = {"cut": (a_cut, T.cmp("<", idx, NK)), "q": (a_q, T.not_(a_q) if T.not_(a_q)[0] != "not" else None)}
                keep_atoms = [a for a in atoms if a not in (a_cut, a_q, T.cmp("<", idx, NK), T.not_(a_q))]
                always_false, always_true = T.cmp("<", base_sum, T.C(0)), T.cmp(">=", base_sum, T.C(0))
                unknown = [a for a in keep_atoms if not (a[0] == "in" or a in (always_false, always_true))]
                chk.ob(rule, f"[{tag}] cut atoms: fresh 0..n position >= num_kernels, cumulative sum > quantile(duration_ratio)", a_cut in atoms or T.cmp("<", idx, NK) in atoms, where,
                       found=[T.show(a)[:160] for a in atoms], accepted=[T.show(a_cut), T.show(a_q)],
                       why="the positional cut needs ignore_index=True on the sum-sorted frame; '>' instead of '>=' keeps num_kernels+1 named rows")
                if not unknown and len(keep_atoms) <= 2 and (a_cut in atoms or T.cmp("<", idx, NK) in atoms):
                    if keep_atoms:
                        ka = keep_atoms[0]
                        if ka in (always_false, always_true):
                            at["keep"] = (always_false, always_true)
                        else:
                            at["keep"] = (ka, None)
                    names, rows = _table(relabel if kept_pred is None else kept_pred, at)
                    for vals, res in rows.items():
                        v = dict(zip(names, vals))
                        # 'keep' for the no-allow-list path is the always-false (sum < 0): only its False rows are realisable
                        if allow is None and v.get("keep") is True:
                            continue
                        others = (not v.get("keep", False)) and (v["cut"] or v["q"])
                        if kept_pred is not None:
                            okrow = res == (T.FALSE if others else T.TRUE)
                        else:
                            want = T.C("others") if others else ("key", NAME)
                            okrow = res == want or (not others and res in (NAME, ("key", NAME)))
                        chk.ob(rule, f"[{tag}] relabel table {v}", okrow, where, found=T.show(res)[:120],
                               accepted="'others'" if others else "own name", why="others iff not allow-listed and (position >= num_kernels or beyond the duration quantile)")
                guard = T.cmp(">", ("nrows", sctx), NK)
                guard2 = T.cmp(">=", ("nrows", sctx), T.add(NK, T.C(1)))
                chk.ob(rule, f"[{tag}] aggregation into 'others' happens whenever there are more names than num_kernels", guard in r.path or guard2 in r.path, where,
                       found=[T.show(p)[:160] for p in r.path], accepted=T.show(guard), why="a weaker guard (> num_kernels + 1) reports num_kernels + 1 named rows")
    chk.floor(rule, 20)


# ------------------------------------------------------------------------------------------ R3 outer
def _outer(db, chk, m, cls):
    rule = "C05.R3-types-and-binding"
    ref = f"{BA}:BreakdownAnalysis.get_gpu_kernel_breakdown"
    f3 = m.func("BreakdownAnalysis.get_gpu_kernel_breakdown")
    where = m.loc(f3)
    TR = ("param", "TR")
    for mem in (False, True):
        calls = {"type_time": [], "aggr": []}

        def hook(I, name, pos, kw, node):
            if name.endswith("_get_gpu_kernel_type_time"):
                calls["type_time"].append((pos, kw, node))
                f = Frame(("typetime", len(calls["type_time"])), known=["kernel_type", "sum"])
                return f
            if name.endswith("_aggr_gpu_kernel_time"):
                calls["aggr"].append((pos, kw, node))
                return Frame(("aggr", len(calls["aggr"])), known=["name", "sum", "max", "min", "mean", "std"])
            return NotImplemented

        I = Interp(db, call_hook=hook)
        runs = I.explore(ref, lambda I: {"cls": Obj("cls", cls=cls), "visualize": False, "include_memory_kernels": mem,
                                         "duration_ratio": T.P("duration_ratio"), "num_kernels": T.P("num_kernels"),
                                         "t": Obj("t", attrs={"traces": {T.P("RANK"): Frame(TR)}, "symbol_table": Obj("symtab")})})
        runs = [r for r in runs if r.raised is None]
        if len(runs) != 1:
            chk.ob(rule, f"get_gpu_kernel_breakdown(include_memory_kernels={mem}): one path", None, where, found=len(runs))
            continue
        r = runs[0]
        want = ["COMPUTATION", "COMMUNICATION"] + (["MEMORY"] if mem else [])
        tl = next((v for v in r.env.values() if isinstance(v, list) and v and all(isinstance(x, str) and x in ("COMPUTATION", "COMMUNICATION", "MEMORY", "OTHER") for x in v)), None)
        chk.ob(rule, f"types analysed (include_memory_kernels={mem})", None if tl is None else tl == want, where, found=tl, accepted=want)
        if len(calls["type_time"]) == 1:
            pos, kw, node = calls["type_time"][0]
            gk = pos[0] if pos else kw.get("gpu_kernels")
            SYM = ("call", "obj('symtab').get_sym_table")
            kt = KT.kernel_type_term(db, ("getitem", SYM, T.col(TR, "name")))
            okk = isinstance(gk, Frame) and gk.col("kernel_type") == kt
            chk.ob(rule, f"[mem={mem}] kernel_type column = get_kernel_type of the decoded name", okk, m.loc(node), found=T.show(gk.col("kernel_type"))[:200] if isinstance(gk, Frame) else None,
                   accepted=T.show(kt)[:200])
            try:
                tt = {sv: bool(T.evaluate(gk.rows, lambda leaf, sv=sv: sv if leaf == T.col(TR, "stream") else (_ for _ in ()).throw(T.Unknown(leaf)))) for sv in (-1, 0, 1, 7)}
                chk.ob(rule, f"[mem={mem}] rows analysed = device rows: every stream except -1 (truth table incl. stream 0)", tt == {-1: False, 0: True, 1: True, 7: True}, m.loc(node), found=tt, accepted={-1: False, 0: True, 1: True, 7: True})
            except T.Unknown:
                chk.ob(rule, f"[mem={mem}] device-row predicate reads only the stream column", False, m.loc(node), found=T.show(gk.rows)[:200], accepted="stream != -1")
            chk.ob(rule, f"[mem={mem}] type list passed to the sweep is the analysed list", (pos[1] if len(pos) > 1 else kw.get("kernel_type_to_analysis")) == want, m.loc(node),
                   found=pos[1] if len(pos) > 1 else None, accepted=want)
        else:
            chk.ob(rule, f"[mem={mem}] one sweep per rank", None, where, found=len(calls["type_time"]))
        chk.ob(rule, f"[mem={mem}] one per-kernel aggregation per analysed type", len(calls["aggr"]) == len(want), where, found=len(calls["aggr"]), accepted=len(want))
        for ty, (pos, kw, node) in zip(want, calls["aggr"]):
            b = dict(zip(["gpu_kernel_time", "num_kernels", "duration_ratio", "allowlist_names"], pos))
            b.update(kw)
            fr = b.get("gpu_kernel_time")
            okrows = isinstance(fr, Frame) and fr.base == TR and T.cmp("==", fr.col("kernel_type"), T.C(ty)) in (fr.rows[1] if fr.rows[0] == "and" else (fr.rows,))
            okname = isinstance(fr, Frame) and fr.col("name") == ("getitem", ("call", "obj('symtab').get_sym_table"), T.col(TR, "name")) and fr.col("dur") == T.col(TR, "dur")
            if okrows:
                # ... ALL device rows of that type: what is left of the selection besides the type test reads the stream alone (no test on dur / name / ...)
                rest_ = [c_ for c_ in (fr.rows[1] if fr.rows[0] == "and" else (fr.rows,)) if c_ != T.cmp("==", fr.col("kernel_type"), T.C(ty))]
                try:
                    tt_ = {sv: bool(T.evaluate(T.and_(*rest_), lambda leaf, sv=sv: sv if leaf == T.col(TR, "stream") else (_ for _ in ()).throw(T.Unknown(leaf)))) for sv in (-1, 0, 7)}
                    okall = tt_ == {-1: False, 0: True, 7: True}
                except T.Unknown as u_:
                    tt_, okall = {"also reads": T.show(u_.args[0])[:80]}, False
                chk.ob(rule, f"[mem={mem}] per-kernel table of {ty}: EVERY device kernel of the type enters the statistics (no further row condition)", okall, m.loc(node), found=tt_,
                       accepted="device rows & kernel_type == type", why="dropping e.g. zero-duration instances leaves the sums alone but changes min / mean of a name and removes names whose instances all took 0 us")
            chk.ob(rule, f"[mem={mem}] per-kernel table of {ty}: rows of that type, decoded names, own durations", okrows and okname, m.loc(node),
                   found=[T.show(fr.rows)[:160], T.show(fr.col("name"))[:120]] if isinstance(fr, Frame) else None, accepted=f"kernel_type == {ty}")
            chk.ob(rule, f"[mem={mem}] {ty}: num_kernels / duration_ratio bound to the like-named parameters",
                   to_term(b.get("num_kernels")) == T.P("num_kernels") and to_term(b.get("duration_ratio")) == T.P("duration_ratio"), m.loc(node),
                   found={k: T.show(to_term(v))[:60] for k, v in b.items() if k != "gpu_kernel_time"}, accepted="num_kernels=num_kernels, duration_ratio=duration_ratio")
        # per-kernel table: the aggregator's statistics reach the caller unchanged (only renamed)
        ret = r.ret
        if isinstance(ret, PyTuple) and len(ret.items) == 2 and isinstance(ret.items[1], Frame):
            AK = ret.items[1]
            for src, dst in (("sum", "sum (us)"), ("max", "max (us)"), ("min", "min (us)"), ("mean", "mean (us)"), ("std", "stddev")):
                lv = [x for x in leaves(AK.col(dst)) if x[0] != "coldata"]
                want_l = [T.col(("aggr", i + 1), src) for i in range(len(want))]
                chk.ob(rule, f"[mem={mem}] per-kernel column {dst!r} = the aggregator's {src!r}, unchanged", None if T.has_opaque(AK.col(dst)) else sorted(lv, key=repr) == sorted(want_l, key=repr), where,
                       found=[T.show(x)[:80] for x in lv], accepted=[T.show(x) for x in want_l], why="a cast of the table to integer dtypes truncates the mean; any wrapper changes the reported statistic")
        else:
            chk.ob(rule, f"[mem={mem}] the per-kernel table returned is a frame the evaluator can read", None, where, found=type(ret).__name__)
        # type table aggregation and percentage
        if isinstance(ret, PyTuple) and isinstance(ret.items[0], Frame):
            KTD = ret.items[0]
            s = KTD.col("sum")
            okagg = s[0] == "agg" and s[1] == "sum"
            chk.ob(rule, f"[mem={mem}] per-combination time summed over ranks (sum of sums)", okagg, where, found=T.show(s)[:200], accepted="sum by kernel_type")
            pct = KTD.col("percentage")
            tot = T.agg("sum", s, KTD.ctx())
            base = T.mul(T.C(100), T.div(s, tot))
            accp = [base, ("round", base, T.C(1))]
            got = pct
            if got[0] == "round":
                got = got[1]
            check_term(chk, rule, f"[mem={mem}] percentage = sum / total * 100", where, got, [base])
        else:
            chk.ob(rule, f"[mem={mem}] the kernel-type table returned is a frame the evaluator can read (per-combination time summed over ranks)", None, where,
                   found=type(ret.items[0]).__name__ if isinstance(ret, PyTuple) and ret.items else type(ret).__name__, accepted="(kernel_type_df, all_kernel_df)")
    # two ranks: every rank contributes its own sweep and its own per-kernel tables (nothing is done once after the loop with the last rank's rows)
    TR0, TR1 = ("param", "TR", T.P("RANK0")), ("param", "TR", T.P("RANK1"))
    calls2 = {"type_time": [], "aggr": []}

    def hook2(I, name, pos, kw, node):
        if name.endswith("_get_gpu_kernel_type_time"):
            calls2["type_time"].append(pos[0] if pos else kw.get("gpu_kernels"))
            return Frame(("typetime", len(calls2["type_time"])), known=["kernel_type", "sum"])
        if name.endswith("_aggr_gpu_kernel_time"):
            calls2["aggr"].append(pos[0] if pos else kw.get("gpu_kernel_time"))
            return Frame(("aggr", len(calls2["aggr"])), known=["name", "sum", "max", "min", "mean", "std"])
        return NotImplemented
    I = Interp(db, call_hook=hook2)
    runs = [r for r in I.explore(ref, lambda I: {"cls": Obj("cls", cls=cls), "visualize": False, "include_memory_kernels": False, "duration_ratio": T.P("duration_ratio"), "num_kernels": T.P("num_kernels"),
                                                 "t": Obj("t", attrs={"traces": {T.P("RANK0"): Frame(TR0), T.P("RANK1"): Frame(TR1)}, "symbol_table": Obj("symtab")})}) if r.raised is None]
    if len(runs) != 1:
        chk.ob(rule, "two ranks: one path", None, where, found=len(runs))
    else:
        bases_tt = [f.base for f in calls2["type_time"] if isinstance(f, Frame)]
        bases_ag = [f.base for f in calls2["aggr"] if isinstance(f, Frame)]
        chk.ob(rule, "two ranks: the kernel-type sweep runs once per rank, on that rank's device rows", bases_tt == [TR0, TR1], where, found=[T.show(b) for b in bases_tt], accepted=[T.show(TR0), T.show(TR1)],
               why="a sweep placed after the rank loop sees only the last rank's kernels: the kernel-type table of a multi-rank job is that of one rank")
        chk.ob(rule, "two ranks: the per-kernel aggregation runs for every (rank, type)", bases_ag == [TR0, TR0, TR1, TR1], where, found=[T.show(b) for b in bases_ag], accepted=[T.show(x) for x in (TR0, TR0, TR1, TR1)])
    sm = H.shared_state_mutations(m, f3)
    chk.ob(rule, "the analysed type list is built afresh on every call (no mutation of a class- or module-level container)", not sm, where, found=sm, accepted="a list literal local to the call",
           why="appending MEMORY to a shared default list makes every LATER call analyse memory kernels too")
    chk.floor(rule, 14)
    ta = db.mod("hta.trace_analysis")
    fac = ta.func("TraceAnalysis.get_gpu_kernel_breakdown")
    cs = [c for c in H.calls(fac) if isinstance(c.func, ast.Attribute) and c.func.attr == "get_gpu_kernel_breakdown"]
    for _p, _src, _v in H.rebinds_of_params(fac, ["visualize", "duration_ratio", "num_kernels", "include_memory_kernels", "image_renderer"]):
        chk.ob("C05.R-facade-integrity", f"facade forwards parameter {_p} unmodified", _v == "default-if-none", ta.loc(fac), found=_src, accepted="no re-binding, or `if p is None: p = <default>`",
               why="`p = p or default` replaces legitimate falsy values (a threshold of 0, an empty selection) by the default")
    if len(cs) != 1:
        # the delegation is not one plain call (partial, map, a helper ...): decided by evaluating the wrapper with the analyzer hooked
        from ..specs.discipline import check_facade_binding
        check_facade_binding(db, chk, "C05.R3-facade", "TraceAnalysis.get_gpu_kernel_breakdown", BA, "BreakdownAnalysis.get_gpu_kernel_breakdown",
                             returns=lambda I: PyTuple([Frame(("ktd", I.new_id())), Frame(("akd", I.new_id()))]))
        return
    bnd = H.bind_call(f3, cs[0])

    for pn in ("visualize", "duration_ratio", "num_kernels", "include_memory_kernels", "image_renderer"):
        chk.ob("C05.R3-facade", f"facade argument -> parameter {pn}", H.name_id(bnd.get(pn)) == pn, ta.loc(cs[0]), found=ast.unparse(bnd[pn]) if pn in bnd else None, accepted=pn,
               why="the wrapper passes positionally: a swapped position feeds num_kernels as duration_ratio")


# ------------------------------------------------------------------------------------------ thorough tier: the template itself
BIT_SWEEP_SPEC = '''
import pandas as pd

def bit_sweep(merged, values, order):
    """the template C05.R1 holds the code against, slot by slot: +v at the start / -v at the end of every merged interval of every type, rows in time order
    (ties in the order given by `order`, a permutation of the boundary rows - an unstable sort may produce any of them), running = cumsum of the markers,
    rows with running > 0 kept, duration = next time - time, time summed per set of bits."""
    pieces = []
    for ty, fam in merged.items():
        pieces.append(pd.DataFrame({"status": [values[ty]] * len(fam), "time": [a for a, _ in fam]}))
        pieces.append(pd.DataFrame({"status": [-values[ty]] * len(fam), "time": [b for _, b in fam]}))
    df = pd.concat(pieces, ignore_index=True)
    df = df.iloc[list(order)].sort_values("time", kind="stable").reset_index(drop=True)
    df["running"] = df["status"].cumsum()
    df["next_time"] = df["time"].shift(-1)
    df = df[df["running"] > 0].copy()
    df["dur"] = df["next_time"] - df["time"]
    out = {}
    for u, d in zip(df["running"], df["dur"]):
        key = frozenset(ty for ty, v in values.items() if int(u) & v)
        out[key] = out.get(key, 0) + d
    return {k: v for k, v in out.items() if v}
'''


def thorough(db, chk) -> None:
    """Validate the REFERENCE bit sweep (BIT_SWEEP_SPEC, the checker's own pandas source - not repository code) under the installed pandas against a brute-force
    oracle: for every triple of small merged-interval families (one per kernel type; empty, touching and zero-length intervals included) and several tie orders
    of the boundary rows, the time reported for a set of types equals the number of unit cells covered by exactly those types."""
    import itertools
    import random
    ns: dict = {}
    exec(compile(BIT_SWEEP_SPEC, "<C05 reference bit sweep>", "exec"), ns)
    pts = range(0, 4)
    ivs = [(a, b) for a in pts for b in pts if a <= b]
    fams = [()] + [(i,) for i in ivs] + [(i, j) for i in ivs for j in ivs if i[1] <= j[0] and i != j and (i[1] < j[0] or i[0] == i[1] or j[0] == j[1])]   # merged: disjoint, not touching unless of zero length
    types = ["COMPUTATION", "COMMUNICATION", "MEMORY"]
    values = {ty: 1 << i for i, ty in enumerate(types)}
    rng = random.Random(chk.seed or 0)
    cells = lambda fam: {x for a, b in fam for x in range(a, b)}
    n = bad = 0
    first = None
    triples = list(itertools.product(fams, repeat=3))
    if len(triples) > 6000:
        triples = rng.sample(triples, 6000)
    for tri in triples:
        if not any(tri):
            continue
        cs = [cells(f_) for f_ in tri]
        want = {}
        for x in set().union(*cs):
            key = frozenset(ty for ty, c_ in zip(types, cs) if x in c_)
            want[key] = want.get(key, 0) + 1
        nrows = 2 * sum(len(f_) for f_ in tri)
        orders = [list(range(nrows)), list(reversed(range(nrows)))]
        p = list(range(nrows)); rng.shuffle(p); orders.append(p)
        for od in orders:
            got = ns["bit_sweep"](dict(zip(types, tri)), values, od)
            n += 1
            if {k: float(v) for k, v in got.items()} != {k: float(v) for k, v in want.items()}:
                bad += 1
                first = first or (tri, od, {"+".join(sorted(k)): float(v) for k, v in got.items()}, {"+".join(sorted(k)): v for k, v in want.items()})
    chk.ob("C05.T1-reference-validated", f"reference bit sweep == brute-force exclusive-combination measure on all {n} (family triple, tie order) cases (endpoints 0..3, <= 2 merged intervals per type, empty and zero-length families included)",
           bad == 0, "sa/props/c05.py:BIT_SWEEP_SPEC", found=f"{bad} disagreeing" + (f", first {first}" if first else ""), accepted="0 disagreeing",
           why="the template the code is compared with must itself compute the partition of busy time, whatever order simultaneous boundaries are swept in")
    # the same oracle rejects the neighbouring templates (the validation can tell them apart)
    wrong = 0
    for variant, edit in (("running >= 0", lambda s: s.replace('df["running"] > 0', 'df["running"] >= 0')), ("shift(+1)", lambda s: s.replace("shift(-1)", "shift(1)")),
                          ("un-merged operand", None)):
        ns2: dict = {}
        if edit is not None:
            exec(compile(edit(BIT_SWEEP_SPEC), "<variant>", "exec"), ns2)
            tri = (((0, 1), (2, 3)), ((1, 3),), ())
        else:
            ns2 = ns
            tri = (((0, 2), (1, 3)), ((1, 2),), ())          # overlapping intervals of one type handed over un-merged
        cs = [cells(f_) for f_ in tri]
        want = {}
        for x in set().union(*cs):
            key = frozenset(ty for ty, c_ in zip(types, cs) if x in c_)
            want[key] = want.get(key, 0) + 1
        try:
            got = ns2["bit_sweep"](dict(zip(types, tri)), values, list(range(2 * sum(len(f_) for f_ in tri))))
            differs = {k: float(v) for k, v in got.items()} != {k: float(v) for k, v in want.items()}
        except Exception:
            differs = True
        wrong += bool(differs)
    chk.ob("C05.T1-reference-validated", "the oracle tells the neighbouring templates apart (running >= 0, shift(+1), un-merged operand)", wrong == 3, "sa/props/c05.py:BIT_SWEEP_SPEC", found=f"{wrong} of 3 rejected", accepted="3 of 3")
    chk.analysed_add("template_cases", f"bit_sweep:{n}")
