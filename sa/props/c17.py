"""C17 - trace diff counts and durations are exact; change classes partition the names (structural clauses)."""
from __future__ import annotations

import ast
import itertools

from ..core import terms as T
from ..core import asthelp as H
from ..core.interp import Interp, assume
from ..core.progdb import AnalysisError, walk_no_nested, lit
from ..core.values import Frame, Obj, PyTuple, Ser, to_term
from ..specs.merge import check_term

EXPLANATION = (
    "Symbolic evaluation of LabeledTrace.extract_ops / get_ops_summary and TraceDiff.compare_traces / ops_diff. Decides: the event selection is "
    "iteration isin(requested) and the device predicate (CPU: stream == -1, GPU: stream != -1, ALL: none) on the requested rank's frame; the summary is "
    "count and sum of dur grouped by (cat, name), renamed counts / total_duration and decoded through the symbol table; the comparison regroups by the chosen "
    "name column with sum, concatenates control and test column-wise with an outer join, fills 0, and takes test - control for counts and durations, with "
    "each trace's own rank / iteration arguments; the five class masks, evaluated on every consistent (control, test) sign pattern, are pairwise disjoint "
    "and exhaustive and identical inputs fall into 'unchanged' only."
    " Later additions: signed full-width summary columns, numeric default selection order, effect rules."
)
TD = "hta.trace_diff"
SUMCOLS = ["cat", "name", "short_name", "counts", "total_duration", "cat_id", "name_id"]


def _no_shared_results(db, chk, m, rule="C17.R7-results-not-shared"):
    """two cooperating sites: (a) a method that hands out an object it keeps in a container on self (a memo) and (b) a consumer that modifies the result in place.
    Either alone is harmless; together the second comparison on the same object sees what the first one did to the memoised frame."""
    memo_methods = {}
    for q, f in m.functions.items():
        if "." not in q or m.enclosing_function(f) is not None:
            continue
        cls = q.split(".")[0]
        kept = {t.value.attr for cq, g in m.functions.items() if cq.startswith(cls + ".") for n in ast.walk(g) if isinstance(n, (ast.Assign, ast.AugAssign))
                for t in (n.targets if isinstance(n, ast.Assign) else [n.target]) if isinstance(t, ast.Subscript) and H.is_self_attr(t.value)}
        if not kept:
            continue
        loc = {t.id: v for t, v, s_ in H.assignments(f, nested=False) if isinstance(t, ast.Name)}
        for r in [n for n in walk_no_nested(f) if isinstance(n, ast.Return) and n.value is not None]:
            v = loc.get(r.value.id, r.value) if isinstance(r.value, ast.Name) else r.value
            src = v.value if isinstance(v, ast.Subscript) else (v.func.value if isinstance(v, ast.Call) and isinstance(v.func, ast.Attribute) and v.func.attr in ("get", "setdefault") else None)
            if src is not None and H.is_self_attr(src) and src.attr in kept:
                memo_methods[q.split(".")[-1]] = f"{q} returns self.{src.attr}[...] itself"
    mutated = []
    for q, f in m.functions.items():
        binds = {t.id: v.func.attr for t, v, s_ in H.assignments(f, nested=False) if isinstance(t, ast.Name) and isinstance(v, ast.Call) and isinstance(v.func, ast.Attribute) and v.func.attr in memo_methods}
        for n in walk_no_nested(f):
            tg = (n.targets if isinstance(n, ast.Assign) else [n.target]) if isinstance(n, (ast.Assign, ast.AugAssign)) else []
            for t in tg:
                if isinstance(t, ast.Subscript) and isinstance(t.value, ast.Name) and t.value.id in binds:
                    mutated.append(f"{q}: {ast.unparse(n)[:70]}  (the result of .{binds[t.value.id]}())")
            if isinstance(n, ast.Call) and isinstance(n.func, ast.Attribute) and isinstance(n.func.value, ast.Name) and n.func.value.id in binds and any(k.arg == "inplace" and lit(k.value) is True for k in n.keywords):
                mutated.append(f"{q}: {ast.unparse(n)[:70]}  (the result of .{binds[n.func.value.id]}())")
    chk.ob(rule, "no memoised result is modified in place by its consumer (a method handing out the object it keeps on self + a caller that stores into it)", not (memo_methods and mutated), TD,
           found={"memo": sorted(memo_methods.values()), "modified in place": mutated} if (memo_methods and mutated) else f"{len(memo_methods)} memo-returning method(s), {len(mutated)} in-place consumer(s) of them", accepted="a copy handed out, or no in-place modification",
           why="after one short-name comparison the memoised summary carries the short names for good: every later long-name comparison of the same selection merges name variants and reports phantom additions / deletions", nontrivial=False)


def run(db, chk) -> None:
    from ..specs.discipline import check_shared_trace_untouched
    check_shared_trace_untouched(db, chk, "C17.R-shared-trace")
    from ..specs.discipline import check_stateless
    check_stateless(db, chk, "C17.R-stateless", ['hta.trace_diff'])      # the result is a function of the arguments: no state kept between calls, caller's Trace untouched
    chk.floor("C17.R-stateless", 4)
    m = db.mod(TD)
    _no_shared_results(db, chk, m)
    _summary(db, chk, m)
    _extract(db, chk, m)
    _defaults(db, chk, m)
    _compare(db, chk, m)
    _classes(db, chk, m)
    _full_trace(db, chk, m)
    _short_names(db, chk)


def _summary(db, chk, m):
    rule = "C17.R1-summary-terms"
    ref = f"{TD}:LabeledTrace.get_ops_summary"
    fn = m.func("LabeledTrace.get_ops_summary")
    where = m.loc(fn)
    OPS = ("param", "OPS")
    I = Interp(db)
    runs = [r for r in I.explore(ref, lambda I: {"self": Obj("self", attrs={"s_tab": T.P("STAB")}), "ops": Frame(OPS)}) if r.raised is None]
    chk.analysed_add("functions", ref)
    if len(runs) != 1 or not isinstance(runs[0].ret, Frame):
        chk.ob(rule, "get_ops_summary: one path returning a frame", None, where, found=len(runs))
        return
    R = runs[0].ret
    ctx = (OPS, T.TRUE, None)
    keys = (T.col(OPS, "cat"), T.col(OPS, "name"))
    gb = [e for e in runs[0].events if e["kind"] == "groupby-agg"]
    fns = sorted(str(t[1]) for e in gb for t in e["cols"].values() if isinstance(t, tuple) and t and t[0] == "agg")          # read off the aggregate terms, whatever the spelling of the call
    chk.ob(rule, "events are aggregated per (cat, name) with exactly count and sum of dur", len(gb) == 1 and gb[0]["keys"] == ["cat", "name"] and fns == ["count", "sum"], where,
           found={"keys": [e["keys"] for e in gb], "functions": fns}, accepted={"keys": ["cat", "name"], "functions": ["count", "sum"]}, why="total_duration must be the SUM of the durations")
    from ..specs.discipline import narrowing_casts
    for c_ in ("counts", "total_duration"):
        nc = narrowing_casts(R.col(c_))
        chk.ob(rule, f"{c_} stays a signed, full-width number (differences test - control are formed from it)", not nc, where, found=nc or "no narrowing / unsigned cast", accepted="no unsigned or fixed narrow dtype",
               why="in unsigned arithmetic every negative difference wraps (-2 -> 254): decreased names are filed under 'increased'")
    check_term(chk, rule, "counts = number of events per (cat, name)", where, R.col("counts"), [T.agg("count", T.col(OPS, "dur"), ctx, keys)],
               "rename table agreement dur_count -> counts")
    check_term(chk, rule, "total_duration = sum of dur per (cat, name)", where, R.col("total_duration"), [T.agg("sum", T.col(OPS, "dur"), ctx, keys)],
               "rename table agreement dur_sum -> total_duration")
    check_term(chk, rule, "name = the decoded name id of the group", where, R.col("name"), [("getitem", T.P("STAB"), ("key", T.col(OPS, "name")))])
    check_term(chk, rule, "cat = the decoded category id of the group", where, R.col("cat"), [("getitem", T.P("STAB"), ("key", T.col(OPS, "cat")))])
    sn = R.col("short_name")
    chk.ob(rule, "short_name derives from the decoded name", not T.has_opaque(sn) and ("getitem", T.P("STAB"), ("key", T.col(OPS, "name"))) in T.find(sn, lambda s: s[0] == "getitem"), where,
           found=T.show(sn)[:120], accepted="shorten_name(name)")
    chk.ob(rule, "summary columns", R.colnames() == SUMCOLS, where, found=R.colnames(), accepted=SUMCOLS)


def _extract(db, chk, m):
    rule = "C17.R3-selection"
    ref = f"{TD}:LabeledTrace.extract_ops"
    fn = m.func("LabeledTrace.extract_ops")
    where = m.loc(fn)
    chk.analysed_add("functions", ref)

    def hook(I, name, pos, kw, node):
        if name == "self.ranks":
            return [0, 1]
        if name == "self.iterations":
            return [5, 6, 7]
        if name == "self.t.get_trace":
            return Frame(("param", "TR", to_term(pos[0])))
        return NotImplemented

    for dev, want in (("CPU", {-1: True, 0: False, 1: False, 7: False}), ("GPU", {-1: False, 0: True, 1: True, 7: True}), ("ALL", {-1: True, 0: True, 1: True, 7: True})):
        I = Interp(db, call_hook=hook)
        runs = [r for r in I.explore(ref, lambda I: {"self": Obj("self", cls=(m, "LabeledTrace"), attrs={"label": "L", "t": Obj("t")}), "rank": 1, "iteration": [5, 7],
                                                     "device_type": ("enum", "DeviceType", dev)}) if r.raised is None]
        runs = [r for r in runs if isinstance(r.ret, Frame)]
        if not runs or len(runs) > 6:
            chk.ob(rule, f"extract_ops(rank=1, iteration=[5,7], {dev}): analysable paths", None, where, found=len(runs))
            continue
        for R in [r.ret for r in runs]:
          _one_selection(chk, rule, where, dev, want, R)
        continue
        R = runs[0].ret
        TR = ("param", "TR", T.C(1))
        conj = list(R.rows[1]) if R.rows[0] == "and" else [R.rows]
        it = T.isin(T.col(TR, "iteration"), [T.C(5), T.C(7)])
        chk.ob(rule, f"[{dev}] events of the requested rank's frame whose iteration is among the requested ones (membership, not a range)", R.base == TR and it in conj, where,
               found=[T.show(R.base), [T.show(c)[:100] for c in conj]], accepted=T.show(it), why="between(min, max) also counts the iterations lying between two requested ones")
        rest = [c for c in conj if c != it]
        try:
            tt = {sv: bool(T.evaluate(T.and_(*rest), lambda leaf, sv=sv: sv if leaf == T.col(TR, "stream") else (_ for _ in ()).throw(T.Unknown(leaf)))) for sv in (-1, 0, 1, 7)}
        except T.Unknown:
            tt = None
        chk.ob(rule, f"[{dev}] device filter: a predicate over the stream alone (CPU: stream == -1, GPU: every other stream)", tt == want, where, found=tt if tt is not None else [T.show(c)[:100] for c in rest], accepted=want)
        chk.ob(rule, f"[{dev}] selection only (no reordering / new columns)", R.order is None and not R.cols, where, found={"order": T.show_order(R.order), "cols": list(R.cols)}, accepted="row selection")
    chk.floor(rule, 9)


def _defaults(db, chk, m):
    """the documented defaults: 'the first rank' / 'the first iteration' are the smallest ones (numeric order)"""
    rule = "C17.R3-selection"
    for q, what, src in (("LabeledTrace.ranks", "ranks", "traces"), ("LabeledTrace.iterations", "iterations", "iteration")):
        f = m.func(q)
        rets = [n for n in ast.walk(f) if isinstance(n, ast.Return) and n.value is not None]
        ok = len(rets) == 1 and H.match("sorted($$x)", H.expand(f, rets[0].value)) is not None and src in ast.unparse(H.expand(f, rets[0].value))
        rev = len(rets) == 1 and isinstance(rets[0].value, ast.Call) and any(k.arg in ("reverse", "key") for k in rets[0].value.keywords)
        verdict = bool(ok and not rev)
        if not ok and what == "iterations":
            # not sorted at the point of use: acceptable only if the frame was put in NUMERIC order where it is built
            exf = m.func("LabeledTrace._extract_iterations")
            sorts = [c for c in ast.walk(exf) if isinstance(c, ast.Call) and isinstance(c.func, ast.Attribute) and c.func.attr in ("sort_values", "sort_index")]
            numeric = [c for c in sorts if c.func.attr == "sort_values" and "iteration" in ast.unparse(c) and not any(k.arg == "ascending" for k in c.keywords)]
            verdict = True if numeric and len(sorts) == len(numeric) else (False if sorts else None) if len(rets) == 1 else None
            if not sorts and len(rets) == 1 and "sort" not in ast.unparse(f):
                verdict = False               # no ordering anywhere: symbol-table (insertion) order
        chk.ob(rule, f"{what}() lists the available {what} in ascending numeric order (the default selection takes its first element)", verdict, m.loc(f),
               found=[ast.unparse(r.value)[:120] for r in rets], accepted=f"sorted(<{src} numbers>)",
               why="extract_ops takes [:1] as the default: an order by symbol string puts ProfilerStep#10 before ProfilerStep#9")
    ex = m.func("LabeledTrace._extract_iterations")
    # decided by evaluating _extract_iterations on a symbolic symbol map: the 'iteration' column of the frame it returns
    SMAP = ("param", "SMAP")
    FS = Frame(SMAP)
    SM = Ser(T.col(SMAP, "__values__"), FS.ctx(), FS, None)

    def hook(I, name, pos, kw, node):
        if name.endswith("get_sym_id_map"):
            return SM
        return NotImplemented

    I = Interp(db, call_hook=hook)
    runs = [r for r in I.explore(f"{TD}:LabeledTrace._extract_iterations",
                                 lambda I: {"self": Obj("self", cls=(m, "LabeledTrace"), attrs={"t": Obj("t", attrs={"symbol_table": Obj("symtab")})})}) if r.raised is None]
    col = None
    if len(runs) == 1 and isinstance(runs[0].ret, Frame) and runs[0].ret.has("iteration"):
        col = runs[0].ret.col("iteration")
    idx = T.show(("index", SMAP))
    stripped = ("call", f"{idx}.replace", T.C("ProfilerStep#"), T.C(""))
    okn = None
    if col is not None:
        if col == ("cast", "int", stripped):
            okn = True
        elif col == stripped or col == ("cast", "str", stripped) or col == ("index", SMAP):
            okn = False                      # the digits (or the whole symbol) kept as a string
    chk.ob(rule, "iteration numbers are the integers parsed from the ProfilerStep#<n> symbols", okn, m.loc(ex), found=T.show(col)[:160] if col is not None else f"{len(runs)} path(s), no 'iteration' column understood",
           accepted="int(symbol.replace('ProfilerStep#', ''))", why="string-valued iteration numbers sort lexicographically")
    if col is not None:
        R = runs[0].ret
        chk.ob(rule, "the iteration table lists the symbols that start with 'ProfilerStep' (every profiler step, nothing else)",
               True if R.rows == ("strmatch", "startswith", ("index", SMAP), T.C("ProfilerStep"), ()) and R.base == SMAP else None, m.loc(ex), found=T.show(R.rows)[:160], accepted="symbol.startswith('ProfilerStep')")


def _one_selection(chk, rule, where, dev, want, R):
    TR = ("param", "TR", T.C(1))
    conj = list(R.rows[1]) if R.rows[0] == "and" else [R.rows]
    it = T.isin(T.col(TR, "iteration"), [T.C(5), T.C(7)])
    chk.ob(rule, f"[{dev}] events of the requested rank's frame whose iteration is among the requested ones (membership, not a range)", R.base == TR and it in conj, where,
           found=[T.show(R.base), [T.show(c)[:100] for c in conj]], accepted=T.show(it), why="between(min, max) also counts the iterations lying between two requested ones")
    rest = [c for c in conj if c != it]
    try:
        tt = {sv: bool(T.evaluate(T.and_(*rest), lambda leaf, sv=sv: sv if leaf == T.col(TR, "stream") else (_ for _ in ()).throw(T.Unknown(leaf)))) for sv in (-1, 0, 1, 7)}
    except T.Unknown:
        tt = None
    chk.ob(rule, f"[{dev}] device filter: a predicate over the stream alone (CPU: stream == -1, GPU: every other stream)", tt == want, where, found=tt if tt is not None else [T.show(c)[:100] for c in rest], accepted=want,
           why="a predicate that also reads name/correlation moves e.g. synchronisation records on stream -1 from the CPU table to the GPU table")
    chk.ob(rule, f"[{dev}] selection only (no reordering / new columns)", R.order is None and not R.cols, where, found={"order": T.show_order(R.order), "cols": list(R.cols)}, accepted="row selection")


def _compare(db, chk, m):
    rule = "C17.R1-comparison"
    ref = f"{TD}:TraceDiff.compare_traces"
    fn = m.func("TraceDiff.compare_traces")
    where = m.loc(fn)
    chk.analysed_add("functions", ref)
    for short in (False, True):
        calls = []

        def hook(I, name, pos, kw, node):
            if name == "_trace_argument_adapter":
                return pos[0]
            if name.endswith(".extract_ops"):
                recv = I.eval(node.func.value)
                who = {"control": "control_trace", "test": "test_trace"}.get(getattr(recv, "name", ""), "?")
                calls.append((who, [to_term(p) for p in pos]))
                return Frame(("param", "OPS_" + who))
            if name.endswith(".get_ops_summary"):
                recv = I.eval(node.func.value)
                who = {"control": "control_trace", "test": "test_trace"}.get(getattr(recv, "name", ""), "?")
                a = pos[0]
                calls.append((who + ".summary", a.base if isinstance(a, Frame) else to_term(a)))
                return Frame(("param", "SUM_" + who), known=list(SUMCOLS))
            return NotImplemented

        I = Interp(db, call_hook=hook)
        runs = [r for r in I.explore(ref, lambda I: {"cls": Obj("cls", cls=(m, "TraceDiff")), "control": Obj("control", attrs={"label": "CTL"}), "test": Obj("test", attrs={"label": "TST"}),
                                                     "control_rank": T.P("CR"), "test_rank": T.P("TRK"), "control_iteration": T.P("CI"), "test_iteration": T.P("TI"),
                                                     "device_type": T.P("DEV"), "use_short_name": short}) if r.raised is None]
        tag = f"[short names={short}]"
        if len(runs) != 1 or not isinstance(runs[0].ret, Frame):
            chk.ob(rule, f"{tag} compare_traces: one path returning a frame", None, where, found=len(runs))
            continue
        R = runs[0].ret
        want_calls = [("control_trace", [T.P("CR"), T.P("CI"), T.P("DEV")]), ("control_trace.summary", ("param", "OPS_control_trace")),
                      ("test_trace", [T.P("TRK"), T.P("TI"), T.P("DEV")]), ("test_trace.summary", ("param", "OPS_test_trace"))]
        chk.ob(rule, f"{tag} each trace is selected with its OWN rank / iteration arguments and summarised from its own events", sorted(calls, key=repr) == sorted(want_calls, key=repr), where,
               found=[(w, T.show(a)[:80] if isinstance(a, tuple) else [T.show(x) for x in a]) for w, a in calls], accepted="control: (control_rank, control_iteration, device_type); test: (test_rank, test_iteration, device_type)")
        key = "short_name" if short else "name"
        parts = {}
        for lab, who in (("CTL", "control_trace"), ("TST", "test_trace")):
            S = ("param", "SUM_" + who)
            sctx = (S, T.TRUE, None)
            parts[lab] = {c: T.agg("sum", T.col(S, c), sctx, (T.col(S, key),)) for c in ("counts", "total_duration")}
        if R.base[0] != "concat1":
            chk.ob(rule, f"{tag} comparison = column-wise concat of the two regrouped summaries", None if (T.has_opaque(R.base) or "opaque" in T.show(R.base)[:40]) else False, where, found=T.show(R.base)[:160], accepted="pd.concat(axis=1, join='outer', keys=[control, test])")
            continue
        chk.ob(rule, f"{tag} outer join on the name index (names of either trace are kept)", R.base[1] == "outer", where, found=R.base[1], accepted="outer",
               why="an inner join drops added and deleted names")

        def cell(lab, c):
            i = 0 if lab == "CTL" else 1
            return ("fillna", ("nullable", ("c1col", R.base, i, parts[lab][c])), T.C(0))
        count_cells = {cell(lab, "counts") for lab in ("CTL", "TST")}

        def nocast(t):
            """law: astype(int64) is the identity on a NaN-free column of event counts"""
            if isinstance(t, tuple):
                if len(t) == 3 and t[0] == "astype" and t[1] in (T.C("int64"), T.C("int"), T.C("Int64")) and t[2] in count_cells:
                    return t[2]
                return tuple(nocast(x) for x in t)
            return t
        for lab in ("CTL", "TST"):
            for c in ("counts", "total_duration"):
                check_term(chk, rule, f"{tag} column {lab}_{c} = that trace's {c} summed per {key}, 0 when the name is absent", where, T.renorm(nocast(R.col(f"{lab}_{c}"))), [cell(lab, c)])
        check_term(chk, rule, f"{tag} diff_counts = test - control", where, T.renorm(nocast(R.col("diff_counts"))), [T.sub(cell("TST", "counts"), cell("CTL", "counts"))], "control - test flips every sign")
        check_term(chk, rule, f"{tag} diff_duration = test - control", where, R.col("diff_duration"), [T.sub(cell("TST", "total_duration"), cell("CTL", "total_duration"))])
    chk.floor(rule, 14)


def _classes(db, chk, m):
    rule = "C17.R2-partition"
    ref = f"{TD}:TraceDiff.ops_diff"
    fn = m.func("TraceDiff.ops_diff")
    where = m.loc(fn)
    chk.analysed_add("functions", ref)
    CMP = ("param", "CMP")
    passed = []

    def hook(I, name, pos, kw, node):
        if name == "_trace_argument_adapter":
            return pos[0]
        if name.endswith(".compare_traces"):
            passed.append([to_term(p) for p in pos])
            return Frame(CMP)
        return NotImplemented

    I = Interp(db, call_hook=hook)
    runs = [r for r in I.explore(ref, lambda I: {"cls": Obj("cls", cls=(m, "TraceDiff")), "control": Obj("control", attrs={"label": "CTL"}), "test": Obj("test", attrs={"label": "TST"}),
                                                 "control_rank": T.P("CR"), "test_rank": T.P("TRK"), "control_iteration": T.P("CI"), "test_iteration": T.P("TI"),
                                                 "device_type": T.P("DEV")}) if r.raised is None]
    if len(runs) != 1 or not isinstance(runs[0].ret, dict):
        chk.ob(rule, "ops_diff: one path returning the class dict", None, where, found=len(runs))
        return
    res = runs[0].ret
    chk.ob(rule, "five classes", set(res) == {"added", "deleted", "increased", "decreased", "unchanged"}, where, found=sorted(res), accepted=["added", "deleted", "increased", "decreased", "unchanged"])
    masks = {}
    for k, v in res.items():
        t = to_term(v)
        ok = t[0] == "tolist" and isinstance(t[2], tuple) and len(t[2]) == 3 and t[2][0] == CMP and t[1] == ("index", CMP)
        chk.ob(rule, f"class {k} = the names (index) of the comparison rows selected by a mask", ok, where, found=T.show(t)[:160], accepted="df.loc[mask].index.tolist()")
        if ok:
            masks[k] = t[2][1]
    want_args = [("obj", "control"), ("obj", "test"), T.P("CR"), T.P("TRK"), T.P("CI"), T.P("TI"), T.P("DEV")]
    chk.ob(rule, "ops_diff forwards its arguments to compare_traces in the parameter order", passed == [want_args], where, found=[[T.show(x) for x in p] for p in passed], accepted=[T.show(x) for x in want_args])
    if len(masks) != 5:
        return
    cases = [(0, 3), (3, 0), (3, 5), (5, 3), (3, 3), (0, 1), (1, 0), (1, 2), (2, 1), (1, 1)]
    expect = lambda c, t: "added" if c == 0 else "deleted" if t == 0 else "increased" if t > c else "decreased" if t < c else "unchanged"
    for c, t in cases:
        def leaf(x, c=c, t=t):
            if x == T.col(CMP, "CTL_counts"):
                return c
            if x == T.col(CMP, "TST_counts"):
                return t
            if x == T.col(CMP, "diff_counts"):
                return t - c
            raise T.Unknown(x)
        try:
            hit = sorted(k for k, mk in masks.items() if T.evaluate(mk, leaf))
            chk.ob(rule, f"counts (control={c}, test={t}): the name falls into exactly one class, the right one", hit == [expect(c, t)], where, found=hit, accepted=[expect(c, t)],
                   why="classes must be pairwise disjoint and jointly exhaustive; identical inputs (diff 0, both > 0) are 'unchanged' only")
        except T.Unknown as u:
            chk.ob(rule, f"counts (control={c}, test={t}): masks read only the two count columns and diff_counts", False, where, found=T.show(u.args[0])[:120], accepted="CTL_counts, TST_counts, diff_counts")
    chk.floor(rule, 15)
    # ---- the two cooperating sites: the column names ops_diff reads are the names compare_traces writes, also when both traces carry the same label
    def hook_eq(I, name, pos, kw, node):
        if name == "_trace_argument_adapter":
            return pos[0]
        if name.endswith(".extract_ops"):
            return Frame(("param", "OPS"))
        if name.endswith(".get_ops_summary"):
            recv = I.eval(node.func.value)
            return Frame(("param", "SUM_" + getattr(recv, "name", "?")), known=list(SUMCOLS))
        return NotImplemented

    I = Interp(db, call_hook=hook_eq)
    runs = [r for r in I.explore(ref, lambda I: {"cls": Obj("cls", cls=(m, "TraceDiff")), "control": Obj("control", attrs={"label": "SAME"}), "test": Obj("test", attrs={"label": "SAME"}),
                                                 "control_rank": T.P("CR"), "test_rank": T.P("TRK"), "control_iteration": T.P("CI"), "test_iteration": T.P("TI"), "device_type": T.P("DEV")})
            if r.raised is None and isinstance(r.ret, dict)]
    if len(runs) != 1:
        chk.ob(rule, "ops_diff with identical labels: one path", None, where, found=len(runs))
        return
    masks2 = {}
    for k, v in runs[0].ret.items():
        t = to_term(v)
        if t[0] == "tolist" and isinstance(t[2], tuple) and len(t[2]) == 3:
            masks2[k] = t[2][1]
    bad = []
    verdict = True if len(masks2) == 5 else None
    if verdict:
        for c, t_ in cases:
            def leaf(x, c=c, t_=t_):
                y = x
                while isinstance(y, tuple) and y and (y[0] in ("fillna", "nullable") or (y[0] == "astype" and y[1] in (T.C("int64"), T.C("int"), T.C("Int64")))):
                    y = y[2] if y[0] == "astype" else y[1]          # an int64 cast is the identity on the integer counts the leaf stands for
                if isinstance(y, tuple) and y and y[0] == "c1col" and "counts" in T.show(y[3]):
                    return c if y[2] == 0 else t_
                raise T.Unknown(x)
            try:
                hit = sorted(k for k, mk in masks2.items() if T.evaluate(mk, leaf))
            except T.Unknown as u:
                verdict = None
                bad.append("reads " + T.show(u.args[0])[:80])
                break
            if hit != [expect(c, t_)]:
                verdict = False
                bad.append({"control": c, "test": t_, "classes": hit, "expected": expect(c, t_)})
    chk.ob(rule, "identical labels on both traces: with compare_traces inlined, every (control, test) count pattern still falls into exactly its class", verdict, where,
           found=bad[:3] or "10 patterns agree", accepted="same partition as with distinct labels",
           why="compare_traces renames the test label when both labels are equal; ops_diff must look the columns up under the same (renamed) label, else every name is classified from the control counts alone")


def _full_trace(db, chk, m):
    """the comparison counts the events of the trace FILES: LabeledTrace parses them itself on every construction path (a Trace that was handed over may
    already be trimmed to the steps an earlier analysis kept) and never applies the step trimming"""
    rule = "C17.R5-full-trace"
    ref = f"{TD}:LabeledTrace.__init__"
    fn = m.func("LabeledTrace.__init__")
    where = m.loc(fn)

    def hook(I, name, pos, kw, node):
        if name.endswith(".parse_traces"):
            I.log("parse", node)
            return None
        if name.endswith("align_and_filter_trace"):
            I.log("trim", node)
            return None
        if name.endswith("_extract_iterations"):
            return T.P("ITERS")
        if name.endswith(("get_sym_id_map", "get_sym_table")):
            return T.P("SYM")
        if name == "Trace":
            return Obj("trace_from_dir", attrs={"is_parsed": False, "symbol_table": Obj("symtab")})
        if name.endswith("isdir"):
            return True
        return NotImplemented
    n = 0
    for given in ("trace object", "trace directory"):
        I = Interp(db, call_hook=hook)
        tobj = Obj("given_trace", attrs={"is_parsed": T.P("IS_PARSED"), "symbol_table": Obj("symtab")})
        args = {"self": Obj("self", cls=(m, "LabeledTrace")), "label": "L", "t": tobj if given == "trace object" else None, "trace_dir": None if given == "trace object" else "/d"}
        runs = [r for r in I.explore(ref, lambda I: dict(args)) if r.raised is None]
        if not runs:
            chk.ob(rule, f"LabeledTrace({given}): a normal construction path", None, where, found=0)
            continue
        for r in runs:
            n += 1
            parses = [e for e in r.events if e["kind"] == "parse"]
            trims = [e for e in r.events if e["kind"] == "trim"]
            cond = T.show(r.cond())[:80] if r.path else "always"
            chk.ob(rule, f"LabeledTrace({given}) [{cond}]: the trace files are parsed by the constructor itself", len(parses) >= 1, where, found=f"{len(parses)} parse_traces() call(s)", accepted="self.t.parse_traces() on every path",
                   why="a Trace taken from a TraceAnalysis was trimmed by align_and_filter_trace: without the re-parse the last profiler step compares as empty")
            chk.ob(rule, f"LabeledTrace({given}) [{cond}]: no step trimming", not trims, where, found=len(trims), accepted=0)
    chk.floor(rule, 4)


def _short_names(db, chk):
    """'long or short names': with use_short_name the rows are keyed by shorten_name(name) - every BALANCED <...> and (...) group is removed wherever it stands, then the last
    blank-separated token is kept.  Decided by evaluating the function on representative names (brackets in the middle of a name, nested groups, a return type)."""
    rule = "C17.R6-short-names"
    ut = db.mod("hta.utils.utils")
    fn = ut.functions.get("shorten_name")
    if fn is None:
        chk.ob(rule, "shorten_name found", None, "hta/utils/utils.py", found="absent")
        return

    def reference(name: str) -> str:          # the documented behaviour, written independently (checker's specification)
        if "<" not in name and "(" not in name:
            return name
        stack = []
        for c in name.replace("->", ""):
            if c in ">)":
                o = "<" if c == ">" else "("
                while stack and stack[-1] != o:
                    stack.pop()
                if stack:
                    stack.pop()
            else:
                stack.append(c)
        return "".join(stack).split(" ")[-1]
    names = ["aten::add", "a<int>(b)", "void at::native::(anonymous namespace)::indexSelectLargeIndex<float, 2>(x, y)", "ns::Cls<T>::member<U>(int)", "f(a)->b",
             "void at::native::vectorized_elementwise_kernel<4, at::native::BinaryFunctor<float, float, float, at::native::AddFunctor<float> >, at::detail::Array<char*, 3> >(int, at::native::BinaryFunctor<float, float, float, at::native::AddFunctor<float> >, at::detail::Array<char*, 3>)"]
    got, want = {}, {n_: reference(n_) for n_ in names}
    for n_ in names:
        try:
            runs = [r for r in Interp(db).explore("hta.utils.utils:shorten_name", lambda I, n_=n_: {"name": n_}) if r.raised is None]
        except Exception:          # noqa
            runs = []
        got[n_] = runs[0].ret if len(runs) == 1 and isinstance(runs[0].ret, str) else None
    verdict = None if any(v is None for v in got.values()) else got == want
    chk.ob(rule, "shorten_name removes every balanced <...> / (...) group wherever it stands and keeps the last blank-separated token", verdict, ut.loc(fn),
           found={k[:50]: v for k, v in got.items() if v != want[k]} or "all representative names agree", accepted={k[:50]: v for k, v in want.items()},
           why="greedy patterns from the first opening to the last closing bracket delete the part of the name between two groups: different operators collapse into one row of the comparison")
