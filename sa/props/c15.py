"""C15 - launch statistics list every launch/activity pair with exact durations and delay (structural clauses)."""
from __future__ import annotations

import ast

from ..core import terms as T
from ..core import asthelp as H
from ..core.interp import Interp
from ..core.progdb import AnalysisError
from ..core.values import Frame, Obj, PyTuple, to_term
from ..specs.merge import check_term

EXPLANATION = (
    "Symbolic column-term evaluation of CudaKernelAnalysis.cuda_kernel_launch_stats for two ranks, with and without memory events, plus the facade. "
    "Decides per rank: the correlation set comes from THAT rank's rows whose name is the id of a launch call {cudaLaunchKernel, cudaLaunchKernelExC, "
    "MTIA launch} (+ {cudaMemsetAsync, cudaMemcpyAsync} iff include_memory_events), ids looked up in the symbol map with None for missing names and not "
    "filtered by truthiness (0 is a valid id); host side = stream == -1, device side = stream != -1, both restricted to that set; inner join on "
    "correlation; launch_delay = max(ts_device - ts_host - dur_host, 0); cpu_duration / gpu_duration = the host / device durations; facade binding."
    " Later additions: name extraction through the shared launch query; effect rules; stateless wrapper."
)
CK = "hta.analyzers.cuda_kernel_analysis"
LAUNCH = {"cudaLaunchKernel", "cudaLaunchKernelExC", "runFunction - job_prep_and_submit_for_execution"}
MEMORY = {"cudaMemsetAsync", "cudaMemcpyAsync"}


def _names_of(pred, TRr, notes):
    """launch names selected by a predicate over TR.name: set of names, or None if not understood; appends a reason to notes for a recognised wrong idiom"""
    NAME = T.col(TRr, "name")
    out = set()

    def idname(t):
        if t[0] == "call" and str(t[1]).endswith(".get") and len(t) >= 3 and T.is_const(t[2]) and (len(t) == 3 or t[3] == T.NONE or (T.is_num_const(t[3]) and t[3][1] < 0)):
            return t[2][1]          # a missing name yields None (also the implicit default of dict.get) or a negative sentinel: no row carries such a name id
        if t[0] == "call" and str(t[1]).endswith(".get"):
            notes.append(f"symbol lookup default is {T.show(t[3]) if len(t) > 3 else 'missing'} (must be None or a negative sentinel so that a missing name matches no row)")
        return None

    if pred[0] == "and":
        # a conjunction: name alternatives AND (optionally) "the launch has a linked activity" - the latter only removes launches that have no pair anyway
        linked = T.cmp(">", T.col(TRr, "index_correlation"), T.C(0))
        for c in pred[1]:
            if c == linked:
                continue
            # a test on the VALUE of the correlation id (other than 'has no id': != -1 / >= 0) drops valid ids: id 0 is one
            if isinstance(c, tuple) and c and c[0] in ("cmp", "eq", "ne") and T.col(TRr, "correlation") in T.find(c, lambda s_: s_[0] == "col") and not T.find(c, lambda s_: s_[0] == "col" and s_ != T.col(TRr, "correlation")):
                try:
                    tt = {v: bool(T.evaluate(c, lambda leaf, v=v: v if leaf == T.col(TRr, "correlation") else (_ for _ in ()).throw(T.Unknown(leaf)))) for v in (-1, 0, 1, 7)}
                except T.Unknown:
                    return None
                if tt in ({-1: False, 0: True, 1: True, 7: True}, {-1: True, 0: True, 1: True, 7: True}):
                    continue
                notes.append(f"the correlation ids are filtered by their value ({T.show(c)[:60]}): a pair linked by id 0 is dropped")
                continue
            sub = _names_of(c, TRr, notes)
            if sub is None or sub == "TRUTHY":
                return sub
            out |= sub
        return out
    for d in (pred[1] if pred[0] == "or" else (pred,)):
        # [x for x in (ids...) if x] written out per element: (truthy(id) & name == id)
        if d[0] == "and" and any(isinstance(c_, tuple) and c_ and c_[0] == "truthy" and T.find(c_, lambda s_: s_[0] == "call" and str(s_[1]).endswith(".get")) for c_ in d[1]):
            notes.append("launch ids are filtered by truthiness: symbol id 0 is a valid id and would be dropped")
            return "TRUTHY"
        if d[0] == "in" and d[1] == NAME and d[2][0] == "set":
            for mem in d[2][1]:
                n = idname(mem)
                if n is None:
                    return None
                out.add(n)
        elif d[0] == "in" and d[1] == NAME and d[2][0] == "comp":
            comp = d[2]
            cond = comp[4]
            if cond[0] == "truthy":
                notes.append("launch ids are filtered by truthiness: symbol id 0 is a valid id and would be dropped")
                return "TRUTHY"
            return None
        elif d[0] in ("eq", "ne", "cmp"):
            calls = T.find(d, lambda s: s[0] == "call" and str(s[1]).endswith(".get"))
            if len(calls) == 1 and NAME in T.find(d, lambda s: s[0] == "col") and (d[0] == "eq" or (d[0] == "cmp" and d[1] == "==")):
                n = idname(calls[0])
                if n is None:
                    return None
                out.add(n)
            else:
                return None
        else:
            return None
    return out


def run(db, chk) -> None:
    from ..specs.discipline import check_shared_trace_untouched
    check_shared_trace_untouched(db, chk, "C15.R-shared-trace")
    from ..specs.discipline import check_facade_stateless
    check_facade_stateless(db, chk, "C15.R-facade-stateless", ['get_cuda_kernel_launch_stats'])
    from ..specs.discipline import check_stateless
    check_stateless(db, chk, "C15.R-stateless", ['hta.analyzers.cuda_kernel_analysis'])      # the result is a function of the arguments: no state kept between calls, caller's Trace untouched
    chk.floor("C15.R-stateless", 4)
    m = db.mod(CK)
    rule = "C15.R1-launch-stats"
    ref = f"{CK}:CudaKernelAnalysis.cuda_kernel_launch_stats"
    fn = m.func("CudaKernelAnalysis.cuda_kernel_launch_stats")
    where = m.loc(fn)
    chk.analysed_add("functions", ref)
    R0, R1 = T.P("RANK0"), T.P("RANK1")

    def hook(I, name, pos, kw, node):
        if name == "t.get_trace":
            return Frame(("param", "TR", to_term(pos[0] if pos else kw.get("rank"))))
        if name == "t.symbol_table.get_sym_id_map":
            return T.P("SYMIDX")
        return NotImplemented

    for mem in (True, False):
        I = Interp(db, call_hook=hook)
        runs = I.explore(ref, lambda I: {"cls": Obj("cls", cls=(m, "CudaKernelAnalysis")), "t": Obj("t", attrs={"symbol_table": Obj("symtab", cls=(db.mod("hta.common.trace_symbol_table"), "TraceSymbolTable"))}), "ranks": [R0, R1],
                                         "include_memory_events": mem, "visualize": False})
        runs = [r for r in runs if r.raised is None and isinstance(r.ret, dict)]
        if not runs or len(runs) > 8:
            chk.ob(rule, f"[memory={mem}] analysable paths returning a dict rank -> frame", None, where, found=len(runs))
            continue
        for run_, rk in [(r_, k_) for r_ in runs for k_ in (R0, R1)]:
            res = run_.ret
            ptag = (" when " + T.show(run_.cond())[:50]) if run_.path else ""
            if rk == R0:
                chk.ob(rule, f"[memory={mem}{ptag}] one result per requested rank", set(res) == {R0, R1}, where, found=[T.show(k) for k in res], accepted=["$RANK0", "$RANK1"])
            E = res.get(rk)
            tag = f"[memory={mem}, {T.show(rk)}{ptag}]"
            TRr = ("param", "TR", rk)
            if not isinstance(E, Frame) or E.base[0] != "join":
                chk.ob(rule, f"{tag} result is a join of host and device rows", None if not isinstance(E, Frame) else False, where, found=repr(E)[:120], accepted="inner merge on correlation")
                continue
            chk.ob(rule, f"{tag} every linked pair is reported: no row of the joined table is filtered out afterwards", E.rows == T.TRUE, where, found=T.show(E.rows)[:160], accepted="no filter after the join",
                   why="e.g. a 'sanity' filter ts_device >= ts_host drops pairs whose activity starts before the launch call began (clock skew)")
            _, how, Lc, Rc, lk, rk_, sfx = E.base
            CORR = T.col(TRr, "correlation")
            chk.ob(rule, f"{tag} inner join on the correlation id", how == "inner" and lk == (CORR,) and rk_ == (CORR,), where, found=[how] + [T.show(x) for x in lk + rk_],
                   accepted=["inner", "correlation", "correlation"], why="left/outer joins add rows for unpaired events; another key pairs unrelated events")
            sides = {}
            for nm, ctx, want in (("host", Lc, {-1: True, 1: False, 7: False}), ("device", Rc, {-1: False, 1: True, 7: True})):
                conj = list(ctx[1][1]) if ctx[1][0] == "and" else [ctx[1]]
                ins = [c for c in conj if c[0] == "in" and c[1] == CORR]
                rest = [c for c in conj if c not in ins]
                try:
                    tt = {sv: bool(T.evaluate(T.and_(*rest), lambda leaf, sv=sv: sv if leaf == T.col(TRr, "stream") else (_ for _ in ()).throw(T.Unknown(leaf)))) for sv in (-1, 1, 7)}
                except T.Unknown:
                    tt = None
                chk.ob(rule, f"{tag} {nm} side: rows of this rank's trace selected by stream only", ctx[0] == TRr and tt == want, where, found={"base": T.show(ctx[0]), "table": tt or T.show(T.and_(*rest))[:120]},
                       accepted=want, why="events of one side must not appear on the other; the frame must be this rank's")
                sides[nm] = ins
            ok_same = len(sides.get("host", [])) == 1 and sides["host"] == sides.get("device")
            # law: an INNER join on the key K keeps a pair only if both rows carry the same K, so `K in S` on one side restricts the rows of the other side that can match as well
            if not ok_same and how == "inner" and lk == (CORR,) and rk_ == (CORR,) and len({x for v_ in sides.values() for x in v_}) == 1 and all(len(v_) <= 1 for v_ in sides.values()):
                ok_same = True
                sides = {k_: [x for v_ in sides.values() for x in v_][:1] for k_ in sides}
            chk.ob(rule, f"{tag} both sides restricted to the same correlation set", ok_same, where, found={k: [T.show(x)[:100] for x in v] for k, v in sides.items()}, accepted="one shared isin(correlation set)")
            if ok_same:
                S = sides["host"][0][2]
                srcs = []
                # a Python set that received the ids (`ids = set(); ids.update(series)`): the collections it holds
                members = [S[1]] if (S[0] == "set" and len(S) == 2 and isinstance(S[1], tuple) and S[1] and S[1][0] == "valuesof") else \
                    (list(S[1]) if S[0] == "setunion" and all(isinstance(x_, tuple) and x_ and x_[0] == "valuesof" for x_ in S[1]) else None)
                if members is not None and all(isinstance(v_[2], tuple) and len(v_[2]) == 3 for v_ in members):
                    foreign = [v_ for v_ in members if v_[2][0] != TRr]
                    if foreign:
                        chk.ob(rule, f"{tag} correlation ids are collected from THIS rank's rows only", False, where, found=[T.show(v_[2][0]) for v_ in members], accepted=T.show(TRr),
                               why="ids carried over from a rank processed earlier (a set created in front of the rank loop and only ever updated) add pairs that are not launches on this rank")
                        continue
                    if len(members) == 1:
                        S = members[0]
                if S[0] == "valuesof":
                    sctx = S[2]
                    if isinstance(sctx, tuple) and sctx and sctx[0] == ("concat",) or (isinstance(sctx[0], tuple) and sctx[0] and sctx[0][0] == "concat"):
                        srcs = [p for k, p in sctx[0][2]]
                        unknown_parts = [k for k, p in sctx[0][2] if k != "one"]
                    else:
                        srcs, unknown_parts = [sctx], []
                    okb = all(isinstance(p, tuple) and len(p) == 3 and p[0] == TRr for p in srcs) and not unknown_parts
                    if unknown_parts and all(p[0] == TRr for p in srcs if isinstance(p, tuple) and len(p) == 3):
                        okb = None          # a piece of the concatenation that is not a row selection of a frame (an expression the evaluator did not follow): not understood, not foreign
                    chk.ob(rule, f"{tag} correlation ids are collected from THIS rank's rows only", okb, where, found=[T.show(p[0]) if isinstance(p, tuple) else str(p) for p in srcs] + unknown_parts,
                           accepted=T.show(TRr), why="ids carried over from a rank processed earlier add pairs that are not launches on this rank")
                    names, notes, bad = set(), [], False
                    for p in srcs:
                        if not (isinstance(p, tuple) and len(p) == 3):
                            bad = True
                            continue
                        if p[0] != TRr:
                            continue
                        n = _names_of(p[1], p[0], notes)
                        if n == "TRUTHY":
                            bad = "truthy"
                        elif n is None:
                            bad = True
                        else:
                            names |= n
                    want = LAUNCH | (MEMORY if mem else set())
                    verdict = (names == want and not notes) if bad is False else (False if bad == "truthy" or notes else None)
                    if unknown_parts and verdict is False and bad != "truthy" and not notes and names < want:
                        verdict = None          # (names missing because a piece was not understood)
                    chk.ob(rule, f"{tag} launch-name set", verdict, where, found=sorted(names) + notes, accepted=sorted(want),
                           why="kernel launches, plus memcpy/memset launches exactly when requested; ids looked up with default None and not filtered by truthiness")
                else:
                    chk.ob(rule, f"{tag} correlation set is the correlation column of selected launch rows", None, where, found=T.show(S)[:160])
            # columns
            jl = lambda c: ("jl", E.base, T.col(TRr, c))
            jr = lambda c: ("jr", E.base, T.col(TRr, c))
            d = T.sub(T.sub(jr("ts"), jl("ts")), jl("dur"))
            check_term(chk, rule, f"{tag} launch_delay = max(device ts - host ts - host dur, 0)", where, E.col("launch_delay"), [T.max2(d, T.C(0))],
                       "swapped sides or a missing clip change every row")
            check_term(chk, rule, f"{tag} cpu_duration = the launch call's duration", where, E.col("cpu_duration"), [jl("dur")])
            check_term(chk, rule, f"{tag} gpu_duration = the device activity's duration", where, E.col("gpu_duration"), [jr("dur")])
            cn = E.colnames()
            chk.ob(rule, f"{tag} reported columns", cn == ["correlation", "cpu_duration", "gpu_duration", "launch_delay"], where, found=cn, accepted=["correlation", "cpu_duration", "gpu_duration", "launch_delay"])
    chk.floor(rule, 40)
    ta = db.mod("hta.trace_analysis")
    fac = ta.func("TraceAnalysis.get_cuda_kernel_launch_stats")
    cs = [c for c in H.calls(fac) if isinstance(c.func, ast.Attribute) and c.func.attr == "cuda_kernel_launch_stats"]
    for _p, _src, _v in H.rebinds_of_params(fac, ["ranks", "runtime_cutoff", "launch_delay_cutoff", "include_memory_events", "visualize"]):
        chk.ob("C15.R-facade-integrity", f"facade forwards parameter {_p} unmodified", _v == "default-if-none", ta.loc(fac), found=_src, accepted="no re-binding, or `if p is None: p = <default>`",
               why="`p = p or default` replaces legitimate falsy values (a threshold of 0, an empty selection) by the default")
    if len(cs) != 1:
        from ..specs.discipline import check_facade_binding
        check_facade_binding(db, chk, "C15.R2-facade", "TraceAnalysis.get_cuda_kernel_launch_stats", m.name, "CudaKernelAnalysis.cuda_kernel_launch_stats", returns=lambda I: {})
        return
    bnd = H.bind_call(fn, cs[0])

    for pn in ("ranks", "runtime_cutoff", "launch_delay_cutoff", "include_memory_events", "visualize"):
        chk.ob("C15.R2-facade", f"facade argument -> parameter {pn}", H.name_id(bnd.get(pn)) == pn, ta.loc(cs[0]), found=ast.unparse(bnd[pn]) if pn in bnd else None, accepted=pn)
    chk.ob("C15.R2-facade", "facade passes its trace", H.is_self_attr(bnd.get("t"), "t"), ta.loc(cs[0]), found=ast.unparse(bnd["t"]) if "t" in bnd else None, accepted="self.t")
