"""C04 - temporal breakdown is an exact partition of the GPU activity span (structural clauses)."""
from __future__ import annotations

import ast

from ..core import terms as T
from ..core import asthelp as H
from ..core.interp import Interp
from ..core.progdb import AnalysisError, call_name
from ..core.values import ClassRef, Frame, Obj, PyTuple, to_term
from ..specs.merge import MergeHook, check_merge, check_term, span_terms, busy_term, merged_frame_of
from ..specs import kernel_type as KT

EXPLANATION = (
    "Symbolic column-term evaluation (no execution) of utils.merge_kernel_intervals, BreakdownAnalysis._get_idle_time_for_kernels, "
    "get_temporal_breakdown and its nested idle_time_per_rank, utils.get_kernel_type and the TraceAnalysis facade. Decides that the code "
    "instantiates the interval-union template (sort by ts, end=ts+dur, group=cumsum(ts > running max of previous ends), min/max per group), "
    "that span/idle/compute/non-compute are the template's arithmetic over the merged frames of the device rows and of the COMPUTATION rows, "
    "that the percentages are round(100*part/kernel_time, 2), that kernel classification is the comm->memory->compute->other chain over the "
    "spec regular languages, and that the facade forwards its argument. Each slot is a necessary condition (witness inputs in DESIGN.md 3/C04); "
    "numeric results and pandas' own semantics are not decided."
    " Later additions: per-path decision of compute_time, effect rules (no state across calls, caller's Trace untouched, independent per-rank loops, facade stateless), bounded validation of the interval-union template."
)
BA = "hta.analyzers.breakdown_analysis"


ROLES = ("idle", "compute", "non_compute", "kernel")          # positions of the per-rank result: idle, compute, non-compute, kernel (span) time


def _role_of_field(name: str):
    n = name.lower()
    if "idle" in n:
        return 0
    if "non" in n and "comp" in n:
        return 2
    if "comp" in n:
        return 1
    if "kernel" in n or "total" in n or "span" in n:
        return 3
    return None


def _as_four(ret):
    """the per-rank result as a 4-tuple in the order (idle, compute, non-compute, kernel): a plain tuple is positional, a NamedTuple is read by its field names"""
    if isinstance(ret, PyTuple):
        return ret
    if isinstance(ret, Obj) and isinstance(ret.attrs.get("__fields__"), list) and len(ret.attrs["__fields__"]) == 4:
        roles = [_role_of_field(f) for f in ret.attrs["__fields__"]]
        if sorted(r_ for r_ in roles if r_ is not None) == [0, 1, 2, 3]:
            by = dict(zip(roles, ret.attrs["__fields__"]))
            return PyTuple([ret.attrs[by[i]] for i in range(4)])
    return ret


def _per_rank_path(db, chk, where2, TR, r, calls, ptag):
    r.ret = _as_four(r.ret)
    if isinstance(r.ret, PyTuple) and len(r.ret.items) == 4 and len(calls) == 1:
        # only the device rows were merged: whatever compute_time is, it is not the measure of merged COMPUTATION intervals
        c1 = calls[0]
        kt_expected = KT.kernel_type_term(db, ("getitem", T.P("sym_table"), T.col(TR, "name")))
        M2 = merged_frame_of((TR, T.and_(c1["arg_ctx"][1], T.cmp("==", kt_expected, T.C("COMPUTATION"))), None), T.col(TR, "ts"), T.col(TR, "dur"))
        comp = to_term(r.ret.items[1])
        check_term(chk, "C04.R2-arithmetic", "2nd result: compute_time = measure of the union (merge_kernel_intervals) of the COMPUTATION rows" + ptag, where2, comp, [busy_term(M2)],
                   "the overlap groups of ALL device rows are not the overlap groups of the computation rows: re-using them counts gaps between computation kernels that other kernels bridge")
    elif not isinstance(r.ret, PyTuple) or len(r.ret.items) != 4 or len(calls) < 2:
        chk.ob("C04.R2-arithmetic", "idle_time_per_rank: two merges, four results" + ptag, None, where2,
               found=f"merges={len(calls)}")
    else:
        # the two merges the property is about: all device rows, and the COMPUTATION rows (further merges only matter through the result terms below)
        c1 = calls[0]
        c2 = next((c_ for c_ in calls[1:] if "'COMPUTATION'" in T.show(c_["arg_ctx"][1]) and "== 0]" in T.show(c_["arg_ctx"][1]) and not T.show(c_["arg_ctx"][1]).startswith("~")), calls[1])
        P1 = c1["arg_ctx"][1]
        # device predicate: truth table over the stream values the property allows
        tt = {}
        try:
            for sv in (-1, 0, 1, 7, 20):
                tt[sv] = bool(T.evaluate(P1, lambda leaf, sv=sv: sv if leaf == T.col(TR, "stream") else (_ for _ in ()).throw(T.Unknown(leaf))))
            okp = tt == {-1: False, 0: True, 1: True, 7: True, 20: True}
            chk.ob("C04.R2-device-rows", "device rows = every stream except -1 (stream 0 included: this property makes no assumption about stream ids)", okp, where2,
                   found={"predicate": T.show(P1), "truth_table": tt}, accepted={-1: False, 0: True, 1: True, 7: True, 20: True},
                   why="host rows in the sweep (or device rows missing, e.g. activities on stream 0 - this property does not presuppose positive stream ids) change span and idle")
        except T.Unknown as u:
            chk.ob("C04.R2-device-rows", "device rows predicate reads only the stream column", False, where2, found=T.show(P1),
                   accepted="a predicate over stream alone", why="a predicate that also looks at dur/cat drops device activities (e.g. zero-length ones at the span's ends)")
        chk.ob("C04.R2-device-rows", "merge input is the device rows in file order with their own ts/dur", c1["arg_ctx"][0] == TR and c1["ts"] == T.col(TR, "ts") and c1["dur"] == T.col(TR, "dur"),
               where2, found=[T._ctx(c1["arg_ctx"]), T.show(c1["ts"]), T.show(c1["dur"])], accepted="rows of the trace frame, columns ts and dur")
        # the COMPUTATION selection may be empty (a rank that only communicates / copies): its measure must be computed without positional row reads
        pos_reads = [e for e in r.events if e["kind"] == "iloc-row" and e.get("base") == c2["frame"].base]
        chk.ob("C04.R2-arithmetic", "compute_time is defined for a rank without computation kernels (no positional row read on the merged COMPUTATION intervals)" + ptag, not pos_reads, where2,
               found=[f"iloc[{e['pos']}] at line {e['line']}" for e in pos_reads] or "sums only", accepted="merged.end.sum() - merged.ts.sum()  (0 for an empty selection)",
               why="`.iloc[0]` / `.iloc[-1]` on the merged computation intervals raises IndexError for a rank whose device activities are all communication or memory copies")
        # kernel type column
        kt_expected = KT.kernel_type_term(db, ("getitem", T.P("sym_table"), T.col(TR, "name")))
        P2 = c2["arg_ctx"][1]
        acc_P2 = [T.and_(P1, T.cmp("==", kt_expected, T.C("COMPUTATION")))]
        check_term(chk, "C04.R2-arithmetic", "compute rows = device rows whose kernel type (of the decoded name) is COMPUTATION", where2, P2, acc_P2,
                   "compute_time must be the union of exactly the computation kernels")
        chk.ob("C04.R2-arithmetic", "compute merge uses the rows' own ts/dur", c2["ts"] == T.col(TR, "ts") and c2["dur"] == T.col(TR, "dur"), where2,
               found=[T.show(c2["ts"]), T.show(c2["dur"])], accepted="ts, dur")
        M1, M2 = c1["frame"], c2["frame"]
        idle, comp, nonc, kt = (to_term(x) for x in r.ret.items)
        spans = span_terms(M1)
        check_term(chk, "C04.R2-arithmetic", "4th result: kernel_time (span of all device rows)", where2, kt, spans)
        check_term(chk, "C04.R2-arithmetic", "1st result: idle_time", where2, idle, [T.sub(s, busy_term(M1)) for s in spans])
        check_term(chk, "C04.R2-arithmetic", "2nd result: compute_time = measure of merged computation kernels", where2, comp, [busy_term(M2)])
        check_term(chk, "C04.R2-arithmetic", "3rd result: non_compute_time = kernel_time - compute_time - idle_time", where2, nonc,
                   [T.sub(T.sub(s, busy_term(M2)), T.sub(s, busy_term(M1))) for s in spans],
                   "the three parts must add up to kernel_time exactly")



def run(db, chk) -> None:
    from ..specs.discipline import check_shared_trace_untouched
    check_shared_trace_untouched(db, chk, "C04.R-shared-trace")
    from ..specs.discipline import check_facade_stateless
    check_facade_stateless(db, chk, "C04.R-facade-stateless", ['get_temporal_breakdown'])
    from ..specs.discipline import check_stateless
    check_stateless(db, chk, "C04.R-stateless", ['hta.analyzers.breakdown_analysis'])      # the result is a function of the arguments: no state kept between calls, caller's Trace untouched
    chk.floor("C04.R-stateless", 4)
    check_merge(db, chk, "C04.R1-interval-union")
    chk.floor("C04.R1-interval-union", 8)
    m = db.mod(BA)
    cls = (m, "BreakdownAnalysis")
    hook = MergeHook()

    # ---------------------------------------------------------------- R2a span / idle
    ref = f"{BA}:BreakdownAnalysis._get_idle_time_for_kernels"
    I = Interp(db, call_hook=hook)
    runs = I.explore(ref, lambda I: {"kernels_df": Frame(("param", "K"))})
    fn = m.func("BreakdownAnalysis._get_idle_time_for_kernels")
    where = m.loc(fn)
    chk.analysed_add("functions", ref)
    if len(runs) != 1 or not isinstance(runs[0].ret, PyTuple) or len(runs[0].ret.items) != 2 or len(hook.calls) != 1:
        chk.ob("C04.R2-arithmetic", "_get_idle_time_for_kernels: one path, one merge, returns (idle, kernel_time)", None, where,
               found=f"paths={len(runs)} merges={len(hook.calls)} ret={T.show(to_term(runs[0].ret))[:200] if runs else None}")
    else:
        M = hook.calls[0]["frame"]
        chk.ob("C04.R2-arithmetic", "span and idle are measured on the merge of the rows passed in", hook.calls[0]["arg_ctx"] == (("param", "K"), T.TRUE, None)
               and hook.calls[0]["ts"] == T.col(("param", "K"), "ts") and hook.calls[0]["dur"] == T.col(("param", "K"), "dur"), where,
               found=T._ctx(hook.calls[0]["arg_ctx"]), accepted="all rows of the argument, unfiltered")
        idle, kt = (to_term(x) for x in runs[0].ret.items)
        spans = span_terms(M)
        check_term(chk, "C04.R2-arithmetic", "kernel_time = end of last merged interval - start of first", where, kt, spans,
                   "any other pair of rows/columns mis-measures the span")
        check_term(chk, "C04.R2-arithmetic", "idle_time = kernel_time - (sum(end) - sum(ts)) of the merged intervals", where, idle,
                   [T.sub(s, busy_term(M)) for s in spans], "idle is the part of the span covered by no merged interval")

    # ---------------------------------------------------------------- R2b per-rank parts
    # the per-rank function is found by ROLE (it may be a nested closure or a method): the callee of get_temporal_breakdown that measures merged intervals
    outer = m.func("BreakdownAnalysis.get_temporal_breakdown")
    per_rank_q = None
    for c_ in H.calls(outer, nested=False):
        nm_ = call_name(c_).split(".")[-1]
        # (a nested closure, a method, a module function, or the __call__ of a module-level callable class instantiated in the method)
        for q_ in (f"BreakdownAnalysis.get_temporal_breakdown.{nm_}", f"BreakdownAnalysis.{nm_}", nm_, f"{nm_}.__call__"):
            d_ = m.functions.get(q_)
            if d_ is not None and d_ is not outer and any(isinstance(x, ast.Call) and call_name(x).split(".")[-1] in ("merge_kernel_intervals", "_get_idle_time_for_kernels")
                                                          for g_ in H.with_private_callees(m, d_, depth=2) for x in ast.walk(g_)):
                per_rank_q = q_
    if per_rank_q is None:
        raise AnalysisError("get_temporal_breakdown: no per-rank callee that measures merged kernel intervals was found")
    per_rank_name = per_rank_q.split(".")[-1]
    ref2 = f"{BA}:{per_rank_q}"
    f2 = m.func(per_rank_q)
    where2 = m.loc(f2)
    TR = ("param", "TR")
    hook.reset()
    I = Interp(db, call_hook=hook)

    def role_args(I):
        out = {}
        for p_ in H.param_names(f2):
            if p_ == "self" and per_rank_q.endswith(".__call__") and per_rank_q.split(".")[0] in m.classes:
                # a callable object: built as its own __init__ does, constructor arguments given by role
                cq = per_rank_q.split(".")[0]
                init = m.functions.get(f"{cq}.__init__")
                ia = []
                for ip in (H.param_names(init)[1:] if init is not None else []):
                    if "sym" in ip:
                        ia.append(T.P("sym_table"))
                    elif "analy" in ip or ip in ("cls", "owner"):
                        ia.append(ClassRef(m, "BreakdownAnalysis"))
                    else:
                        raise AnalysisError(f"{cq}.__init__: role of parameter {ip} not recognised")
                out[p_] = I.pm.invoke(ClassRef(m, cq), ia, {}, f2)
            elif p_ in ("cls", "self"):
                out[p_] = Obj("cls", cls=cls)
            elif "sym" in p_:
                out[p_] = T.P("sym_table")
            elif "df" in p_ or "trace" in p_ or "kernel" in p_:
                out[p_] = Frame(TR)
            else:
                raise AnalysisError(f"{per_rank_q}: role of parameter {p_} not recognised")
        return out
    runs = I.explore(ref2, role_args, lambda I: {"cls": Obj("cls", cls=cls), "sym_table": T.P("sym_table")})
    chk.analysed_add("functions", ref2)
    ok_runs = [r for r in runs if r.raised is None]
    from ..specs.merge import merged_frame_of
    if not ok_runs or len(ok_runs) > 6:
        chk.ob("C04.R2-arithmetic", "idle_time_per_rank: analysable number of normal paths", None, where2, found=f"paths={len(ok_runs)}")
    for r in ok_runs:
        calls = [{"arg_ctx": e["arg_ctx"], "ts": e["ts"], "dur": e["dur"], "line": e["line"], "frame": merged_frame_of(e["arg_ctx"], e["ts"], e["dur"])} for e in r.events if e["kind"] == "merge-call"]
        ptag = (" [when " + T.show(r.cond())[:70] + "]") if len(ok_runs) > 1 else ""
        _per_rank_path(db, chk, where2, TR, r, calls, ptag)

    # ---------------------------------------------------------------- R2c plumbing and percentages
    ref3 = f"{BA}:BreakdownAnalysis.get_temporal_breakdown"
    f3 = m.func("BreakdownAnalysis.get_temporal_breakdown")
    where3 = m.loc(f3)
    parts = PyTuple([T.P("IDLE"), T.P("COMPUTE"), T.P("NONCOMPUTE"), T.P("KERNEL")])

    # the per-rank function may hand its four results over as a NamedTuple: the stand-in has the same class and field names (values by role)
    nt_fields = None
    for rn_ in [n for n in ast.walk(f2) if isinstance(n, ast.Return) and isinstance(n.value, ast.Call) and H.name_id(n.value.func) in m.classes]:
        cdef = m.classes[H.name_id(rn_.value.func)]
        if any(isinstance(b, ast.Name) and b.id == "NamedTuple" for b in cdef.bases):
            flds = [st_.target.id for st_ in cdef.body if isinstance(st_, ast.AnnAssign) and isinstance(st_.target, ast.Name)]
            if len(flds) == 4 and sorted(x for x in map(_role_of_field, flds) if x is not None) == [0, 1, 2, 3]:
                nt_fields = flds

    def hook3(I, name, pos, kw, node):
        if (name == per_rank_q) if per_rank_q.endswith(".__call__") else (name.split(".")[-1] == per_rank_name):
            if nt_fields is not None:
                o = Obj("per_rank_result", attrs={f_: parts.items[_role_of_field(f_)] for f_ in nt_fields})
                o.attrs["__fields__"] = list(nt_fields)
                return o
            return PyTuple(list(parts.items))
        if name.startswith("px.") or name.startswith("fig."):
            return None
        return NotImplemented

    I = Interp(db, call_hook=hook3)
    runs = I.explore(ref3, lambda I: {"cls": Obj("cls", cls=cls), "t": Obj("t", attrs={"traces": {T.P("RANK"): Frame(TR)},
                                                                                      "symbol_table": Obj("symtab")}),
                                      "visualize": False})
    chk.analysed_add("functions", ref3)
    if len(runs) != 1 or not isinstance(runs[0].ret, Frame):
        chk.ob("C04.R2-percentages", "get_temporal_breakdown(visualize=False): one path returning a frame", None, where3, found=f"paths={len(runs)}")
    else:
        R = runs[0].ret

        def cd(p):
            return ("coldata", ("list", (T.P(p),)))
        exp = {"rank": cd("RANK"), "idle_time(us)": cd("IDLE"), "compute_time(us)": cd("COMPUTE"), "non_compute_time(us)": cd("NONCOMPUTE"),
               "kernel_time(us)": cd("KERNEL")}
        for c, e in exp.items():
            check_term(chk, "C04.R2-percentages", f"column {c} carries the like-named per-rank result", where3, R.col(c), [e],
                       "a swapped column reports one part under another's name")
        for part in ("idle_time", "compute_time", "non_compute_time"):
            e = ("round", T.mul(T.C(100), T.div(cd(part.upper().replace("_TIME", "").replace("NON_COMPUTE", "NONCOMPUTE")), cd("KERNEL"))), T.C(2))
            check_term(chk, "C04.R2-percentages", f"{part}_pctg = round(100 * {part}(us) / kernel_time(us), 2)", where3, R.col(part + "_pctg"), [e],
                       "percentages are the parts over kernel_time")
        cn = R.colnames()
        need = {"rank", "idle_time(us)", "compute_time(us)", "non_compute_time(us)", "kernel_time(us)", "idle_time_pctg", "compute_time_pctg", "non_compute_time_pctg"}
        chk.ob("C04.R2-percentages", "returned frame has the eight documented columns", cn is not None and need <= set(cn), where3, found=cn, accepted=sorted(need))
    chk.floor("C04.R2-arithmetic", 9)
    chk.floor("C04.R2-percentages", 9)

    # ---------------------------------------------------------------- R3 classification chain
    KT.check_kernel_type(db, chk, "C04.R3-classification")

    # ---------------------------------------------------------------- R4 facade
    ta = db.mod("hta.trace_analysis")
    fac = ta.func("TraceAnalysis.get_temporal_breakdown")
    cs = [c for c in H.calls(fac) if isinstance(c.func, ast.Attribute) and c.func.attr == "get_temporal_breakdown"]
    if len(cs) != 1:
        raise AnalysisError("TraceAnalysis.get_temporal_breakdown: delegation call not found")
    b = H.bind_call(f3, cs[0])

    for _p, _src, _v in H.rebinds_of_params(fac, ["visualize"]):
        chk.ob("C04.R-facade-integrity", f"facade forwards parameter {_p} unmodified", _v == "default-if-none", ta.loc(fac), found=_src, accepted="no re-binding, or `if p is None: p = <default>`",
               why="`p = p or default` replaces legitimate falsy values (a threshold of 0, an empty selection) by the default")
    chk.ob("C04.R4-facade", "facade passes its trace and its visualize flag to the like-named parameters",
           H.is_self_attr(b.get("t"), "t") and H.name_id(b.get("visualize")) == "visualize", ta.loc(cs[0]),
           found={k: ast.unparse(v) for k, v in b.items()}, accepted={"t": "self.t", "visualize": "visualize"})
