"""C01 - loaded events are a faithful, uniformly time-shifted image of the trace file (structural clauses)."""
from __future__ import annotations

import ast
import glob
import os

from ..core import terms as T
from ..core import asthelp as H
from ..core.interp import Interp, assume
from ..core.progdb import AnalysisError, REPO
from ..core.values import Frame, Obj, PyTuple, to_term
from ..specs.merge import check_term, _uninterpreted
from ..specs.endcoherence import check_end_coherence
from .c11 import check_rank_association

EXPLANATION = (
    "Symbolic evaluation of the JSON back end (trace_parser._parse_trace_dataframe_json, round_down_time_stamps, _compress_df, "
    "utils.normalize_gpu_stream_numbers) on all of its paths, of Trace._align_all_ranks for two symbolic ranks, of parse_trace_file / load_traces, and "
    "the YAML argument specs read as data. Decides: the returned row set is exactly {dur and cat present} minus the rows whose cat is 'Trace' (both the "
    "label-drop and the boolean form accepted), on every path; the id column is the position in the event list; rounding is ts=ceil(ts), "
    "end=floor(un-rounded ts + dur), dur=end-ts; one shift = minimum over all ranks of the per-rank minimum ts, stored in min_ts and subtracted from every "
    "rank; end = ts + dur at the exits of parse-only and full load (typestate); cat/name are encoded through the id map of the very table that is returned "
    "and that was fed both columns' symbols; stream is int(stream) with fallback -1; stream / correlation specs have name == raw_name and default -1; "
    "load_traces indexes each frame by the id column without dropping it. The ijson back ends are not analysed (ijson absent)."
    " Later additions: rank/file association of the loaders, the trim and its guard (shared with C12) as the only row removal, full-width time columns in the parser and in _align_all_ranks, integer-only coercion, ids handed out by the per-file table."
)
TP = "hta.common.trace_parser"
TM = "hta.common.trace"


def run(db, chk) -> None:
    _parser(db, chk)
    _rounding(db, chk)
    _shift(db, chk)
    check_end_coherence(db, chk, "C01.R5-end-coherence")
    from .c11 import check_reencoding
    from .c12 import check_trim, check_trim_guard
    check_trim(db, chk, "C01.R9-only-the-trailing-step-is-removed")          # the one row removal on the load path (decided in full by C12)
    check_trim_guard(db, chk, "C01.R9-only-the-trailing-step-is-removed")
    from ..specs.endcoherence import check_parser_time_dtype
    check_parser_time_dtype(db, chk, "C01.R10-time-dtype")
    check_rank_association(db, chk, "C01.R8-rank-file-association")   # a rank's frame and metadata come from THAT rank's file
    chk.floor("C01.R8-rank-file-association", 4)
    check_reencoding(db, chk, "C01.R6-re-encoding")     # after loading a set of ranks every rank's rows decode to the file's names
    _yaml(db, chk)
    _load(db, chk)


def _parser(db, chk, enc_rule="C01.R6-encode-agreement", full=True):
    m = db.mod(TP)
    ref = f"{TP}:_parse_trace_dataframe_json"
    fn = m.func("_parse_trace_dataframe_json")
    where = m.loc(fn)
    tables = []

    def hook(I, name, pos, kw, node):
        if name == "parse_trace_dict":
            return {"traceEvents": T.P("EVENTS"), "schemaVersion": T.P("M")}
        if name.endswith(".add_symbols") or name.endswith(".get_sym_id_map"):
            recv = I.eval(node.func.value)
            if isinstance(recv, Obj) and recv.name.startswith("TraceSymbolTable#"):
                if name.endswith(".add_symbols"):
                    tables.append(("add", to_term(pos[0])))
                    # what the call leaves behind, for code that reads the containers directly instead of through get_sym_id_map()
                    if isinstance(recv.attrs.get("sym_index"), dict) and not recv.attrs["sym_index"]:
                        recv.attrs["sym_index"] = T.P("LOCAL_ID_MAP")
                    return None
                return T.P("LOCAL_ID_MAP")
        return NotImplemented

    I = Interp(db, call_hook=hook, max_paths=4000)
    runs = I.explore(ref, lambda I: {"trace_file_path": "x.json", "cfg": Obj("cfg")})
    chk.analysed_add("functions", [ref, f"{TP}:_compress_df", f"{TP}:round_down_time_stamps", "hta.utils.utils:normalize_gpu_stream_numbers"])
    ok_runs = [r for r in runs if r.raised is None and isinstance(r.ret, PyTuple) and isinstance(r.ret.items[1], Frame)]
    chk.analysed_add("paths", {"_parse_trace_dataframe_json": len(runs)})
    if not ok_runs or len(ok_runs) != len(runs):
        chk.ob("C01.R1-row-set", "every path of the JSON back end returns (meta, frame, table)", None, where, found=f"{len(ok_runs)}/{len(runs)}")
        return
    B = ("records", T.P("EVENTS"), ())
    # (a path on which the file holds no event list hands back an EMPTY frame - pd.DataFrame() - : nothing to be faithful to; the paths that build the frame from the events are judged)
    _empty = lambda f_: isinstance(f_.base, tuple) and len(f_.base) == 3 and f_.base[0] == "records" and f_.base[1] == T.C(None) and f_.rows == T.TRUE and not f_.cols
    if any(not _empty(r.ret.items[1]) for r in ok_runs):
        ok_runs = [r for r in ok_runs if not _empty(r.ret.items[1])]
    seen_rows, seen_idx, seen_cat, seen_stream, seen_tab = {}, {}, {}, {}, {}
    for r in ok_runs:
        f = r.ret.items[1]
        seen_rows.setdefault(f.rows, 0)
        seen_rows[f.rows] += 1
        seen_idx.setdefault(f.col("index"), 0)
        seen_idx[f.col("index")] += 1
        seen_cat.setdefault((f.col("cat"), f.col("name")), 0)
        seen_cat[(f.col("cat"), f.col("name"))] += 1
        if f.has("stream") is not False:
            seen_stream.setdefault(f.col("stream"), 0)
            seen_stream[f.col("stream")] += 1
        t = r.ret.items[2]
        seen_tab.setdefault(t.name.split("#")[0] if isinstance(t, Obj) else repr(t), 0)
    # ---- R1 row set
    for rows, n in (seen_rows.items() if full else ()):
        conj = set(rows[1]) if rows[0] == "and" else {rows}
        nn = [c for c in conj if c[0] == "notnull"]
        dur_terms = [c[1] for c in nn if c[1] != T.col(B, "cat")]
        ok_nn = ("notnull", T.col(B, "cat")) in conj and len(nn) == 2 and len(dur_terms) == 1 and \
            T.strip_casts(dur_terms[0], only_full_width=False) in (T.col(B, "dur"), T.sub(("floor", T.add(T.col(B, "ts"), T.col(B, "dur"))), ("ceil", T.col(B, "ts"))))
        rest = [c for c in conj if c not in nn]
        TRACE = T.cmp("==", T.col(B, "cat"), T.C("Trace"))
        ok_tr = False
        if len(rest) == 1:
            x = rest[0]
            if x == T.not_(TRACE):
                ok_tr = True
            elif x[0] == "not" and x[1][0] == "index_in":
                _, idx_t, labels, lctx = x[1]
                lconj = set(lctx[1][1]) if lctx[1][0] == "and" else {lctx[1]}
                ok_tr = idx_t == labels and lctx[0] == B and TRACE in lconj and all(c == TRACE or c in nn for c in lconj)
        chk.ob("C01.R1-row-set", f"rows returned ({n} paths) = entries with a duration and a category, minus the profiler's own 'Trace' span - and nothing else", ok_nn and ok_tr, where,
               found=T.show(rows)[:400], accepted="notnull(dur) & notnull(cat) & ~(cat == 'Trace')",
               why="a wider dropna subset loses complete events without args; a narrower one lets metadata/flow/instant entries through; any third operation loses or duplicates rows")
    # ---- R2 position identity
    for it, n in (seen_idx.items() if full else ()):
        chk.ob("C01.R2-position-identity", f"id column ({n} paths) = position of the entry in the file's event list", it == ("index", B), where, found=T.show(it)[:160], accepted="index(frame built from traceEvents)",
               why="every consumer that addresses raw_events[index] (critical-path overlay) would mark another event")
    # ---- R6 encode / decode agreement
    MAP = T.P("LOCAL_ID_MAP")
    for (c, n_), n in seen_cat.items():
        ok = c in (("getitem", MAP, T.col(B, "cat")), ("mapf", "<lambda", ("getitem", MAP, T.col(B, "cat")))) and n_ in (("getitem", MAP, T.col(B, "name")),)
        if not ok and (_uninterpreted(c) or _uninterpreted(n_)):
            ok = None      # encoded through a library function the evaluator has no model for (e.g. pd.factorize): not understood
        chk.ob(enc_rule, f"cat and name ({n} paths) are encoded through the id map of the local symbol table", ok, where, found=[T.show(c)[:120], T.show(n_)[:120]],
               accepted=["id_map[cat]", "id_map[name]"])
    adds = {a for k, a in tables if k == "add"}
    both = adds and all(T.find(a, lambda s: s[0] == "unique" and s[1] == T.col(B, "cat")) and T.find(a, lambda s: s[0] == "unique" and s[1] == T.col(B, "name")) for a in adds)
    if not both and any(_uninterpreted(a) for a in adds):
        both = None
    chk.ob(enc_rule, "the symbols added to that table cover the distinct values of both cat and name", both if both is None else bool(both), where, found=[T.show(a)[:200] for a in list(adds)[:2]],
           accepted="set(cat.unique()) | set(name.unique())", why="a symbol missing from the table makes the encoding lambda raise KeyError or mis-decode")
    chk.ob(enc_rule, "the table returned is the table the frame was encoded with", list(seen_tab) == ["TraceSymbolTable"], where,
           found=list(seen_tab), accepted="the local TraceSymbolTable()")
    # ---- stream normalisation
    chk.floor(enc_rule, 3)
    if not full:
        return
    for stt, n in seen_stream.items():
        if stt == T.col(B, "stream"):
            continue   # path on which the stream column is absent (error branch) or untouched
        vals = set()
        if T.as_cases(stt) is not None:
            vals = {v for c, v in T.as_cases(stt)}
        okst = vals == {("cast", "int", T.col(B, "stream")), T.C(-1)}
        chk.ob("C01.R7-stream-sentinel", f"stream ({n} paths) = int(stream), or the sentinel -1 when it is not a number", okst, where, found=[T.show(v)[:80] for v in vals] or T.show(stt)[:160],
               accepted=["int(stream)", "-1"], why="consumers test stream against -1 to tell host from device rows")
    chk.floor("C01.R1-row-set", 2)


def _rounding(db, chk, rule="C01.R3-rounding"):
    m = db.mod(TP)
    ref = f"{TP}:round_down_time_stamps"
    fn = m.func("round_down_time_stamps")
    where = m.loc(fn)
    F = ("param", "F")
    I = Interp(db)
    runs = [r for r in I.explore(ref, lambda I: {"df": Frame(F)}) if r.raised is None]
    TS, DUR = T.col(F, "ts"), T.col(F, "dur")
    rounded = 0
    for r in runs:
        f = r.env.get("df")
        if not isinstance(f, Frame):
            continue
        if not f.cols:
            # an early-return path leaves the frame untouched: acceptable only because ts is not float64, or because rounding was switched off by the option
            reasons = []
            for p_ in r.path:
                txt = T.show(p_)
                if "dtype(" in txt and "!= 0" in txt:
                    reasons.append("ts is not float64")
                if "HTA_DISABLE_NS_ROUNDING" in txt and ("== '1'" in txt or "truthy" in txt):
                    reasons.append("rounding disabled by option")
            other = [T.show(p_)[:100] for p_ in r.path if "dtype(" not in T.show(p_) and "HTA_DISABLE_NS_ROUNDING" not in T.show(p_)]
            chk.ob(rule, "timestamps are left unrounded only when they are not floats or rounding is disabled by the option", bool(reasons) and not other, where,
                   found={"path": [T.show(p_)[:100] for p_ in r.path]}, accepted="ts.dtype != float64, or HTA_DISABLE_NS_ROUNDING set",
                   why="any data-dependent shortcut (e.g. 'all starts are whole numbers') skips the inward rounding of fractional durations: end stays fractional", nontrivial=False)
            continue
        rounded += 1
        ts, end, dur = f.col("ts"), f.col("end"), f.col("dur")
        strip = lambda t: t[2] if isinstance(t, tuple) and t and t[0] == "aligned" else t
        ts, end = strip(ts), strip(end)
        check_term(chk, rule, "start is rounded up: ts = ceil(ts)", where, ts, [("ceil", TS)], "floor moves the start before the original span")
        check_term(chk, rule, "end is rounded down from the UN-rounded start: end = floor(ts + dur)", where, end, [("floor", T.add(TS, DUR))],
                   "ceil, or an end computed after ts was rounded, lets the rounded event leave its original span (ts=0.4, dur=0.4)")
        check_term(chk, rule, "dur = end - ts of the rounded values (no further adjustment)", where, dur, [T.sub(("floor", T.add(TS, DUR)), ("ceil", TS))],
                   "clipping dur and recomputing end pushes a sub-unit event's end beyond the file's end")
        wr = [e for e in r.events if e["kind"] == "frame-mutation" and e.get("column") in ("ts", "end", "dur")]
        chk.ob(rule, "exactly the three rounding stores (end0, ts, end, dur) and no later rewrite", [e["column"] for e in wr] == ["end", "ts", "end", "dur"], where,
               found=[e["column"] for e in wr], accepted=["end", "ts", "end", "dur"])
    chk.ob(rule, "rounding paths exist (float timestamps, rounding not disabled)", rounded >= 1, where, found=rounded, accepted=">= 1")
    chk.floor(rule, 5)


def _shift(db, chk, rule="C01.R4-uniform-shift"):
    tm = db.mod(TM)
    fn = tm.func("Trace._align_all_ranks")
    where = tm.loc(fn)
    R0, R1 = T.P("RANK0"), T.P("RANK1")
    T0, T1 = ("param", "TR", R0), ("param", "TR", R1)
    I = Interp(db, decide=assume(("hascol", T0, "end"), ("hascol", T1, "end")))
    runs = [r for r in I.explore(f"{TM}:Trace._align_all_ranks", lambda I: {"self": Obj("self", cls=(tm, "Trace"), attrs={"traces": {R0: Frame(T0), R1: Frame(T1)}})}) if r.raised is None]
    if not runs or len(runs) > 4:
        chk.ob(rule, "_align_all_ranks: at most four paths", None, where, found=len(runs))
        return
    for r_ in runs:          # every path must be the one uniform shift
        _shift_one(chk, rule, where, r_, R0, R1, T0, T1)
    _shift_inverse(db, chk, rule, tm)


def _shift_one(chk, rule, where, run_, R0, R1, T0, T1):
    s = run_.env["self"]
    mt = to_term(s.attrs.get("min_ts"))
    m0, m1 = T.agg("min", T.col(T0, "ts"), (T0, T.TRUE, None)), T.agg("min", T.col(T1, "ts"), (T1, T.TRUE, None))
    acc = [("reduce", "min", ("list", (m0, m1))), ("reduce", "min", ("list", (m1, m0))), T.min2(m0, m1)]
    check_term(chk, rule, "shift = minimum over ALL ranks of the per-rank earliest ts, stored as min_ts", where, mt, acc,
               "the first rank's minimum leaves another rank with negative start times; per-rank minima destroy cross-rank alignment")
    for rk, base in ((R0, T0), (R1, T1)):
        f = s.attrs["traces"].get(rk)
        check_term(chk, rule, f"{T.show(rk)}: ts = file ts - that one shared shift", where, f.col("ts") if isinstance(f, Frame) else T.opaque("no frame"),
                   [T.sub(T.col(base, "ts"), mt)])
        if isinstance(f, Frame):
            chk.ob(rule, f"{T.show(rk)}: duration untouched by the shift", f.col("dur") == T.col(base, "dur"), where, found=T.show(f.col("dur"))[:80], accepted="dur")


def _shift_inverse(db, chk, rule, tm):
    # inverse: decided on the evaluated counter events of convert_time_series_to_events - their ts is the series' ts plus the SAME attribute
    conv = tm.func("Trace.convert_time_series_to_events")
    S = ("param", "SER")
    I = Interp(db, decide=lambda c: None)
    try:
        runs = [r for r in I.explore(f"{TM}:Trace.convert_time_series_to_events",
                                     lambda I: {"self": Obj("self", cls=(tm, "Trace")), "series": Frame(S, known=["pid", "ts", "tid", "CNT", "name", "id"]), "counter_name": "CN", "counter_col": "CNT"})
                if r.raised is None and not isinstance(r.ret, list)]
    except AnalysisError:
        runs = []
    E = None
    if len(runs) == 1:
        E = next((v for v in runs[0].env.values() if isinstance(v, Frame) and v.has("ph") and v.base == S), None)
    want = T.add(T.col(S, "ts"), ("attr", ("obj", "self"), "min_ts"))
    got = E.col("ts") if E is not None else None
    chk.ob(rule, "the only consumer that un-shifts adds the same attribute back (+ self.min_ts)", None if got is None or T.has_opaque(got) else got == want, tm.loc(conv),
           found=T.show(got)[:120] if got is not None else f"{len(runs)} path(s), events frame not found", accepted=T.show(want))
    chk.floor(rule, 5)


def _yaml(db, chk):
    import yaml  # PyYAML from the repository's environment, used to read data only
    files = sorted(glob.glob(os.path.join(db.repo, "hta", "configs", "event_args_formats", "*.yaml")))
    if not files:
        raise AnalysisError("no event_args YAML file found")
    for fp in files:
        d = yaml.safe_load(open(fp))
        specs = d.get("AVAILABLE_ARGS", d)
        byname = {v.get("name"): (k, v) for k, v in specs.items() if isinstance(v, dict)}
        for col in ("stream", "correlation"):
            k, v = byname.get(col, (None, None))
            ok = v is not None and v.get("raw_name") == col and v.get("default_value") == -1 and str(v.get("value_type")) == "Int"
            chk.ob("C01.R6-arg-specs", f"{os.path.basename(fp)}: column {col} is read from the like-named arg with integer default -1", ok, os.path.relpath(fp, db.repo),
                   found=v, accepted={"name": col, "raw_name": col, "value_type": "Int", "default_value": -1},
                   why="-1 is the sentinel every consumer compares against (stream != -1, correlation != -1)")
    # the expansion of args uses raw_name / default_value of the same spec: decided on the evaluated column (whatever helper the expansion lives in)
    m = db.mod(TP)
    f = m.func("_compress_df")
    RAW = ("param", "RAWDF")
    spec = Obj("spec", attrs={"name": "ARGCOL", "raw_name": "RAW", "default_value": T.P("DEFAULT")})

    def hook(I, name, pos, kw, node):
        if name.endswith(".get_args"):
            return [spec]
        if name.endswith("get_default_cfg"):
            return Obj("cfg", attrs={"parse_all_args": False})
        if name == "normalize_gpu_stream_numbers":
            return None
        return NotImplemented
    I = Interp(db, call_hook=hook, max_paths=400, decide=lambda c: (False if "dtype" in T.show(c) else None))
    runs = I.explore(f"{TP}:_compress_df", lambda I: {"df": Frame(RAW, known=["ph", "cat", "name", "ts", "dur", "args", "index", "pid", "tid"]), "cfg": Obj("cfg", attrs={"parse_all_args": False})})
    got = set()
    for r in runs:
        if r.raised is None and isinstance(r.ret, PyTuple) and isinstance(r.ret.items[0], Frame) and r.ret.items[0].has("ARGCOL"):
            got.add(r.ret.items[0].col("ARGCOL"))
    A = T.col(RAW, "args")
    isd = ("isinstance", A, T.C("dict"))
    want_forms = [T.ite(isd, ("call", T.show(A) + ".get", T.C("RAW"), T.P("DEFAULT")), T.P("DEFAULT"))]
    shown = sorted(T.show(g)[:200] for g in got)
    ok = None
    if got:
        ok = all(("isinstance(" in T.show(g) and ".get('RAW', $DEFAULT)" in T.show(g) and T.show(g).count("$DEFAULT") == 2 and g[0] == "ite") for g in got)
        if not ok and any(T.has_opaque(g) for g in got):
            ok = None
    chk.ob("C01.R6-arg-specs", "args expansion: column arg.name = args.get(arg.raw_name, arg.default_value), default when args is not a dict", ok, m.loc(f),
           found=shown, accepted="ite(isinstance(args, dict), args.get(raw_name, default_value), default_value)",
           why="`args.get(raw_name) or default` replaces the legitimate values 0 / '' by the default (a kernel on stream 0 becomes a host event)")


def _load(db, chk):
    tm = db.mod(TM)
    lt = H.inline_helpers(tm, tm.func("Trace.load_traces"))
    si = [c for c in H.calls(lt) if isinstance(c.func, ast.Attribute) and c.func.attr == "set_index"]
    ok = len(si) == 1 and H.str_const(si[0].args[0] if si[0].args else None) == "index" and any(k.arg == "drop" and isinstance(k.value, ast.Constant) and k.value.value is False for k in si[0].keywords)
    chk.ob("C01.R7-event-id-index", "load_traces indexes every rank's frame by the id column and keeps the column (drop=False)", ok, tm.loc(lt), found=[ast.unparse(c) for c in si],
           accepted="set_index('index', drop=False)", why="analyses address events with .loc[event id] and also read the 'index' column")
    order = [c.func.attr for c in H.calls(lt) if isinstance(c.func, ast.Attribute) and H.is_self_attr(c.func) and c.func.attr in ("parse_traces", "align_and_filter_trace")]
    chk.ob("C01.R7-event-id-index", "load = parse, then align/trim, then index", order == ["parse_traces", "align_and_filter_trace"] and si and si[0].lineno > max(c.lineno for c in H.calls(lt) if isinstance(c.func, ast.Attribute) and c.func.attr == "align_and_filter_trace"),
           tm.loc(lt), found=order, accepted=["parse_traces", "align_and_filter_trace", "set_index"])
    ut = db.mod("hta.utils.utils")
    # the per-value normaliser is found by ROLE: the function reachable from normalize_gpu_stream_numbers (a closure of it or a private helper) that converts with int(..) under a try
    outer_n = ut.func("normalize_gpu_stream_numbers")
    cands = [g_ for q_, g_ in ut.functions.items() if q_.startswith("normalize_gpu_stream_numbers.")] + [g_ for g_ in H.with_private_callees(ut, outer_n, depth=2) if g_ is not outer_n]
    cands = [g_ for g_ in cands if any(isinstance(n, ast.Try) for n in ast.walk(g_)) and any(isinstance(n, ast.Call) and H.name_id(n.func) == "int" for n in ast.walk(g_))]
    cands = [g_ for i_, g_ in enumerate(cands) if not any(g_ is h_ for h_ in cands[:i_])]
    if len(cands) == 1:
        nf = cands[0]
        prm = (H.param_names(nf) or ["?"])[0]
        rets = [ast.unparse(n.value) for n in ast.walk(nf) if isinstance(n, ast.Return)]
        chk.ob("C01.R7-stream-sentinel", "stream normaliser: int(x) with fallback literal -1 (the sentinel)", rets == [f"int({prm})", "-1"], ut.loc(nf), found=rets, accepted=["int(<value>)", "-1"])
    else:
        chk.ob("C01.R7-stream-sentinel", "stream normaliser: int(x) with fallback literal -1 (the sentinel)", None, ut.loc(outer_n), found=f"{len(cands)} candidate function(s)", accepted=["int(<value>)", "-1"])
