"""C18 - trace filters are pure row selections with the documented predicates (structural clauses)."""
from __future__ import annotations

import ast

from ..core import terms as T
from ..core import asthelp as H
from ..core.interp import Interp, assume
from ..core.progdb import AnalysisError, walk_no_nested
from ..core.values import Frame, Obj, PyTuple, Ser, to_term, ClassRef

EXPLANATION = (
    "Symbolic evaluation of every Filter subclass's __call__ in hta/common/trace_filter.py on every path (helper filters and "
    "_filter_gpu_kernels_with_cuda_sync inlined) plus utils.get_symbol_column_names. Decides: purity - no mutation event on the input frame object or "
    "an alias; selection-only returns - every returned frame is the input itself, a row selection of it by a mask built from its own columns, the result of "
    "another filter applied to such, or an empty frame on a documented no-match path (never sorted / re-indexed / concatenated / merged / de-duplicated); "
    "the selection predicate of each filter equals its documented predicate (normal-form terms; side predicates as decision tables); row-locality: only the "
    "iteration-index filters use a frame-level reduction; no filter keeps call-to-call state (no attribute store in __call__); CompositeFilter threads the frame "
    "through its members in order with the symbol table; the string-column test uses a dtype idiom that accepts every pandas string dtype."
    " Later additions: the table passed with the frame takes precedence over a table held by the filter."
)
TF = "hta.common.trace_filter"
ROW_CHANGING = {"sort", "reset_index", "set_index", "concat", "join", "drop_duplicates", "row-subset", "drop-rows", "dropna", "melt", "groupby-agg", "rename", "drop-columns", "take"}


def _filters(db):
    m = db.mod(TF)
    out = []
    for q, c in m.classes.items():
        if q == "Filter":
            continue
        bases = [b.id for b in c.bases if isinstance(b, ast.Name)]
        chain = set(bases)
        for b in list(bases):
            if b in m.classes:
                chain |= {x.id for x in m.classes[b].bases if isinstance(x, ast.Name)}
        if "Filter" in chain or q == "QueryFilter":
            out.append(q)
    # a private class that only serves as the common base of other filters of the module is analysed through them (its __call__ is resolved by inheritance)
    def has_sub(q):
        return any(any(isinstance(b, ast.Name) and b.id == q for b in c.bases) for c in m.classes.values())
    out = [q for q in out if not (q.startswith("_") and has_sub(q))]
    return m, out


def _explore(db, m, cls, self_attrs, symtab, extra_decide=None):
    st = db.mod("hta.common.trace_symbol_table")
    DF = ("param", "DF")
    I = Interp(db, decide=extra_decide)
    call = I.find_method((m, cls), "__call__")
    if call is None:
        raise AnalysisError(f"{cls} has no __call__")
    ref = f"{call.mod.name}:{call.qualname}"
    runs = I.explore(ref, lambda I: {"self": Obj("self", cls=(m, cls), attrs=dict(self_attrs)), "df": Frame(DF),
                                     "symbol_table": Obj("symtab", cls=(st, "TraceSymbolTable")) if symtab else None})
    return DF, call, runs


def run(db, chk) -> None:
    m, filters = _filters(db)
    chk.analysed_add("filter_classes", filters)
    expected = {"IterationFilter", "IterationIndexFilter", "FirstIterationFilter", "RankFilter", "TimeRangeFilter", "NameStringColumnFilter", "NameIdColumnFilter",
                "NameFilter", "GPUKernelFilter", "CPUOperatorFilter", "CompositeFilter", "MemCopyEventFilter", "QueryFilter"}
    missing = expected - set(filters)
    if missing:
        raise AnalysisError(f"anchor vanished: filter classes {sorted(missing)}")
    DFb = ("param", "DF")
    ATTRS = {
        "IterationFilter": {"iterations": T.P("ITERS")}, "IterationIndexFilter": {"iteration_index": T.P("IDXS")}, "FirstIterationFilter": {"iteration_index": [0]},
        "RankFilter": {"ranks": T.P("RANKS")}, "TimeRangeFilter": {"time_start": T.P("START"), "time_end": T.P("END")},
        "NameStringColumnFilter": {"name_pattern": T.P("PATTERN")}, "NameIdColumnFilter": {"name_pattern": T.P("PATTERN"), "name_column": "name"},
        "NameFilter": {"name_pattern": T.P("PATTERN"), "symbol_table": None, "name_column": None}, "GPUKernelFilter": {}, "CPUOperatorFilter": {},
        "MemCopyEventFilter": {"memory_copy_type": T.P("COPYTYPE"), "symbol_table": None}, "QueryFilter": {"filter_query": "dur > 0"},
    }
    preds = {}
    for cls in filters:
        if cls == "CompositeFilter":
            continue
        if cls not in expected:
            # the property speaks about the documented filters (its list of predicates); a further Filter subclass has no documented predicate to be held against
            chk.note(f"C18: filter class {cls} is not one of the documented filters: not decided")
            continue
        for symtab in (True, False):
            tag = f"{cls}[{'with' if symtab else 'without'} symbol table]"
            try:
                DF, call, runs = _explore(db, m, cls, ATTRS.get(cls, {}), symtab)
            except AnalysisError as e:
                chk.ob("C18.R1-purity", f"{tag}: analysable", None, TF, found=str(e))
                continue
            where = call.mod.loc(call.node)
            chk.analysed_add("functions", f"{call.mod.name}:{call.qualname}")
            in_obj = None
            for r in runs:
                if r.raised is not None:
                    continue
                # R1 purity: no mutation event on the input frame object
                muts = [e for e in r.events if e["kind"] == "frame-mutation" and e.get("base") == DF and e.get("obj") == 1]
                chk.ob("C18.R1-purity", f"{tag} path [{T.show(r.cond())[:70]}]: the input frame is not modified", not muts, where,
                       found=[(e["what"], e.get("column"), e["line"]) for e in muts], accepted="no store / in-place operation on df or an alias")
                # no state kept in the filter object between calls
                st_ev = [e for e in r.events if e["kind"] == "attr-store" and e.get("obj") == "self"]
                chk.ob("C18.R1-purity", f"{tag} path [{T.show(r.cond())[:70]}]: the filter keeps no state between calls", not st_ev, where,
                       found=[(e["attr"], e["line"]) for e in st_ev], accepted="no attribute store on self inside __call__",
                       why="a cached selection makes the result depend on earlier calls (another table of the same size selects stale ids)")
                # R2 selection only
                R = r.ret
                if isinstance(R, Frame) and R.base == DF:
                    ops = [e for e in r.events if e["kind"] in ROW_CHANGING and e.get("base", DF) == DF and (e.get("dst") == R.obj or e.get("src") == R.obj)]
                    shape_ok = R.order is None and R.index is None and not R.cols and not R.dropped
                    chk.ob("C18.R2-selection-only", f"{tag} path [{T.show(r.cond())[:70]}]: result is the input or a row selection of it (order, ids and contents untouched)", shape_ok, where,
                           found={"order": T.show_order(R.order), "index": T.show(R.index) if R.index else None, "new_cols": list(R.cols), "ops": [e["kind"] for e in ops]},
                           accepted="df | df.loc[mask] | df[mask] | df.query(...)")
                    masks = T.find(R.rows, lambda s: s[0] == "foreignmask")
                    chk.ob("C18.R2-selection-only", f"{tag} path [{T.show(r.cond())[:70]}]: the mask is built from the frame's own rows", not masks, where, found=[T.show(x)[:100] for x in masks], accepted="mask over df")
                    preds.setdefault((cls, symtab), []).append((r.cond(), R.rows))
                elif isinstance(R, Frame) and R.base[0] in ("records", "newframe"):
                    preds.setdefault((cls, symtab), []).append((r.cond(), "EMPTY"))
                    chk.ob("C18.R2-selection-only", f"{tag} path [{T.show(r.cond())[:70]}]: empty frame on a no-match path", R.base[0] == "records" and R.base[1] == T.NONE, where,
                           found=T.show(R.base)[:100], accepted="pd.DataFrame()")
                else:
                    chk.ob("C18.R2-selection-only", f"{tag} path [{T.show(r.cond())[:70]}]: returns a frame derived from the input by selection", None if not isinstance(R, Frame) else False, where,
                           found=repr(R)[:160], accepted="selection of df")
    chk.floor("C18.R1-purity", 40)
    chk.floor("C18.R2-selection-only", 20)
    _predicates(db, chk, m, preds, DFb)
    _composite(db, chk, m)
    _constructors(db, chk, m)
    _string_detection(db, chk)
    _table_precedence(db, chk, m)
    for q, f_ in m.functions.items():
        sm = H.shared_state_mutations(m, f_)
        if sm or q.endswith("__call__") or "." not in q:
            chk.ob("C18.R1-purity", f"{q}: no state kept in module- or class-level containers", not sm, m.loc(f_), found=sm, accepted="none", why="a filter whose result depends on earlier calls is not a pure row selection")


def _sel(preds, cls, symtab):
    """the non-trivial selection predicates of a filter (paths that actually select)"""
    return [(c, p) for c, p in preds.get((cls, symtab), []) if p not in (T.TRUE, "EMPTY")]


def _predicates(db, chk, m, preds, DF):
    rule = "C18.R3-predicate"
    where = TF
    col = lambda c: T.col(DF, c)

    def one(cls, symtab, accepted, what, why=""):
        got = _sel(preds, cls, symtab)
        terms = sorted({p for _, p in got}, key=repr)
        ok = bool(terms) and all(p in accepted for p in terms)
        opaque = any(T.has_opaque(p) for p in terms)
        chk.ob(rule, f"{cls}: {what}", None if opaque or not terms else ok, where, found=[T.show(p)[:260] for p in terms], accepted=[T.show(a)[:260] for a in accepted], why=why)

    one("IterationFilter", True, [("in", col("iteration"), T.P("ITERS"))], "rows whose iteration is among the given ones")
    one("RankFilter", True, [("in", col("rank"), T.P("RANKS"))], "rows whose rank is among the given ones")
    tr = T.and_(T.cmp(">=", col("ts"), T.P("START")), T.cmp("<=", T.add(col("ts"), col("dur")), T.P("END")))
    one("TimeRangeFilter", True, [tr], "events fully inside the range: ts >= start and ts + dur <= end", "testing only the start keeps events that end after the range")
    # iteration index: i-th of the sorted unique non-negative iterations
    got = _sel(preds, "IterationIndexFilter", True)
    ok = bool(got)
    detail = []
    for c, p in got:
        uniq = T.find(p, lambda s: s[0] == "sorted")
        issorted = bool(uniq) and all(T.find(u, lambda s: s[0] == "unique" and s[1] == col("iteration")) for u in uniq)
        pos = T.find(p, lambda s: s[0] in ("pos", "enumerate") or (s[0] == "in" and s[2] == T.P("IDXS")))
        ok = ok and p[0] == "in" and p[1] == col("iteration") and issorted and bool(pos)
        detail.append(T.show(p)[:300])
    chk.ob(rule, "IterationIndexFilter: rows whose iteration is the i-th of the SORTED distinct iterations present (position test against the given indices)", ok if got else None, where,
           found=detail, accepted="iteration in [it for i, it in enumerate(sorted(unique(iteration)) minus -1) if i in indices]",
           why="without the sort the position depends on the order in which iterations first appear in the frame")
    # the -1 handling, decided by abstract runs: the distinct iterations of the frame are given (hooked `unique()`), the selected iterations are read off the result
    def selected(uniq, idxs):
        def hook(I, name, pos, kw, node):
            if name.endswith(".unique"):
                return list(uniq)
            return NotImplemented
        I = Interp(db, call_hook=hook, decide=assume(("hascol", DF, "iteration")))
        call = I.find_method((m, "IterationIndexFilter"), "__call__")
        try:
            runs = [r for r in I.explore(f"{call.mod.name}:{call.qualname}", lambda I: {"self": Obj("self", cls=(m, "IterationIndexFilter"), attrs={"iteration_index": list(idxs)}), "df": Frame(DF), "symbol_table": None})
                    if r.raised is None]
        except AnalysisError:
            return None
        if len(runs) != 1 or not isinstance(runs[0].ret, Frame) or runs[0].ret.base != DF:
            return None
        rows = runs[0].ret.rows
        if rows == T.TRUE:
            return "all rows"
        it = T.col(DF, "iteration")
        for v in range(-1, 9):
            pass
        try:
            return sorted(v for v in range(-1, 9) if bool(T.evaluate(rows, lambda leaf, v=v: v if leaf == it else (_ for _ in ()).throw(T.Unknown(leaf)))))
        except T.Unknown:
            return None
    cases = ((([-1, 3, 5, 7], [0, 2]), [3, 7]), (([5, 0, 2], [0]), [0]), (([-1], [0]), "all rows"), (([7, -1, 3], [1]), [7]), (([-1, 0, 4], [0, 1]), [0, 4]))
    got = [selected(*a) for a, _ in cases]
    wrong = [{"distinct iterations": a[0], "positions": a[1], "selected": g, "expected": w} for (a, w), g in zip(cases, got) if g is not None and g != w]
    f = m.func("IterationIndexFilter.__call__")
    chk.ob(rule, "IterationIndexFilter: positions count the SORTED distinct iterations without the -1 of 'outside every step' (iteration 0 keeps position 0; only -1 present: the frame itself)",
           None if any(g is None for g in got) and not wrong else not wrong, m.loc(f), found=wrong or got, accepted=[w for _, w in cases],
           why="dropping every non-positive value also removes iteration 0: positions shift by one; without the sort the position depends on the order of first appearance")
    # name filters
    sm = ("strmatch", "match", col("NAMECOL"), T.P("PATTERN"), ())
    gotn = _sel(preds, "NameStringColumnFilter", True)
    okn = bool(gotn) and all(p[0] == "strmatch" and p[1] == "match" and p[3] == T.P("PATTERN") and p[4] == () for _, p in gotn)
    chk.ob(rule, "NameStringColumnFilter: str.match(pattern) (anchored match) on the detected name column", okn if gotn else None, where, found=[T.show(p)[:200] for _, p in gotn],
           accepted="df[name_column].str.match(pattern)", why="contains() would select names that merely include the pattern")
    goti = _sel(preds, "NameIdColumnFilter", True)
    oki = bool(goti)
    for _, p in goti:
        oki = oki and p[0] == "in" and p[1] == col("name") and bool(T.find(p[2], lambda s: s[0] == "strmatch" and s[1] == "match" and s[3] == T.P("PATTERN"))) \
            and "sym_index" in T.show(p[2])
    chk.ob(rule, "NameIdColumnFilter: name id among the ids of the symbols of THE GIVEN table matching the pattern", oki if goti else None, where, found=[T.show(p)[:260] for _, p in goti],
           accepted="df['name'].isin(ids of symbols matching pattern)")
    # side predicates as decision tables
    from .c02 import _side_leaf, ES, CS, OTHER
    grid = [dict(stream=s, correlation=c, name=n) for s in (-1, 0, 7) for c in (-1, 0, 5) for n in (ES, CS, OTHER)]
    for cls, want in (("GPUKernelFilter", True), ("CPUOperatorFilter", False)):
        got = _sel(preds, cls, True)
        bad = []
        verdict = bool(got)
        for _, p in got:
            try:
                for v in grid:
                    spec = (v["stream"] >= 0 and v["correlation"] >= 0) or v["name"] in (ES, CS)
                    if bool(T.evaluate(p, _side_leaf(DF, v))) != (spec if want else not spec):
                        verdict = False
                        bad.append(v)
            except T.Unknown as u:
                verdict = None
                bad.append(T.show(u.args[0])[:100])
        chk.ob(rule, f"{cls} (with symbol table): {'device' if want else 'host'} side on all {len(grid)} abstract cases", verdict if got else None, where, found=bad[:3] or "all cases agree",
               accepted="(stream >= 0 & correlation >= 0) | name in {Event Sync, Context Sync}" + ("" if want else "  negated"))
        got2 = _sel(preds, cls, False)
        exp2 = T.and_(T.cmp(">=", col("stream"), T.C(0)), T.cmp(">=", col("correlation"), T.C(0))) if want else T.cmp("==", col("stream"), T.C(-1))
        chk.ob(rule, f"{cls} (without symbol table): documented fallback predicate", bool(got2) and all(p == exp2 for _, p in got2) if got2 else None, where, found=[T.show(p)[:160] for _, p in got2], accepted=T.show(exp2))
    gotm = _sel(preds, "MemCopyEventFilter", True)
    okm = bool(gotm)
    for _, p in gotm:
        conj = set(p[1]) if p[0] == "and" else {p}
        okm = okm and len(conj) == 2 and any(col("name") in T.find(c, lambda s: s[0] == "col") and "COPYTYPE" in T.show(c) for c in conj) \
            and any(col("cat") in T.find(c, lambda s: s[0] == "col") and "gpu_memcpy" in T.show(c) for c in conj)
    chk.ob(rule, "MemCopyEventFilter: name == id(copy type) and cat == id('gpu_memcpy')", okm if gotm else None, where, found=[T.show(p)[:260] for _, p in gotm], accepted="name.eq(id) & cat.eq(id('gpu_memcpy'))")
    # R4 row-locality
    for (cls, symtab), lst in sorted(preds.items()):
        if not symtab:
            continue
        def on_df(s):
            ctx = {"unique": 2, "valuesof": 2, "tolist": 2, "agg": 3, "win": 4}.get(s[0])
            return ctx is not None and len(s) > ctx and isinstance(s[ctx], tuple) and len(s[ctx]) == 3 and s[ctx][0] == DF
        frame_level = any(p not in (T.TRUE, "EMPTY") and T.find(p, on_df) for _, p in lst)
        expect_frame = cls in ("IterationIndexFilter", "FirstIterationFilter")
        chk.ob("C18.R4-row-locality", f"{cls}: predicate {'depends on the whole frame (position among iterations present)' if expect_frame else 'depends on the row alone'}",
               frame_level == expect_frame, where, found="frame-level reduction present" if frame_level else "row-local",
               accepted="frame-dependent" if expect_frame else "row-local", why="row-local + pure + selection-only gives intersection / commutation / idempotence of compositions")
    chk.floor(rule, 10)
    chk.floor("C18.R4-row-locality", 10)


def _composite(db, chk, m):
    """CompositeFilter.__call__ evaluated on three opaque members: the result is member3(member2(member1(df, st), st), st)"""
    f = m.func("CompositeFilter.__call__")
    ref = f"{m.name}:CompositeFilter.__call__"
    DFc = ("param", "CDF")
    members = [Obj("F1"), Obj("F2"), Obj("F3")]
    ST = T.P("SYMTAB")
    I = Interp(db)
    df0 = Frame(DFc)
    runs = [r for r in I.explore(ref, lambda I: {"self": Obj("self", cls=(m, "CompositeFilter"), attrs={"filters": list(members)}), "df": df0, "symbol_table": ST}) if r.raised is None]
    chk.analysed_add("functions", ref)
    ok, found = None, [f"{len(runs)} paths"]
    if len(runs) == 1:
        got = to_term(runs[0].ret)
        want = to_term(df0)
        for mem in members:
            want = ("call", mem.name, want, ST)
        found = [T.show(got)[:200]]
        calls = T.find(got, lambda s_: s_[0] == "call" and s_[1] in ("F1", "F2", "F3")) if isinstance(got, tuple) else []
        ok = True if got == want else (False if calls or got == to_term(df0) else None)
    if ok is None and 1 < len(runs) <= 64:
        # several paths (guards around the members): what each member is APPLIED TO can still be read off every path - a later member handed the caller's frame instead of the running
        # frame is not the sequential composition (members that select by position among the iterations PRESENT see other iterations)
        d0 = to_term(df0)
        later_on_original = []
        for r_ in runs:
            t_ = to_term(r_.ret) if r_.ret is not None else None
            for c_ in (T.find(t_, lambda s_: s_[0] == "call" and s_[1] in ("F2", "F3")) if isinstance(t_, tuple) else []):
                if len(c_) >= 3 and c_[2] == d0:
                    later_on_original.append(f"{c_[1]}(df, ...)")
        if later_on_original:
            ok, found = False, sorted(set(later_on_original))
    chk.ob("C18.R5-composite", "CompositeFilter applies its members in order to the running frame, passing the symbol table, and returns the last result", ok, m.loc(f), found=found,
           accepted="F3(F2(F1(df, symbol_table), symbol_table), symbol_table)")
    stores = H.attr_store_names(f, "self")
    chk.ob("C18.R5-composite", "CompositeFilter.__call__ keeps no state", not stores, m.loc(f), found=sorted(stores), accepted="none")


def _string_detection(db, chk):
    """R6: 'does this column hold decoded names' must accept every dtype pandas uses for strings"""
    ut = db.mod("hta.utils.utils")
    g = ut.func("get_symbol_column_names")
    # decided by abstract runs: which columns get_symbol_column_names picks on frames with known columns (string-ness per column given by the dtype test)
    def picked(cols):
        def hook(I, name, pos, kw, node):
            if name.endswith("is_string_dtype"):
                return cols.get(getattr(pos[0], "name", None)) if pos and isinstance(pos[0], Ser) else None
            return NotImplemented
        I = Interp(db, call_hook=hook)
        try:
            runs = [r for r in I.explore("hta.utils.utils:get_symbol_column_names", lambda I: {"df": Frame(("param", "DF"), known=list(cols))}) if r.raised is None]
        except AnalysisError:
            return None
        r = runs[0].ret if len(runs) == 1 and not runs[0].path else None
        return list(r.items) if isinstance(r, PyTuple) and all(isinstance(x, str) for x in r.items) else None
    cases = (({"name": True, "s_name": True, "cat": True, "s_cat": True}, ["name", "cat"]), ({"name": False, "s_name": True, "cat": False, "s_cat": True}, ["s_name", "s_cat"]),
             ({"name": False, "cat": False}, ["", ""]), ({"s_name": True, "cat": True}, ["s_name", "cat"]), ({"name": True, "s_name": False, "s_cat": True}, ["name", "s_cat"]))
    got = [picked(c) for c, _ in cases]
    wrong = [{"columns (is string)": c, "picked": g_} for (c, want), g_ in zip(cases, got) if g_ is not None and g_ != want]
    chk.ob("C18.R6-string-detection", "the decoded column is looked for under `name` / `cat` FIRST and under `s_name` / `s_cat` only otherwise (first match wins)",
           None if any(g_ is None for g_ in got) and not wrong else not wrong, ut.loc(g), found=wrong or got, accepted=[w for _, w in cases],
           why="preferring s_name makes NameFilter match the SHORTENED names of a frame that carries both: unanchored patterns select other rows")
    sites = [("hta.utils.utils", "get_symbol_column_names"), (TF, "NameStringColumnFilter.__call__")]
    for mn, q in sites:
        mod = db.mod(mn)
        f = mod.func(q)
        bad, good = [], []
        for n in (x for unit in H.with_private_callees(mod, f, depth=2) for x in ast.walk(unit)):
            if isinstance(n, ast.Compare) and any(isinstance(o, (ast.Eq, ast.NotEq, ast.Is, ast.IsNot)) for o in n.ops):
                txt = ast.unparse(n)
                if ("dtype" in txt) and any(k in txt for k in ("object", "'O'", '"O"', "np.object_", "str")):
                    bad.append(txt)
            if isinstance(n, ast.Call) and ast.unparse(n.func).endswith(("is_string_dtype", "is_object_dtype")):
                (good if ast.unparse(n.func).endswith("is_string_dtype") else bad).append(ast.unparse(n))
            if isinstance(n, ast.Compare) and any(isinstance(o, ast.In) for o in n.ops) and "dtype.kind" in ast.unparse(n.left if hasattr(n, "left") else n):
                ks = set(ast.literal_eval(n.comparators[0])) if isinstance(n.comparators[0], (ast.Tuple, ast.List, ast.Set, ast.Constant)) else set()
                (good if {"O", "U", "T"} <= set(ks) else bad).append(ast.unparse(n))
        chk.ob("C18.R6-string-detection", f"{mn}:{q} recognises string columns by a dtype test that accepts object, str and string dtypes", (bool(good) and not bad) if (good or bad) else None, mod.loc(f),
               found={"accepted_idioms": good, "rejected_idioms": bad}, accepted="pd.api.types.is_string_dtype(col) | dtype.kind in {'O','U','T'}",
               why="equality with object fails for pandas' str dtype: NameFilter on decoded names then returns every row (F5)", key=f"{mn}:{q.split('.')[0]}|dtype-eq-object")


def _table_precedence(db, chk, m):
    """Filter contract f(df, symbol_table): the table that comes WITH the frame decides how its ids decode; a table stored in the filter object
    is only a fallback.  Decided for the filters that can hold a table of their own (NameFilter, MemCopyEventFilter)."""
    rule = "C18.R7-table-precedence"
    st = db.mod("hta.common.trace_symbol_table")
    DF = ("param", "DF")
    for cls, attrs in (("NameFilter", {"name_pattern": T.P("PATTERN"), "name_column": None}), ("MemCopyEventFilter", {"memory_copy_type": T.P("COPYTYPE")})):
        I = Interp(db)
        call = I.find_method((m, cls), "__call__")
        if call is None:
            chk.ob(rule, f"{cls}.__call__ found", None, TF)
            continue
        ctor_tab, call_tab = Obj("CTOR_TABLE", cls=(st, "TraceSymbolTable")), Obj("CALL_TABLE", cls=(st, "TraceSymbolTable"))
        runs = I.explore(f"{call.mod.name}:{call.qualname}", lambda I: {"self": Obj("self", cls=(m, cls), attrs=dict(attrs, symbol_table=ctor_tab)), "df": Frame(DF), "symbol_table": call_tab})
        runs = [r for r in runs if r.raised is None and isinstance(r.ret, Frame)]
        uses = set()
        for r in runs:
            txt = T.show(r.ret.rows) if r.ret.base == DF else ""
            for e in r.events:
                if e["kind"] in ("filter",) and e.get("pred") is not None:
                    txt += T.show(e["pred"])
            if "CTOR_TABLE" in txt:
                uses.add("constructor table")
            if "CALL_TABLE" in txt:
                uses.add("call-time table")
        verdict = (uses == {"call-time table"}) if uses else None
        chk.ob(rule, f"{cls}: when a table is passed with the frame, ids are decoded with THAT table (a table held by the filter is only the fallback)", verdict, m.loc(call.node), found=sorted(uses) or "no table-dependent predicate seen",
               accepted="call-time table", why="`self.symbol_table or symbol_table` lets a filter built for trace X decode the ids of trace Y with X's table: unrelated names are selected")
    # a NameFilter built for the decoded column (name_column='s_name') and used WITH a table: the ids of the table are matched against the id column `name`
    I = Interp(db)
    call = I.find_method((m, "NameFilter"), "__call__")
    if call is not None:
        tab = Obj("CALL_TABLE", cls=(st, "TraceSymbolTable"))
        try:
            runs = [r for r in I.explore(f"{call.mod.name}:{call.qualname}", lambda I: {"self": Obj("self", cls=(m, "NameFilter"), attrs={"name_pattern": T.P("PATTERN"), "name_column": "s_name", "symbol_table": None}),
                                                                                       "df": Frame(DF, known=["name", "s_name", "cat", "ts", "dur"]), "symbol_table": tab})
                    if r.raised is None and isinstance(r.ret, Frame) and r.ret.base == DF]
        except AnalysisError:
            runs = []
        cols = set()
        for r in runs:
            for x in T.subterms(r.ret.rows):
                if isinstance(x, tuple) and len(x) == 3 and x[0] == "in" and "CALL_TABLE" in T.show(x[2]) and isinstance(x[1], tuple) and x[1][0] == "col":
                    cols.add(x[1][2])
        chk.ob(rule, "NameFilter(name_column='s_name') used with a table: the table's ids are matched against the id column `name` (the column argument belongs to the string branch)",
               (cols == {"name"}) if cols else None, m.loc(call.node), found=sorted(cols) or "no id membership test seen", accepted=["name"],
               why="ids looked up in the decoded string column select nothing")
    chk.floor(rule, 2)


def _constructors(db, chk, m):
    """the predicate analysed above is parameterised by the filter's attributes: the constructors hand the caller's values over unchanged (one integer becomes
    a one-element list, a list is kept as it is - negative numbers such as the 'outside every step' marker -1 and the value 0 included)"""
    rule = "C18.R8-constructor-keeps-values"
    table = {"IterationFilter": "iterations", "IterationIndexFilter": "iteration_index", "RankFilter": "ranks"}
    n = 0
    for cls, attr in table.items():
        init = m.functions.get(f"{cls}.__init__")
        if init is None:
            chk.ob(rule, f"{cls}.__init__ found", None, TF, found="inherited / absent")
            continue
        ps = [p_ for p_ in H.param_names(init) if p_ != "self"]
        if len(ps) != 1:
            chk.ob(rule, f"{cls}.__init__ takes the selection as its one argument", None, m.loc(init), found=ps)
            continue
        for val, want in ((7, [7]), (0, [0]), (-1, [-1]), ([-1, 0, 7, 7], [-1, 0, 7, 7])):
            I = Interp(db)
            selfo = Obj("self", cls=(m, cls))
            runs = [r for r in I.explore(f"{TF}:{cls}.__init__", lambda I: {"self": selfo, ps[0]: list(val) if isinstance(val, list) else val}) if r.raised is None]
            n += 1
            if len(runs) != 1:
                chk.ob(rule, f"{cls}({val!r}): one normal path", None, m.loc(init), found=len(runs))
                continue
            got = runs[0].env["self"].attrs.get(attr) if isinstance(runs[0].env.get("self"), Obj) else None
            conc = got if isinstance(got, list) and all(isinstance(x, int) for x in got) else None
            chk.ob(rule, f"{cls}({val!r}) selects by exactly the given value(s)", (conc == want) if conc is not None else None, m.loc(init), found=conc if conc is not None else T.show(to_term(got))[:100], accepted=want,
                   why="dropping or re-ordering values in the constructor (e.g. discarding negative numbers) makes IterationFilter(-1) - the events outside every profiler step - select nothing")
    # the time-range filter: (start, end) are stored as given (an empty range start == end and the value 0 included)
    init = m.functions.get("TimeRangeFilter.__init__")
    if init is not None:
        ps = [p_ for p_ in H.param_names(init) if p_ != "self"]
        for val in ((10, 20), (0, 0), (7, 7)):
            I = Interp(db)
            selfo = Obj("self", cls=(m, "TimeRangeFilter"))
            runs = [r for r in I.explore(f"{TF}:TimeRangeFilter.__init__", lambda I: {"self": selfo, ps[0]: PyTuple(list(val))}) if r.raised is None] if len(ps) == 1 else []
            got = (runs[0].env["self"].attrs.get("time_start"), runs[0].env["self"].attrs.get("time_end")) if len(runs) == 1 and isinstance(runs[0].env.get("self"), Obj) else None
            chk.ob(rule, f"TimeRangeFilter({val!r}) keeps the range as given", (got == val) if got is not None and all(isinstance(x, int) for x in got) else None, m.loc(init),
                   found=got if got is None or all(isinstance(x, int) for x in got) else [T.show(to_term(x))[:60] for x in got], accepted=val, why="a widened / narrowed or rejected degenerate range changes which events are 'fully inside'")
    chk.floor(rule, 12)
