"""C10 - critical-path breakdown conserves the path weight and attributes it correctly (structural clauses)."""
from __future__ import annotations

import ast

from ..core import terms as T
from ..core import asthelp as H
from ..core.interp import Interp
from ..core.progdb import AnalysisError, walk_no_nested
from ..core.values import Frame, Obj, PyTuple, to_term
from ..specs.merge import check_term

EXPLANATION = (
    "Decision-table extraction (symbolic path enumeration) of CPGraph._attribute_edge over edge type x (src.is_start, dest.is_start) and of bound_by over edge-type "
    "string x host/device x communication-kernel; enum/string agreement of every literal compared in bound_by; def-use rule for the parent recorded with last_node in "
    "the call-stack traversal; symbolic evaluation of get_critical_path_breakdown (one record per critical edge with duration = weight, type = enum value, "
    "event_idx = attribution; left merge on the unique event id; no row-changing operation afterwards) and of summary (per-class share of the total * 100). "
    "NOT decided: that the attributed event's span covers the edge's time range on every graph (follows from C03 + C08 behaviour at run time)."
    " Later additions: row-local classification functions, stateless symbol decoder, effect rules."
)
CP = "hta.analyzers.critical_path_analysis"


def run(db, chk) -> None:
    from ..specs.discipline import check_facade_stateless
    check_facade_stateless(db, chk, "C10.R-facade-stateless", ['critical_path_analysis'])
    from ..specs.discipline import check_stateless
    check_stateless(db, chk, "C10.R-stateless", ['hta.analyzers.critical_path_analysis'])      # the result is a function of the arguments: no state kept between calls, caller's Trace untouched
    chk.floor("C10.R-stateless", 4)
    check_stateless(db, chk, "C10.R-stateless", ["hta.common.trace_symbol_table"], scope=["decode_symbol_id_to_symbol_name"])    # the decoder the breakdown classifies names with
    m = db.mod(CP)
    _attribution(db, chk, m)
    _parents(db, chk, m)
    _bound_by(db, chk, m)
    from ..specs import kernel_type as KT
    KT.check_kernel_type(db, chk, "C10.R2-comm-kernel-language")      # what bound_by calls a communication kernel: is_comm_kernel's regular language
    _breakdown(db, chk, m)


def _attribution(db, chk, m):
    rule = "C10.R1-attribution-table"
    ref = f"{CP}:CPGraph._attribute_edge"
    fn = m.func("CPGraph._attribute_edge")
    where = m.loc(fn)
    members = sorted(m.enum_members("CPEdgeType"))
    chk.analysed_add("functions", ref)
    SRC, DST = T.P("SRC"), T.P("DST")

    def hook(I, name, pos, kw, node):
        return NotImplemented

    for ty in members:
        for ss in (True, False):
            for ds in (True, False):
                node = lambda nm, st: Obj(nm, attrs={"idx": T.P(f"{nm}.idx"), "ev_idx": T.P(f"{nm}.ev_idx"), "is_start": st, "ts": T.P(f"{nm}.ts")})
                self_obj = Obj("self", cls=(m, "CPGraph"), attrs={"node_list": {T.P("e.begin"): node("src", ss), T.P("e.end"): node("dst", ds)}, "edge_to_event_map": {}})
                e = Obj("e", attrs={"type": ("enum", "CPEdgeType", ty), "begin": T.P("e.begin"), "end": T.P("e.end"), "weight": T.P("e.weight")})
                I = Interp(db)
                runs = [r for r in I.explore(ref, lambda I: {"self": self_obj, "e": e, "src_parent": T.P("src_parent")}) if r.raised is None]
                tag = f"type={ty}, src {'start' if ss else 'end'} -> dest {'start' if ds else 'end'}"
                if not runs or len(runs) > 6:
                    chk.ob(rule, f"{tag}: analysable", None, where, found=len(runs))
                    continue
                want = None if ty not in ("OPERATOR_KERNEL", "KERNEL_KERNEL_DELAY") else (
                    T.P("src.ev_idx") if ty == "KERNEL_KERNEL_DELAY" else (T.P("src.ev_idx") if ss else (T.P("dst.ev_idx") if not ds else T.P("src_parent"))))
                key = ("tuple", (T.P("src.idx"), T.P("dst.idx")))
                for r in runs:      # every path (an extra condition on the attribution creates several) must give the table's value
                    mp = r.env["self"].attrs["edge_to_event_map"]
                    got = {to_term(k): to_term(v) for k, v in mp.items()}
                    ptag = tag + (f" [when {T.show(r.cond())[:60]}]" if r.path else "")
                    if want is None:
                        chk.ob(rule, f"{ptag}: dependency / launch / sync edges are not attributed to an event", not got, where, found={T.show(k): T.show(v) for k, v in got.items()}, accepted="no entry")
                        continue
                    val = got.get(key)
                    if isinstance(val, tuple) and val and val[0] == "cast":
                        val = val[2]
                    chk.ob(rule, f"{ptag}: attributed event", len(got) == 1 and val == want, where, found={T.show(k)[:60]: T.show(v)[:60] for k, v in got.items()}, accepted={"(src.idx, dest.idx)": T.show(want)},
                           why="(S,S),(S,E) -> src event; (E,E) -> dest event; (E,S) -> the parent recorded for src; kernel-to-kernel delay -> the kernel preceding the gap; nothing else may influence the choice")
    chk.floor(rule, 20)


def _split_attribution(m, f):
    """when _add_edge_helper itself attributes the edge it creates - a parameter P forwarded to self._attribute_edge(<new edge>, P) - a call
    `[e =] self._add_edge_helper(.., P=X)` is the pair `e = self._add_edge_helper(..); self._attribute_edge(e, X)` the rules below read.  Returns f or a rewritten copy."""
    import copy
    helper = m.functions.get("CPGraph._add_edge_helper")
    if helper is None:
        return f
    params = H.param_names(helper)
    fwd = [H.name_id(c.args[1]) for c in ast.walk(helper) if isinstance(c, ast.Call) and isinstance(c.func, ast.Attribute) and c.func.attr == "_attribute_edge" and len(c.args) == 2 and H.name_id(c.args[1]) in params]
    if len(set(fwd)) != 1:
        return f
    pname = fwd[0]
    g = copy.deepcopy(f)
    n_ = [0]

    def rewrite(block):
        out = []
        for s in block:
            for fld in ("body", "orelse", "finalbody"):
                b = getattr(s, fld, None)
                if isinstance(b, list) and b and isinstance(b[0], ast.stmt) and not isinstance(s, (ast.FunctionDef, ast.ClassDef)):
                    setattr(s, fld, rewrite(b))
            c = s.value if isinstance(s, (ast.Assign, ast.Expr)) else None
            if isinstance(c, ast.Call) and isinstance(c.func, ast.Attribute) and c.func.attr == "_add_edge_helper" and any(k.arg == pname for k in c.keywords):
                x = next(k.value for k in c.keywords if k.arg == pname)
                c.keywords = [k for k in c.keywords if k.arg != pname]
                if isinstance(s, ast.Assign) and isinstance(s.targets[0], ast.Name):
                    en = s.targets[0].id
                    first = s
                else:
                    n_[0] += 1
                    en = f"__edge{n_[0]}"
                    first = ast.copy_location(ast.Assign(targets=[ast.Name(id=en, ctx=ast.Store())], value=c), s)
                att = ast.copy_location(ast.Expr(value=ast.Call(func=ast.Attribute(value=ast.Name(id="self", ctx=ast.Load()), attr="_attribute_edge", ctx=ast.Load()),
                                                                 args=[ast.Name(id=en, ctx=ast.Load()), x], keywords=[])), s)
                ast.fix_missing_locations(first)
                ast.fix_missing_locations(att)
                out += [first, att]
                continue
            out.append(s)
        return out
    g.body = rewrite(g.body)
    return g


def _parents(db, chk, m):
    """the parent passed for case (E,S) is the parent recorded together with last_node.  The traversal variables are found by ROLE (the source of the
    attributed edge / the parent argument of the attribution); they may be nonlocal names or fields of one closure object."""
    rule = "C10.R1-parent-tracking"
    outer_q = "CPGraph._construct_graph_from_call_stack"
    outer = m.func(outer_q)
    outer_locals = {H.name_id(t) for t, v, s_ in H.assignments(outer, nested=False)} | set(H.param_names(outer))

    def key(e):
        if isinstance(e, ast.Name):
            return e.id
        if isinstance(e, ast.Attribute) and isinstance(e.value, ast.Name):
            return f"{e.value.id}.{e.attr}"
        return None

    def blocks(node):
        for fld in ("body", "orelse"):
            b = getattr(node, fld, None)
            if isinstance(b, list) and b and isinstance(b[0], ast.stmt):
                yield b
                for s in b:
                    yield from blocks(s)

    # the two traversal callbacks are found by ROLE: what is handed to dfs_traverse(enter, exit) - closures of the method, or methods of a visitor object built in it
    cbs = []
    for c_ in ast.walk(outer):
        if isinstance(c_, ast.Call) and isinstance(c_.func, ast.Attribute) and c_.func.attr == "dfs_traverse" and len(c_.args) + len(c_.keywords) == 2:
            for a_ in list(c_.args) + [k_.value for k_ in c_.keywords]:
                if isinstance(a_, ast.Name) and f"{outer_q}.{a_.id}" in m.functions:
                    cbs.append((a_.id, m.functions[f"{outer_q}.{a_.id}"], None))
                elif isinstance(a_, ast.Attribute) and isinstance(a_.value, ast.Name):
                    ctor = [v for t, v, s_ in H.assignments(outer, nested=False) if H.name_id(t) == a_.value.id and isinstance(v, ast.Call) and H.name_id(v.func) in m.classes]
                    if len(ctor) == 1 and f"{H.name_id(ctor[0].func)}.{a_.attr}" in m.functions:
                        cbs.append((f"{H.name_id(ctor[0].func)}.{a_.attr}", m.functions[f"{H.name_id(ctor[0].func)}.{a_.attr}"], H.name_id(ctor[0].func)))
    if len(cbs) != 2:
        raise AnalysisError(f"anchor vanished: the two traversal callbacks of {outer_q} (dfs_traverse(enter, exit)) were not found")
    for fname, f0, vis_cls in cbs:
        where = m.loc(f0)
        f = _split_attribution(m, H.inline_helpers(m, f0, exclude=("_add_edge_helper", "_attribute_edge")))
        params = [p_ for p_ in H.param_names(f0) if not (vis_cls is not None and p_ == "self")]
        nonlocals = {n_ for x in ast.walk(f) if isinstance(x, ast.Nonlocal) for n_ in x.names}
        own = set(params) | {H.name_id(t) for t, v, s_ in H.assignments(f) if isinstance(t, ast.Name)} - nonlocals

        def shared(k):
            """traversal state shared between the visits: a nonlocal name, or a field of an object of the enclosing traversal"""
            if k is None:
                return False
            if vis_cls is not None:
                return k.startswith("self.")          # a field of the visitor object lives across the visits
            base = k.split(".")[0]
            if "." in k:
                return base not in own and base in outer_locals
            return k in nonlocals
        calls = [c for c in ast.walk(f) if isinstance(c, ast.Call) and isinstance(c.func, ast.Attribute) and c.func.attr == "_attribute_edge"]
        if not calls or any(len(c.args) != 2 for c in calls):
            chk.ob(rule, f"{fname}: attribution calls recognised", None, where, found=[ast.unparse(c) for c in calls])
            continue
        pkeys = {key(c.args[1]) for c in calls}
        pk = next(iter(pkeys)) if len(pkeys) == 1 else None
        chk.ob(rule, f"{fname}: nesting edges are attributed with the parent recorded for the previous node (shared traversal state, not a value of the current visit)", len(pkeys) == 1 and shared(pk), where,
               found=[ast.unparse(c) for c in calls], accepted="self._attribute_edge(e, last_ev_parent)")
        # the attributed edge starts at the recorded last node
        nkeys = set()
        for c in calls:
            en = H.name_id(c.args[0])
            dv = [v for t, v, s_ in H.assignments(f) if H.name_id(t) == en] if en else []
            for v in dv:
                if isinstance(v, ast.Call) and isinstance(v.func, ast.Attribute) and v.func.attr == "_add_edge_helper" and v.args:
                    nkeys.add(key(v.args[0]))
                else:
                    nkeys.add(None)
            if not dv:
                nkeys.add(None)
        nk = next(iter(nkeys)) if len(nkeys) == 1 else None
        if nk is None or pk is None or not shared(pk):
            chk.ob(rule, f"{fname}: traversal variables recognised", None if shared(pk) or pk is None else False, where, found={"last node": sorted(map(str, nkeys)), "parent": sorted(map(str, pkeys))})
            continue
        chk.ob(rule, f"{fname}: the last node and its parent are shared traversal state", shared(nk) and shared(pk), where, found=[nk, pk], accepted="nonlocal names / fields of one traversal object")
        # every assignment last_node = <node> (not None) is paired, in the same block, with last_ev_parent = csnode.parent
        bad, n = [], 0
        cs = params[1] if len(params) > 1 else "csnode"
        for b in blocks(f):
            ln = [s for s in b if isinstance(s, ast.Assign) and key(s.targets[0]) == nk and not (isinstance(s.value, ast.Constant) and s.value.value is None)]
            lp = [s for s in b if isinstance(s, ast.Assign) and key(s.targets[0]) == pk and ast.unparse(s.value) == f"{cs}.parent"]
            for s in ln:
                n += 1
                if not lp:
                    bad.append(ast.unparse(s))
        chk.ob(rule, f"{fname}: whenever last_node moves to a node of the current event, last_ev_parent is set to that event's parent", (n >= 1 and not bad) if n else None, where, found={"moves": n, "unpaired": bad},
               accepted="last_node = <node>; last_ev_parent = csnode.parent", why="a stale parent attributes the gap between two siblings to a descendant of the operator just left")
    kf0 = m.func("CPGraph._construct_graph_from_kernels")
    kf = _split_attribution(m, H.inline_helpers(m, kf0, exclude=("_add_edge_helper", "_attribute_edge")))
    helper = m.func("CPGraph._add_edge_helper")
    stmts = [s for s in ast.walk(kf) if isinstance(s, ast.stmt)]
    spans, bad = 0, []
    for b in blocks(kf):
        for i, s in enumerate(b):
            c = s.value if isinstance(s, (ast.Assign, ast.Expr)) else None
            if not (isinstance(c, ast.Call) and isinstance(c.func, ast.Attribute) and c.func.attr == "_add_edge_helper" and H.is_self_attr(c.func)):
                continue
            bd = H.bind_call(helper, c)
            ty = ast.unparse(bd["type"]).split(".")[-1] if "type" in bd else "OPERATOR_KERNEL"
            if ty not in ("OPERATOR_KERNEL", "KERNEL_KERNEL_DELAY"):
                continue
            spans += 1
            en = H.name_id(s.targets[0]) if isinstance(s, ast.Assign) else None
            att = [x.value for x in b[i + 1:] if isinstance(x, ast.Expr) and isinstance(x.value, ast.Call) and isinstance(x.value.func, ast.Attribute) and x.value.func.attr == "_attribute_edge"
                   and len(x.value.args) == 2 and H.name_id(x.value.args[0]) == en]
            if en is None or not att or ast.unparse(att[0].args[1]) != "-1":
                bad.append(ast.unparse(s)[:80] + " / " + (ast.unparse(att[0]) if att else "not attributed"))
    chk.ob(rule, "device span and kernel-to-kernel edges are attributed with parent -1 (no nesting on a stream)", (not bad) if spans >= 2 else None, m.loc(kf0),
           found={"span/delay edges": spans, "not attributed with -1": bad}, accepted="e = self._add_edge_helper(..); self._attribute_edge(e, -1)")


def _bound_by(db, chk, m):
    rule = "C10.R2-bound-by-table"
    ref = f"{CP}:bound_by"
    fn = m.func("bound_by")
    where = m.loc(fn)
    enum = m.enum_members("CPEdgeType")
    chk.analysed_add("functions", ref)
    want_tbl = {"KERNEL_KERNEL_DELAY": "gpu_kernel_kernel_overhead", "KERNEL_LAUNCH_DELAY": "gpu_kernel_launch_overhead", "DEPENDENCY": "", "SYNC_DEPENDENCY": ""}

    comm_args = []

    def hook(I, name, pos, kw, node):
        if name == "is_comm_kernel":
            comm_args.append(to_term(pos[0]))
            return ("iscomm", to_term(pos[0]))
        if name == "pd.isna":
            return T.FALSE
        if name in ("is_memory_kernel", "is_compute_kernel"):          # other name classifiers: left open (every outcome is explored)
            return ("nameclass", name, to_term(pos[0]))
        return NotImplemented

    for mem, val in sorted(enum.items()):
        for stream in (-1, 7):
            for comm in (True, False):
                if mem != "OPERATOR_KERNEL" and (stream, comm) != (-1, False):
                    continue
                row = {"type": val, "s_name": T.P("NAME"), "stream": stream}
                # every other column of the merged table is present too, as an unknown: a decision that reads one of them shows up in the path conditions
                row.update({k_: T.P(f"row.{k_}") for k_ in ("s_cat", "cat", "pid", "tid", "index", "name", "duration", "event_idx", "dur", "ts", "correlation", "index_correlation")})
                I = Interp(db, call_hook=hook, decide=lambda c, comm=comm: comm if c == ("truthy", ("iscomm", T.P("NAME"))) else (not comm if c == ("not", ("truthy", ("iscomm", T.P("NAME")))) else None))
                runs = [r for r in I.explore(ref, lambda I: {"row": dict(row)}) if r.raised is None]
                tag = f"type={mem} ({val!r}), stream={stream}, communication kernel={comm}"
                want = want_tbl.get(mem) if mem in want_tbl else ("cpu_bound" if stream < 0 else ("gpu_communication_bound" if comm else "gpu_compute_bound"))
                if len(runs) > 1 and all(isinstance(r_.ret, str) for r_ in runs) and \
                        all(isinstance(x, tuple) and x[0] in ("nameclass", "iscomm", "truthy", "not", "and", "or", "param", "const") for r_ in runs for c_ in r_.path for x in T.subterms(c_) if isinstance(x, tuple) and x) and \
                        not any(isinstance(x, tuple) and len(x) == 2 and x[0] == "param" and x[1] != "NAME" for r_ in runs for c_ in r_.path for x in T.subterms(c_)):
                    # the paths differ only in what OTHER name classifiers say about the same name: the class must not depend on them
                    off = [{"when": T.show(r_.cond())[:120], "class": r_.ret} for r_ in runs if r_.ret != want]
                    chk.ob(rule, f"{tag}: class (whatever other name classifiers say about the name)", not off, where, found=off or want, accepted=want,
                           why="`every other device activity` is gpu_compute_bound: a classifier with a further class (OTHER for names containing Memcpy / Sync) leaves such kernels blank")
                    continue
                if len(runs) != 1:
                    others = sorted({x[1] for r_ in runs for c_ in r_.path for x in T.subterms(c_) if isinstance(x, tuple) and len(x) == 2 and x[0] == "param" and str(x[1]).startswith("row.")})
                    chk.ob(rule, f"{tag}: the class depends on the edge type, the host/device side (stream) and the kernel name alone", False if others else None, where, found={"outcomes": len(runs), "also reads": others},
                           accepted="row['type'], row['stream'], row['s_name']",
                           why="deciding host vs device by a category list misclassifies host events of a category the list omits (e.g. cuda_driver launches counted as gpu_compute_bound)")
                    continue
                want = want_tbl.get(mem) if mem in want_tbl else ("cpu_bound" if stream < 0 else ("gpu_communication_bound" if comm else "gpu_compute_bound"))
                got = runs[0].ret
                if not isinstance(got, str):
                    # a conditional EXPRESSION at the end (`a if is_comm else b`) is a value-level decision: resolve it with the case's own truth value
                    try:
                        got = _eval_value(to_term(got), lambda leaf, comm=comm: comm if leaf in (("truthy", ("iscomm", T.P("NAME"))), ("iscomm", T.P("NAME"))) else (_ for _ in ()).throw(T.Unknown(leaf)))
                    except T.Unknown:
                        pass
                chk.ob(rule, f"{tag}: class", got == want, where, found=got if isinstance(got, str) else T.show(to_term(got))[:80], accepted=want,
                       why="delay edges -> their overhead class; host thread -> cpu_bound; communication kernel -> gpu_communication_bound; other device activity -> gpu_compute_bound")
    # enum / string agreement: every string literal compared with row['type'] is the value of a CPEdgeType member
    lits = set()
    for n in (x for unit in H.with_private_callees(m, fn, depth=2) for x in ast.walk(unit)):
        if isinstance(n, ast.Compare):
            for c in n.comparators:
                for x in ast.walk(c):
                    if isinstance(x, ast.Constant) and isinstance(x.value, str) and (x.value.startswith("critical_path") or "row['type']" in ast.unparse(n.left)):
                        lits.add(x.value)
    # (which members are tested is decided by the table above; here only: no literal that is not an edge-type value; references CPEdgeType.X.value are fine)
    chk.ob(rule, "every edge-type string literal tested in bound_by is the value of a CPEdgeType member", lits <= set(enum.values()), where, found=sorted(lits), accepted=sorted(enum[k] for k in want_tbl),
           why="a misspelt literal sends delay edges to the compute/cpu classes")
    # decided on the evaluated paths: what is_comm_kernel was asked about
    seen = sorted({T.show(a) for a in comm_args})
    chk.ob(rule, "communication kernels are recognised on the (decoded) event name", (seen == [T.show(T.P("NAME"))]) if seen else None, where, found=seen, accepted="is_comm_kernel(row['s_name'])")
    chk.floor(rule, 8)


def _eval_value(t, leaf):
    """evaluate a value-producing term (cases / ite chains over boolean terms) on representatives"""
    if t[0] == "cases":
        hits = [v for c, v in t[1] if T.evaluate(c, leaf)]
        if len(hits) != 1:
            raise T.Unknown(("cases", len(hits)))
        return _eval_value(hits[0], leaf)
    if t[0] == "ite":
        return _eval_value(t[2] if T.evaluate(t[1], leaf) else t[3], leaf)
    if t[0] in ("mapf",) and len(t) == 3:
        return _eval_value(t[2], leaf)
    if t[0] == "const":
        return t[1]
    return T.evaluate(t, leaf)


def _breakdown(db, chk, m):
    rule = "C10.R3-conservation"
    ref = f"{CP}:CPGraph.get_critical_path_breakdown"
    fn = m.func("CPGraph.get_critical_path_breakdown")
    where = m.loc(fn)
    TD = ("param", "TD")
    chk.analysed_add("functions", ref)

    def hook(I, name, pos, kw, node):
        if name == "decode_symbol_id_to_symbol_name":
            return None
        return NotImplemented

    I = Interp(db, call_hook=hook)
    self_obj = lambda: Obj("self", cls=(m, "CPGraph"), attrs={"critical_path_nodes": [1, 2], "trace_df": Frame(TD), "symbol_table": Obj("symtab"), "critical_path_edges_set": T.P("CRITICAL_EDGES"),
                                                             "edge_to_event_map": T.P("EDGE_MAP")})
    runs = [r for r in I.explore(ref, lambda I: {"self": self_obj()}) if r.raised is None and isinstance(r.ret, Frame)]
    if len(runs) != 1:
        chk.ob(rule, "get_critical_path_breakdown: one path returning a frame", None, where, found=len(runs))
        return
    r = runs[0]
    R = r.ret
    if R.base[0] != "join":
        chk.ob(rule, "breakdown = edge records merged with the trace frame", None if T.has_opaque(R.base) else False, where, found=T.show(R.base)[:160], accepted="pd.merge(edge_df, trace_df[...], how='left')")
        return
    _, how, Lc, Rc, lk, rk, sfx = R.base
    recs = T.find(Lc[0], lambda s: s[0] == "comp")
    okrec = False
    if Lc[0][0] == "records" and recs:
        comp = recs[0]
        body = comp[2]
        it = comp[3]
        okrec = it == T.P("CRITICAL_EDGES") and comp[4] == T.TRUE and body[0] == "dict"
        fields = {k[1]: v for k, v in body[1]} if okrec else {}
        e = ("elem", T.P("CRITICAL_EDGES"))
        okrec = okrec and set(fields) == {"event_idx", "duration", "type"} and fields["duration"] == ("attr", e, "weight") and \
            fields["type"] in (("str", ("attr", ("attr", e, "type"), "value")), ("attr", ("attr", e, "type"), "value")) and \
            T.find(fields["event_idx"], lambda s: s == ("attr", e, "begin")) and T.find(fields["event_idx"], lambda s: s == ("attr", e, "end")) and "EDGE_MAP" in T.show(fields["event_idx"])
    chk.ob(rule, "one record per critical edge (no filter): duration = the edge's weight, type = the edge type's value, event_idx = the edge's attribution", bool(okrec), where,
           found=T.show(Lc[0])[:300], accepted="{event_idx: edge_to_event_map.get((e.begin, e.end)), duration: e.weight, type: e.type.value} for e in critical_path_edges_set")
    chk.ob(rule, "records are joined to the trace frame with a LEFT join on event_idx = index (row count preserved: the id is unique)", how == "left" and Lc[1] == T.TRUE and Rc[0] == TD and Rc[1] == T.TRUE
           and rk == (T.col(TD, "index"),) and len(lk) == 1 and "event_idx" in T.show(lk[0]), where, found=[how, T.show(lk)[:80], T.show(rk)[:80]], accepted=["left", "event_idx", "index"],
           why="an inner join drops edges without attribution (dependency/sync edges), an outer join adds every event of the trace")
    ev = [e for e in r.events if e["func"].endswith("get_critical_path_breakdown")]
    after = [e for e in ev if e["kind"] in ("drop_duplicates", "filter", "drop-rows", "row-subset", "dropna", "groupby-agg", "concat") and e["line"] > [x for x in ev if x["kind"] == "join"][0]["line"]]
    chk.ob(rule, "no row of the merged table is removed, merged or duplicated afterwards", not after and R.rows == T.TRUE, where, found=[(e["kind"], e["line"]) for e in after], accepted="none",
           why="de-duplication collapses two critical edges with equal (event, type, duration): rows and durations no longer add up to the path")
    # the classification is applied row by row by a function of the row alone
    gb = m.func("CPGraph.get_critical_path_breakdown")
    appl = [c for c in ast.walk(gb) if isinstance(c, ast.Call) and isinstance(c.func, ast.Attribute) and c.func.attr in ("apply", "map") and c.args and isinstance(c.args[0], ast.Name)]
    for c in appl:
        fname = c.args[0].id
        fdef = m.functions.get(f"CPGraph.get_critical_path_breakdown.{fname}") or m.functions.get(fname)
        if fdef is None:
            chk.ob(rule, f"row-wise function {fname} resolved", None, m.loc(c), found=fname)
            continue
        st_ = H.rowwise_state(gb, fdef)
        chk.ob(rule, f"row-wise function {fname}: the value for a row depends on that row alone (no container outside the call is written)", not st_, m.loc(fdef), found=st_ or "row-local",
               accepted="a pure function of the row", why="a per-event cache filled by the first edge of an event gives every later edge of that event the first edge's class (a delay edge attributed to a kernel becomes compute-bound)")
    bb = R.col("bound_by")
    enum = m.enum_members("CPEdgeType")
    tbl = {"KERNEL_KERNEL_DELAY": "gpu_kernel_kernel_overhead", "KERNEL_LAUNCH_DELAY": "gpu_kernel_launch_overhead", "DEPENDENCY": "", "SYNC_DEPENDENCY": ""}
    bad, verdict = [], (None if T.has_opaque(bb) else True)
    any_false = []
    if verdict:
        for mem, val in sorted(enum.items()):
            for stream in (-1, 7):
                for comm in (True, False):
                    def leaf(x, val=val, stream=stream, comm=comm):
                        y = x
                        while isinstance(y, tuple) and y and y[0] in ("nullable", "fillna"):
                            y = y[1]
                        if isinstance(y, tuple) and y and y[0] == "jl" and "'type'" in T.show(y[2])[:200] and "reccol" in T.show(y[2])[:40]:
                            return val
                        if isinstance(y, tuple) and y and y[0] == "jl" and y[2][0] == "reccol" and "type" in T.show(y[2][2]):
                            return val
                        if isinstance(y, tuple) and y and y[0] == "jr" and y[2] == T.col(TD, "stream"):
                            return stream
                        if isinstance(y, tuple) and y and y[0] == "re" and "nccl" in T.show(y[2]):
                            return "match" if comm else None
                        if isinstance(y, tuple) and len(y) == 3 and y[0] == "astype" and "bool" in T.show(y[1]):
                            return bool(_eval_value(y[2], leaf))          # a truth value cast to bool
                        if isinstance(y, tuple) and y and y[0] in ("notnull", "isinstance"):
                            return True
                        if isinstance(y, tuple) and y and y[0] == "strmatch" and T.is_const(y[3]) and isinstance(y[3][1], str):
                            subj = T.evaluate(y[2], leaf)
                            if isinstance(subj, str):
                                import re as _re
                                return {"endswith": subj.endswith(y[3][1]), "startswith": subj.startswith(y[3][1]), "match": _re.match(y[3][1], subj) is not None,
                                        "contains": _re.search(y[3][1], subj) is not None, "fullmatch": _re.fullmatch(y[3][1], subj) is not None}[y[1]]
                        if isinstance(y, tuple) and y and y[0] == "mapf" and len(y) == 3:
                            return _eval_value(y[2], leaf)
                        if isinstance(y, tuple) and y and y[0] in ("bitand", "bitor") and len(y) == 3:
                            a_, b_ = bool(_eval_value(y[1], leaf)), bool(_eval_value(y[2], leaf))
                            return (a_ and b_) if y[0] == "bitand" else (a_ or b_)
                        if isinstance(y, tuple) and y and y[0] in ("cases", "ite"):
                            return _eval_value(y, leaf)
                        raise T.Unknown(x)
                    want = tbl.get(mem) if mem in tbl else ("cpu_bound" if stream < 0 else ("gpu_communication_bound" if comm else "gpu_compute_bound"))
                    try:
                        got = _eval_value(bb, leaf)
                    except T.Unknown as u:
                        verdict = None
                        bad.append("reads " + T.show(u.args[0])[:90])
                        break
                    if got != want:
                        if mem == "KERNEL_KERNEL_DELAY" and stream < 0:
                            continue          # not a realisable state: a kernel-to-kernel delay edge is attributed to the kernel in front of the gap (a device stream)
                        verdict = False
                        any_false.append({"type": mem, "stream": stream, "comm": comm, "got": got, "expected": want})
                        bad.append(any_false[-1])
                if verdict is None:
                    break
            if verdict is None:
                break
    if any_false:
        verdict, bad = False, any_false          # one realisable cell that evaluated to another class decides, whatever the evaluator could not follow in other cells
    chk.ob(rule, "the bound_by COLUMN of the breakdown realises the documented decision table on all 20 (edge type, host/device, communication) cases", verdict, where, found=bad[:3] or "20 cases agree",
           accepted="delay edges -> overhead class first; host -> cpu_bound; communication kernel -> gpu_communication_bound; else gpu_compute_bound",
           why="testing 'NCCL kernel' before the edge type classes the gap after a collective as communication-bound")
    # summary
    sm = m.func("CPGraph.summary")
    EDF = ("param", "EDF")

    def hook2(I, name, pos, kw, node):
        if name == "self.get_critical_path_breakdown":
            return Frame(EDF)
        return NotImplemented

    I = Interp(db, call_hook=hook2)
    runs = [r for r in I.explore(f"{CP}:CPGraph.summary", lambda I: {"self": Obj("self", cls=(m, "CPGraph"))}) if r.raised is None]
    if len(runs) != 1:
        chk.ob(rule, "summary: one path", None, m.loc(sm), found=len(runs))
    else:
        t = to_term(runs[0].ret)
        ctx = (EDF, T.TRUE, None)
        per = T.agg("sum", T.col(EDF, "duration"), ctx, (T.col(EDF, "bound_by"),))
        tot = T.agg("sum", T.col(EDF, "duration"), ctx)
        check_term(chk, rule, "summary = per-class sum of durations / total duration * 100", m.loc(sm), t, [T.mul(T.C(100), T.div(per, tot))], "shares of the path's total weight, adding up to 100")
    chk.floor(rule, 5)
