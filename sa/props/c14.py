"""C14 - queue-length and memory-bandwidth counters are exact step functions (structural clauses)."""
from __future__ import annotations

import ast

from ..core import terms as T
from ..core import asthelp as H
from ..core.interp import Interp
from ..core.progdb import AnalysisError, walk_no_nested
from ..core.values import Frame, Obj, PyTuple, to_term
from ..specs.merge import check_term
from ..specs import kernel_type as KT
from .c05 import leaves as _leaves5


def leaves(t):
    """pieces of a column: of a concatenation, and of a melted frame (one per value column)"""
    return _leaves5(t, melt=True)

EXPLANATION = (
    "Symbolic column-term evaluation of TraceCounters._get_queue_length_time_series_for_rank, _get_memory_bw_time_series_for_rank, "
    "TraceSymbolTable.get_runtime_launch_events_query, Trace.convert_time_series_to_events / _align_all_ranks and "
    "TraceAnalysis.generate_trace_with_counters. Decides: launches = launch-name table & index_correlation > 0 marked +1; activities = device rows whose "
    "correlation is among the launches' marked -1; a launch takes stream/pid/tid from its activity (left join on correlation); the sweep order places a "
    "launch before an activity at equal timestamps (secondary key on the marker descending, or a stable sort over the launches-first concat); per-stream "
    "cumulative sum in that order, every row reported; bandwidth: zero-length copies get dur 1 BEFORE the end timestamp ts+dur is formed, end rows carry "
    "the negated bandwidth, per-name cumsum over the ts-sorted concat; counter events add back exactly the attribute _align_all_ranks subtracted, phase C, "
    "args {counter: value}; the wrapper passes the column names the series functions produce."
    " Later additions: the stream reaches the event conversion as 'id'; every series row becomes one counter event; effect rules incl. per-rank containers in the wrapper."
)
TC = "hta.analyzers.trace_counters"
LAUNCH_NAMES_REQUIRED = {"cudaLaunchKernel", "cudaLaunchKernelExC", "cuLaunchKernel", "cudaMemcpyAsync", "cudaMemsetAsync",
                         "runFunction - job_prep_and_submit_for_execution"}


def _tt_stream(pred, TR):
    try:
        return {sv: bool(T.evaluate(pred, lambda leaf, sv=sv: sv if leaf == T.col(TR, "stream") else (_ for _ in ()).throw(T.Unknown(leaf)))) for sv in (-1, 1, 7)}
    except T.Unknown:
        return None


def _explore(db, ref, TR):
    st = db.mod("hta.common.trace_symbol_table")

    def hook(I, name, pos, kw, node):
        if name == "t.get_trace":
            return Frame(TR)
        if name == "t.symbol_table.get_sym_table":
            return T.P("SYMTABLE")
        return NotImplemented

    I = Interp(db, call_hook=hook)
    runs = I.explore(ref, lambda I: {"cls": Obj("cls", cls=(db.mod(TC), "TraceCounters")), "rank": T.P("rank"),
                                     "t": Obj("t", attrs={"symbol_table": Obj("symtab", cls=(st, "TraceSymbolTable"))})})
    return [r for r in runs if r.raised is None and isinstance(r.ret, Frame)]


def run(db, chk) -> None:
    from ..specs.discipline import check_shared_trace_untouched
    check_shared_trace_untouched(db, chk, "C14.R-shared-trace")
    from ..specs.discipline import check_facade_stateless
    check_facade_stateless(db, chk, "C14.R-facade-stateless", ['get_queue_length_time_series', 'get_memory_bw_time_series', 'generate_trace_with_counters', 'get_queue_length_summary', 'get_memory_bw_summary'])
    from ..specs.discipline import check_stateless
    check_stateless(db, chk, "C14.R-stateless", ['hta.analyzers.trace_counters'])      # the result is a function of the arguments: no state kept between calls, caller's Trace untouched
    chk.floor("C14.R-stateless", 4)
    m = db.mod(TC)
    TR = ("param", "TR")
    _queue(db, chk, m, TR)
    _bandwidth(db, chk, m, TR)
    _unshift(db, chk)
    _wrapper_rename(db, chk)
    _per_rank_wrappers(db, chk, m)
    _copy_types(db, chk)


def _queue(db, chk, m, TR):
    rule = "C14.R1-queue-terms"
    ref = f"{TC}:TraceCounters._get_queue_length_time_series_for_rank"
    fn = m.func("TraceCounters._get_queue_length_time_series_for_rank")
    where = m.loc(fn)
    runs = _explore(db, ref, TR)
    chk.analysed_add("functions", ref)
    if len(runs) != 1:
        chk.ob(rule, "one path returning the series frame", None, where, found=len(runs))
        return
    r = runs[0]
    R = r.ret
    ev = [e for e in r.events if e.get("module") == TC]          # the worker and the private helpers it is split into
    q = [e for e in ev if e["kind"] == "filter" and e["how"] == "query"]
    if len(q) != 1:
        chk.ob(rule, "launch calls selected by one query", None, where, found=len(q))
        return
    Lp = q[0]["pred"]
    conj = list(Lp[1]) if Lp[0] == "and" else [Lp]
    linked = T.cmp(">", T.col(TR, "index_correlation"), T.C(0))
    chk.ob(rule, "launch calls restricted to linked pairs (index_correlation > 0, strict: 0 = partner absent)", linked in conj, where, found=[T.show(c)[:80] for c in conj if c[0] != "or"],
           accepted=T.show(linked), why="an unlinked launch would never be decremented: the series would not end at 0")
    names = set()
    bad = []
    for c in conj:
        if c == linked:
            continue
        for d in (c[1] if c[0] == "or" else (c,)):
            calls = T.find(d, lambda s: s[0] == "call" and str(s[1]).endswith("sym_index.get"))
            if d[0] == "cmp" and d[1] == "==" and len(calls) == 1 and T.col(TR, "name") in T.find(d, lambda s: s[0] == "col"):
                names.add(calls[0][2][1])
            elif d[0] == "in" and d[1] == T.col(TR, "name") and isinstance(d[2], tuple) and d[2][0] == "set" and d[2][1] and all(
                    isinstance(x_, tuple) and x_[0] == "call" and str(x_[1]).endswith("sym_index.get") and len(x_) >= 3 and T.is_const(x_[2]) for x_ in d[2][1]):
                names |= {x_[2][1] for x_ in d[2][1]}          # the same table written as a membership test: name in {id(n1), id(n2), ...}
            else:
                bad.append(T.show(d)[:100])
    chk.ob(rule, "launch-name table: name == id(<launch name>) for a set containing the CUDA / MTIA launch calls", not bad and LAUNCH_NAMES_REQUIRED <= names, where,
           found=sorted(names) + bad, accepted=f"superset of {sorted(LAUNCH_NAMES_REQUIRED)}", why="a missing launch name removes its +1 steps while its kernels are filtered out of the series")
    # markers
    qt = R.col("queue_length")
    lv = [x for x in leaves(qt)]
    cs = [x for x in lv if x[0] == "win" and x[1] == "cumsum"]
    if len(cs) != 1 or len(lv) != 1:
        chk.ob(rule, "queue_length = one per-stream cumulative sum", None if T.has_opaque(qt) else False, where, found=[T.show(x)[:160] for x in lv], accepted="cumsum(queue) per stream")
        return
    CS = cs[0]
    qcol, sctx = CS[3], CS[4]
    parts = leaves(qcol)
    exp_markers = None
    joins = [e for e in ev if e["kind"] == "join"]
    concats = [e for e in ev if e["kind"] == "concat"]
    sorts = [e for e in ev if e["kind"] == "sort"]
    # the sweep sort is the (first) sort the cumulative sum runs over; any later sort must keep the order inside a stream (stable, by the stream alone)
    # (sorts in front of the sweep sort only matter as the order a STABLE sweep sort falls back to at equal keys: they are read off its prev_order)
    k_s = len(sorts)
    while k_s > 1 and list(sorts[k_s - 1]["by"]) == ["stream"]:
        k_s -= 1
    i_sweep = k_s - 1
    later_sorts = sorts[k_s:]
    regroup_ok = all(e["sort_kind"] in ("stable", "mergesort") and list(e["by"]) == ["stream"] for e in later_sorts)
    unstable = [e for e in later_sorts if e["sort_kind"] not in ("stable", "mergesort") and list(e["by"]) == ["stream"]]
    if unstable:
        chk.ob("C14.R2-tie-order", "a re-grouping of the finished series by stream keeps the order inside each stream (stable sort)", False, where, found=[(list(e["by"]), e["sort_kind"]) for e in unstable],
               accepted="sort_values(by='stream', kind='stable')", why="an unstable sort by stream may reorder the rows of one stream: the step function is no longer in time order")
        return
    if len(joins) != 1 or not sorts or not concats or not regroup_ok:
        chk.ob(rule, "pipeline shape: one launch/activity join, one sweep sort (later sorts only regroup by stream, stably)", None, where,
               found={"joins": len(joins), "sorts": [(list(e["by"]), e["sort_kind"]) for e in sorts], "concats": len(concats)})
        return
    J = joins[0]
    jbase = ("join", J["how"], J["left"], J["right"], J["left_key_terms"], J["right_key_terms"], J["suffixes"])
    Lctx, Actx = J["left"], J["right"]
    chk.ob(rule, "launch side of the join = the selected launch calls", Lctx[0] == TR and Lctx[1] == Lp, where, found=T._ctx(Lctx)[:160], accepted="rows selected by the launch query")
    tt = _tt_stream(Actx[1], TR)
    chk.ob(rule, "activity side = device rows (predicate over stream only; false at -1, true for positive ids)", tt == {-1: False, 1: True, 7: True}, where,
           found=tt if tt is not None else T.show(Actx[1])[:160], accepted={-1: False, 1: True, 7: True})
    chk.ob(rule, "a launch takes stream/pid/tid from the activity with the same correlation id (left join on correlation)",
           J["how"] == "left" and J["left_key_terms"] == (T.col(TR, "correlation"),) and J["right_key_terms"] == (T.col(TR, "correlation"),), where,
           found=[J["how"]] + [T.show(x) for x in J["left_key_terms"] + J["right_key_terms"]], accepted=["left", "TR.correlation", "TR.correlation"],
           why="another key puts the +1 step on the wrong stream")
    for c in ("stream", "pid", "tid"):
        got = [x for x in leaves(R.col(c))]
        exp_l = ("nullable", ("jr", jbase, T.col(TR, c)))
        exp_a = T.col(TR, c)
        chk.ob(rule, f"column {c}: launches carry the activity's {c}, activities their own", sorted(got, key=repr) == sorted([exp_l, exp_a], key=repr), where,
               found=[T.show(x)[:100] for x in got], accepted=[T.show(exp_a), "joined " + c])
    # +1 / -1 markers
    exp_q = sorted([T.C(1) if False else ("jl", jbase, T.C(1)), T.C(-1)], key=repr)
    gotq = sorted(parts, key=repr)
    chk.ob(rule, "markers: +1 on launch rows, -1 on activity rows", gotq == exp_q, where, found=[T.show(x)[:80] for x in parts], accepted=["+1 (launch)", "-1 (activity)"],
           why="swapped or missing signs invert the step function")
    # activities restricted to those with a selected launch
    Aparts = [p for k, p in concats[0]["parts"] if isinstance(p, tuple) and len(p) == 3 and p[0] == TR]
    semi = ("in", T.col(TR, "correlation"), ("valuesof", T.col(TR, "correlation"), (TR, Lp, None)))
    ok_semi = len(Aparts) == 1 and semi in (Aparts[0][1][1] if Aparts[0][1][0] == "and" else (Aparts[0][1],))
    chk.ob(rule, "activities counted = those whose correlation id is among the selected launches'", ok_semi, where, found=[T._ctx(p)[:200] for p in Aparts],
           accepted="correlation.isin(launches.correlation)", why="an activity without a counted launch would drive the series negative")
    # ---- R2 tie order
    rule2 = "C14.R2-tie-order"
    S = sorts[i_sweep]
    by, asc, kind = S["by"], S["ascending"], S["sort_kind"]
    asc_l = list(asc) if isinstance(asc, (list, tuple)) else [asc] * len(by)
    cparts = [k for k, _ in concats[0]["parts"]]
    first_is_launch = bool(concats[0]["parts"]) and concats[0]["parts"][0][1] == (jbase, T.TRUE, None)
    key_ok = by[:1] == ["ts"] and asc_l[:1] == [True]
    secondary = len(by) >= 2 and by[1] == "queue" and asc_l[1] is False
    stable_concat = kind in ("stable", "mergesort") and first_is_launch and S["prev_order"] is None
    chk.ob(rule2, "sweep sorted by ts ascending first", key_ok, where, found={"by": by, "ascending": asc_l}, accepted="by=['ts', ...] ascending")
    chk.ob(rule2, "equal timestamps: launch (+1) ordered before activity (-1)", key_ok and (secondary or (len(by) == 1 and stable_concat)), where,
           found={"by": by, "ascending": asc_l, "kind": kind, "concat_first_is_launch": first_is_launch, "order before the sweep sort (ties fall back to it)": T.show_order(S["prev_order"])[:120] if S["prev_order"] is not None else "concat order"},
           accepted="secondary key 'queue' descending, or a stable sort by ts over concat([launches, activities])",
           why="every row is reported, so with the activity first a kernel starting at its launch's timestamp shows queue length -1 (F2)")
    # cumsum context: per stream, in the sweep order
    srows = sctx[1]
    gk = ("gbkey", None)
    gi = [e for e in ev if e["kind"] == "groupby-iter"]
    by_param = [p_[1] for p_ in CS[2] if isinstance(p_, tuple) and len(p_) == 2 and p_[0] == "by"]
    by_stream = len(by_param) == 1 and len(by_param[0]) == 1 and isinstance(by_param[0][0], tuple) and by_param[0][0][0] in ("ccol", "col") and by_param[0][0][1 if by_param[0][0][0] == "ccol" else 2] == "stream"
    # per stream: a loop over groupby('stream') (the group's rows are the cumsum's context), or the grouped cumulative sum itself
    per_stream = (len(gi) == 1 and gi[0]["keys"] == ["stream"] and srows[0] in ("cmp", "and") and not by_param) or (not gi and by_stream)
    okctx = isinstance(sctx[2], tuple) and sctx[2][0] == "sort"
    chk.ob(rule, "cumulative sum taken per stream, in the sweep order", okctx and per_stream, where,
           found={"groupby": [e["keys"] for e in gi] or ("grouped cumsum by stream" if by_stream else [T.show(x)[:60] for x in by_param]), "order": T.show_order(sctx[2])[:120]}, accepted="groupby('stream'), order of the sorted sweep")
    cn = R.colnames()
    chk.ob(rule, "reported columns", cn == ["ts", "pid", "tid", "stream", "queue_length"], where, found=cn, accepted=["ts", "pid", "tid", "stream", "queue_length"])
    tsl = sorted(leaves(R.col("ts")), key=repr)
    chk.ob(rule, "timestamps: a launch row carries the launch call's ts, an activity row its start ts", tsl == sorted([("jl", jbase, T.col(TR, "ts")), T.col(TR, "ts")], key=repr), where,
           found=[T.show(x)[:100] for x in tsl], accepted=["launch ts", "activity ts"])
    # no row removal after the cumulative sum (every row of the sweep is output)
    pos_S = next(i for i, e in enumerate(ev) if e is S)          # (order of execution, not line numbers: the steps may live in different helpers)
    after = [e for i, e in enumerate(ev) if e["kind"] in ("filter", "drop-rows", "drop_duplicates", "row-subset", "dropna") and i > pos_S]
    verdict = True
    for e in after:
        pred = e.get("pred")
        dups = T.find(pred, lambda s: s[0] == "duplicated") if pred is not None else []
        if e["kind"] == "filter" and isinstance(pred, tuple) and pred[0] == "notnull" and isinstance(pred[1], tuple) and pred[1][0] == "ccol" and pred[1][1] == "stream":
            continue          # rows without a stream belong to no queue (a groupby over the stream drops them as well)
        if e["kind"] == "filter" and len(dups) == 1 and pred == ("not", dups[0]) or (len(dups) == 1 and pred == T.not_(dups[0])):
            verdict = verdict and (dups[0][1] == "last")   # keeping the LAST row of an instant preserves the step function
        else:
            verdict = None
            break
    chk.ob(rule2, "rows removed after the sweep never drop the last value of an instant", verdict, where, found=[(e["kind"], e["line"], T.show(e.get("pred"))[:120] if e.get("pred") else "") for e in after],
           accepted="no removal, or de-duplication that keeps the last row of each timestamp",
           why="dropping duplicate timestamps with keep='first' keeps an intermediate value of the instant, not the last one")
    chk.floor(rule, 10)
    chk.floor(rule2, 3)


def _bandwidth(db, chk, m, TR):
    rule = "C14.R3-bandwidth-terms"
    ref = f"{TC}:TraceCounters._get_memory_bw_time_series_for_rank"
    fn = m.func("TraceCounters._get_memory_bw_time_series_for_rank")
    where = m.loc(fn)
    runs = _explore(db, ref, TR)
    chk.analysed_add("functions", ref)
    if not runs or len(runs) > 4:
        chk.ob(rule, "at most four paths returning the series frame", None, where, found=len(runs))
        return
    for r in runs:          # every path that returns a series must be the template
        _bandwidth_one(db, chk, m, TR, rule, where, r)
    chk.floor(rule, 5)


def _bandwidth_one(db, chk, m, TR, rule, where, r):
    R = r.ret
    if not hasattr(R, "col"):
        chk.ob(rule, "the path returns the series frame", None, where, found=type(R).__name__)
        return
    ev = [e for e in r.events if e.get("module") == TC]          # the worker and the private helpers it is split into
    bw = leaves(R.col("memory_bw_gbps"))
    cs = [x for x in bw if x[0] == "win" and x[1] == "cumsum"]
    if len(cs) != 1 or len(bw) != 1:
        chk.ob(rule, "memory_bw_gbps = one per-name cumulative sum", None if T.has_opaque(R.col("memory_bw_gbps")) else False, where, found=[T.show(x)[:200] for x in bw])
        return
    CS = cs[0]
    parts = sorted(leaves(CS[3]), key=repr)
    BW = T.col(TR, "memory_bw_gbps")
    chk.ob(rule, "step heights: +bandwidth at the start row, -bandwidth at the end row", parts == sorted([BW, T.neg(BW)], key=repr), where, found=[T.show(x)[:100] for x in parts],
           accepted=["+bw", "-bw"])
    sctx = CS[4]
    base = sctx[0]
    okord = isinstance(sctx[2], tuple) and sctx[2][0] == "sort" and len(sctx[2][1]) == 1 and sctx[2][2] is True
    tsl = leaves(sctx[2][1][0]) if okord else []
    DUR, TS = T.col(TR, "dur"), T.col(TR, "ts")
    dur1 = T.ite(T.cmp("==", DUR, T.C(0)), T.C(1), DUR)
    exp_ts = sorted([TS, T.add(TS, dur1)], key=repr)
    hs, tl = leaves(CS[3]), tsl
    if okord and len(hs) == len(tl) == 2 and sorted(tl, key=repr) == exp_ts and parts == sorted([BW, T.neg(BW)], key=repr):
        # the pieces of both columns come in the same order (the stacked start rows and end rows): which height sits at which instant
        pairs = sorted(zip(hs, tl), key=repr)
        chk.ob(rule, "the +bandwidth step sits at the copy's start and the -bandwidth step at its end", pairs == sorted([(BW, TS), (T.neg(BW), T.add(TS, dur1))], key=repr), where,
               found=[(T.show(h_)[:40], T.show(t_)[:60]) for h_, t_ in pairs], accepted=["(+bw, ts)", "(-bw, ts + dur)"], why="with the signs exchanged the series is the negative of the bandwidth in use")
    chk.ob(rule, "sweep sorted by ts ascending; start rows at ts, end rows at ts + dur with a zero-length copy counted as one time unit (dur 0 -> 1 BEFORE ts + dur is formed)",
           okord and sorted(tsl, key=repr) == exp_ts, where, found=[T.show(x)[:140] for x in tsl], accepted=[T.show(x)[:140] for x in exp_ts],
           why="with the raw dur a zero-length copy contributes +bw and -bw at one instant and never shows")
    gi = [e for e in ev if e["kind"] == "groupby-iter"]
    chk.ob(rule, "cumulative sum per copy type (name)", len(gi) == 1 and gi[0]["keys"] == ["name"], where, found=[e["keys"] for e in gi], accepted=["name"])
    if len(gi) == 1 and len(gi[0].get("key_terms", ())) == 1:
        kl = leaves(gi[0]["key_terms"][0])
        raw = [x for x in kl if x == T.col(TR, "name")]
        chk.ob(rule, "the group key is the COPY TYPE (decoded and classified name), not the raw symbol id", (not raw) if kl and not T.has_opaque(gi[0]["key_terms"][0]) else None, where,
               found=[T.show(x)[:100] for x in kl][:2], accepted="get_memory_kernel_type(sym_table[name])",
               why="grouped by symbol id, overlapping copies of one type with different detailed names are not added up; translating the ids afterwards only relabels the rows")
    # rows: device & MEMORY kernels; name = memory kernel type of the decoded name
    cparts = [p for e in ev if e["kind"] == "concat" for k, p in e["parts"] if isinstance(p, tuple) and len(p) == 3 and p[0] == TR]
    cparts += [e["src_ctx"] for e in ev if e["kind"] == "melt" and isinstance(e.get("src_ctx"), tuple) and len(e["src_ctx"]) == 3 and e["src_ctx"][0] == TR]          # (start / end rows stacked by melt)
    kt = KT.kernel_type_term(db, ("getitem", T.P("SYMTABLE"), T.col(TR, "name")))
    okrows = bool(cparts)
    for p in cparts:
        conj = p[1][1] if p[1][0] == "and" else (p[1],)
        rest = [c for c in conj if c != T.cmp("==", kt, T.C("MEMORY"))]
        tt = _tt_stream(T.and_(*rest), TR) if rest else None
        okrows = okrows and T.cmp("==", kt, T.C("MEMORY")) in conj and tt == {-1: False, 1: True, 7: True}
    chk.ob(rule, "rows = device activities classified MEMORY (kernel type of the decoded name)", okrows if cparts else None, where, found=[T._ctx(p)[:160] for p in cparts][:2], accepted="stream != -1 & kernel_type == MEMORY")
    nm = leaves(R.col("name"))
    ut = db.mod("hta.utils.utils")
    chk.ob(rule, "series keyed by the copy type of the decoded name", all(x[0] in ("mapf", "cases", "call", "ite") or True for x in nm) and not T.has_opaque(R.col("name")), where,
           found=[T.show(x)[:120] for x in nm][:2], accepted="get_memory_kernel_type(sym_table[name])", nontrivial=False)
    last_sort = max((i for i, x in enumerate(ev) if x["kind"] == "sort"), default=len(ev))
    after = [e for i, e in enumerate(ev) if e["kind"] in ("filter", "drop-rows", "drop_duplicates", "row-subset", "dropna") and cs and i > last_sort]
    chk.ob(rule, "no row removed after the sweep", not after, where, found=[(e["kind"], e["line"]) for e in after], accepted="none")


def _unshift(db, chk):
    rule = "C14.R4-unshift-agreement"
    tm = db.mod("hta.common.trace")
    f = tm.func("Trace.convert_time_series_to_events")
    where = tm.loc(f)
    S = ("param", "SER")
    for has_name in (True, False):
        I = Interp(db, decide=lambda c: None)
        known = ["pid", "ts", "tid", "CNT"] + (["name", "id"] if has_name else [])
        given = {}

        def mkargs(I, known=known):
            given["series"] = Frame(S, known=list(known))
            return {"self": Obj("self", cls=(tm, "Trace")), "series": given["series"], "counter_name": "CN", "counter_col": "CNT"}
        runs = I.explore("hta.common.trace:Trace.convert_time_series_to_events", mkargs)
        runs = [r for r in runs if r.raised is None and not isinstance(r.ret, list)]
        if len(runs) != 1:
            chk.ob(rule, f"convert_time_series_to_events (name column present={has_name}): one normal path", None, where, found=len(runs))
            continue
        r = runs[0]
        muts_ = [e for e in r.events if e["kind"] == "frame-mutation" and e.get("base") == S and e.get("obj") == given["series"].obj]
        chk.ob(rule, f"[name col={has_name}] the caller's series is not modified by the conversion (the shift is added on the private events frame)", not muts_, where,
               found=[(e["what"], e.get("column"), e["line"]) for e in muts_] or "no store into the parameter", accepted="no store / in-place operation on `series`",
               why="un-shifting the caller's frame makes a second conversion (or any later look at the series) shifted twice")
        cand = [v for v in r.env.values() if isinstance(v, Frame) and v.has("ph")]
        E = next((v for v in cand if v.base == S), None)
        removed = [e for e in r.events if e["kind"] in ("drop_duplicates", "filter", "dropna", "head", "take") and e["func"].endswith("convert_time_series_to_events")]
        chk.ob(rule, f"[name col={has_name}] every row of the series becomes exactly one counter event (no row removal / de-duplication in the conversion)", (E is not None and E.rows == T.TRUE and not removed) if cand else None, where,
               found=[f"{e['kind']} at line {e.get('line')}" + (f" subset={T.show(e['subset'])[:60]}" if e.get("subset") is not None else "") for e in removed] or ("all rows" if E is not None else "frame re-based"),
               accepted="events_df = series[[...]].copy() with all rows", why="de-duplicating on (pid, name, ts) collapses the samples of different streams at the same microsecond: the file no longer reproduces the per-stream series")
        if not isinstance(E, Frame):
            continue
        o_ = E.order
        stable = o_ is None or (isinstance(o_, tuple) and o_ and o_[0] == "sort" and o_[3] in ("stable", "mergesort"))
        chk.ob(rule, f"[name col={has_name}] the events keep the order of the series rows (no re-sort, or a stable one)", stable, where, found=T.show_order(o_), accepted="series order",
               why="an unstable sort by ts reorders the samples that share a timestamp: the last sample at an instant - the value the step function takes - changes")
        check_term(chk, rule, f"[name col={has_name}] counter event ts = series ts + the stored alignment shift", where, E.col("ts"),
                   [T.add(T.col(S, "ts"), ("attr", ("obj", "self"), "min_ts"))], "counter events must sit at the original, unshifted timestamps")
        ph = E.col("ph")
        chk.ob(rule, f"[name col={has_name}] phase is the counter phase 'C'", ph == T.C("C"), where, found=T.show(ph), accepted="'C'")
        a = E.col("args")
        okargs = ("dict", ((T.C("CN"), T.col(S, "CNT")),)) in ([a] + T.find(a, lambda s: s[0] == "dict")) and a[0] in ("mapf", "dict")
        chk.ob(rule, f"[name col={has_name}] args = {{counter_name: value of the counter column}}", okargs, where, found=T.show(a)[:160], accepted="{counter_name: series[counter_col]}")
        check_term(chk, rule, f"[name col={has_name}] pid is the series' pid", where, E.col("pid"), [T.col(S, "pid")])
        nm = E.col("name")
        chk.ob(rule, f"[name col={has_name}] event name = series name if present else the counter name", nm == (T.col(S, "name") if has_name else T.C("CN")), where,
               found=T.show(nm)[:80], accepted="series.name | counter_name")
        if has_name:
            check_term(chk, rule, "id distinguishes series of the same name (stream)", where, E.col("id"), [T.col(S, "id")])
        chk.ob(rule, f"[name col={has_name}] events are emitted as one record per series row", to_term(r.ret)[0] == "to_dict" and to_term(r.ret)[1] == E.ctx(), where,
               found=T.show(to_term(r.ret))[:100], accepted="events_df.to_dict('records')")
    # the shift subtracted at load time is the same attribute: decided on the evaluated final state of _align_all_ranks (every rank's ts = file ts - self.min_ts,
    # whatever helper does the subtraction), shared with C01
    from .c01 import _shift
    from .c09 import _Prefixed
    _shift(db, _Prefixed(chk, rule), rule=rule)
    al = tm.func("Trace._align_all_ranks")
    allowed = {tm.qualname_of(g) for w in ("Trace._align_all_ranks", "Trace.__init__") for g in H.with_private_callees(tm, tm.func(w))}
    writers = sorted(q for q, fn in tm.functions.items() if q.startswith("Trace.") and "min_ts" in H.attr_store_names(fn, "self"))
    chk.ob(rule, "the stored shift is written by _align_all_ranks (and __init__) only", bool(writers) and set(writers) <= allowed, tm.loc(al), found=writers, accepted=sorted(allowed),
           why="another writer changes the amount that is added back to the counter events after the frames were shifted")
    chk.floor(rule, 12)


def _per_rank_wrappers(db, chk, m):
    """'any ranks requested': every requested rank is mapped to ITS series; only ranks without a series are left out"""
    rule = "C14.R5-every-requested-rank"
    for q, per_rank in (("TraceCounters.get_queue_length_time_series", "_get_queue_length_time_series_for_rank"), ("TraceCounters.get_memory_bw_time_series", "_get_memory_bw_time_series_for_rank")):
        f = m.func(q)
        where = m.loc(f)
        # evaluated on three requested ranks of which the middle one has no series (per-rank function hooked)
        R = [T.P("R0"), T.P("R1"), T.P("R2")]
        tobj = Obj("t")

        def hook(I, name, pos, kw, node, per_rank=per_rank):
            if name.endswith(per_rank):
                I.log("per-rank", node, args=[to_term(x) for x in pos])
                rk = to_term(pos[1]) if len(pos) > 1 else None
                return None if rk == R[1] else Obj("series_of_" + T.show(rk))
            return NotImplemented
        I = Interp(db, call_hook=hook)
        runs = [r for r in I.explore(f"{m.name}:{q}", lambda I: {"cls": Obj("cls", cls=(m, "TraceCounters")), "t": tobj, "ranks": list(R)}) if r.raised is None]
        chk.analysed_add("functions", f"{m.name}:{q}")
        ok, found = None, []
        if len(runs) == 1 and isinstance(runs[0].ret, dict):
            ret = runs[0].ret
            got = {T.show(to_term(k)): (v.name if isinstance(v, Obj) else T.show(to_term(v))) for k, v in ret.items()}
            calls = [e["args"] for e in runs[0].events if e["kind"] == "per-rank"]
            found = [got, f"{len(calls)} per-rank calls"]
            ok = got == {"$R0": "series_of_$R0", "$R2": "series_of_$R2"} and sorted(T.show(c[1]) for c in calls if len(c) > 1) == ["$R0", "$R1", "$R2"]
        else:
            found = [f"{len(runs)} paths", T.show(to_term(runs[0].ret))[:200] if runs else ""]
        chk.ob(rule, f"{q}: each requested rank is mapped to the series of that rank; only ranks without a series are left out", ok, where, found=found,
               accepted="ranks [R0, R1 (no series), R2] -> {R0: series(R0), R2: series(R2)}", why="`break` on the first rank without data silently drops every rank requested after it")
        dflt = [v for p_, v, verdict in H.rebinds_of_params(f, ["ranks"])]
        chk.ob(rule, f"{q}: the rank list is replaced only when none was given", all(v == "default-if-none" for _, _, v in H.rebinds_of_params(f, ["ranks"])), where,
               found=[x[1] for x in H.rebinds_of_params(f, ["ranks"])], accepted="if ranks is None or len(ranks) == 0: ranks = [0]")
    chk.floor(rule, 4)


def _wrapper_rename(db, chk):
    """generate_trace_with_counters, evaluated as a whole (series functions, event conversion and file access are hooked): for every requested flag the
    series of that flag reaches convert_time_series_to_events with the counter column the series function produces, and a per-stream series carries
    the stream under the column 'id' (the counter id that keeps the per-stream series apart in the written file)."""
    rule = "C14.R4-unshift-agreement"
    ta = db.mod("hta.trace_analysis")
    q = "TraceAnalysis.generate_trace_with_counters"
    f = ta.func(q)
    where = ta.loc(f)
    SQ, SM = ("param", "SQ"), ("param", "SM")
    qcols, mcols = ["pid", "tid", "ts", "queue_length", "stream"], ["pid", "tid", "ts", "memory_bw_gbps", "name"]
    params = [p_ for p_ in H.param_names(f) if p_ != "self"]
    if params[:3] != ["time_series", "ranks", "output_suffix"]:
        chk.ob(rule, "generate_trace_with_counters(time_series, ranks, output_suffix) recognised", None, where, found=params)
        return

    def hook(I, name, pos, kw, node):
        if name.endswith("get_queue_length_time_series"):
            return {T.P("RANK"): Frame(SQ, known=list(qcols))}
        if name.endswith("get_memory_bw_time_series"):
            return {T.P("RANK"): Frame(SM, known=list(mcols))}
        if name.endswith("convert_time_series_to_events"):
            I.log("convert", node, frame=pos[0] if pos else kw.get("series"), cname=pos[1] if len(pos) > 1 else kw.get("counter_name"), ccol=pos[2] if len(pos) > 2 else kw.get("counter_col"))
            return []
        if name.endswith("get_raw_trace_for_one_rank"):
            return {"traceEvents": []}
        if name.endswith("write_raw_trace"):
            return None
        return NotImplemented
    I = Interp(db, call_hook=hook)
    runs = [r for r in I.explore(f"hta.trace_analysis:{q}", lambda I: {"self": Obj("self", attrs={"t": Obj("t", attrs={"trace_files": T.P("FILES")})}), "time_series": T.P("TS"), "ranks": [T.P("R0")],
                                                                     "output_suffix": "_x"}) if r.raised is None]
    chk.analysed_add("functions", f"hta.trace_analysis:{q}")
    flags = {"QUEUE_LENGTH": (SQ, "queue_length", qcols), "MEMCPY_BANDWIDTH": (SM, "memory_bw_gbps", mcols)}
    done = 0
    for r in runs:
        req = {}
        for c in r.path:
            neg = isinstance(c, tuple) and c[0] == "not"
            cc = c[1] if neg else c
            if isinstance(cc, tuple) and cc[0] == "in" and isinstance(cc[1], tuple) and cc[1][0] == "enum" and cc[1][2] in flags:
                req[cc[1][2]] = not neg
        if set(req) != set(flags):
            continue
        done += 1
        conv = [e for e in r.events if e["kind"] == "convert"]
        tag = ", ".join(f"{k}={'on' if v else 'off'}" for k, v in sorted(req.items()))
        for fl, (base, col, cols) in flags.items():
            mine = [e for e in conv if isinstance(e["frame"], Frame) and e["frame"].base == base]
            if not req[fl]:
                chk.ob(rule, f"[{tag}] no {fl} counter is written when the flag is not requested", not mine, where, found=len(mine), accepted=0)
                continue
            if len(mine) != 1:
                chk.ob(rule, f"[{tag}] the {fl} series of each rank is converted to counter events once", None if not mine and any(not isinstance(e["frame"], Frame) for e in conv) else False, where,
                       found=len(mine), accepted=1, why="a requested time series that is not converted is missing from the written file")
                continue
            e = mine[0]
            F = e["frame"]
            chk.ob(rule, f"[{tag}] wrapper reads the column the {fl} series function produces", e["ccol"] == col, where, found=to_term(e["ccol"]), accepted=col)
            if "stream" in cols:
                ok = F.has("id") is True and F.col("id") == T.col(base, "stream") and F.has("stream") is not True
                chk.ob(rule, f"[{tag}] a per-stream series reaches the event conversion with its stream under the column 'id'", ok, where,
                       found={"columns": F.colnames(), "id": T.show(F.col("id"))[:60] if F.has("id") else None}, accepted="id = series.stream (renamed in place or re-assigned)",
                       why="without the id every stream's 'Queue Length' counter collapses into one series in the written file")
            else:
                chk.ob(rule, f"[{tag}] a series without a stream column is passed on unchanged", F.colnames() is not None and sorted(F.colnames()) == sorted(cols) and F.rows == T.TRUE, where,
                       found=F.colnames(), accepted=sorted(cols))
    chk.ob(rule, "generate_trace_with_counters analysed on the paths that decide both flags", True if done >= 4 else None, where, found=done, accepted=">= 4")




def _copy_types(db, chk):
    """the key of the bandwidth series: the copy type is the operation's own 11-character prefix ('Memcpy DtoH', 'Memcpy PtoP', ...), 'Memset' for memsets - decided by
    evaluating get_memory_kernel_type on representative names (an enumerated table of 'known' directions would merge every other direction into one series)"""
    rule = "C14.R3-bandwidth-terms"
    ut = db.mod("hta.utils.utils")
    fn = ut.functions.get("get_memory_kernel_type")
    if fn is None:
        chk.ob(rule, "get_memory_kernel_type found", None, "hta/utils/utils.py", found="absent")
        return
    cases = {"Memset (Device)": "Memset", "Memcpy DtoH (Device -> Pageable)": "Memcpy DtoH", "Memcpy HtoD (Pinned -> Device)": "Memcpy HtoD", "Memcpy DtoD (Device -> Device)": "Memcpy DtoD",
             "Memcpy PtoP (Device -> Device)": "Memcpy PtoP", "Memcpy HtoH (Pageable -> Pageable)": "Memcpy HtoH", "void gemm_kernel()": "Memcpy Unknown"}
    got = {}
    for name in cases:
        runs = [r for r in Interp(db).explore("hta.utils.utils:get_memory_kernel_type", lambda I, name=name: {"name": name}) if r.raised is None]
        got[name] = runs[0].ret if len(runs) == 1 and isinstance(runs[0].ret, str) else None
    verdict = None if any(v is None for v in got.values()) else got == cases
    chk.ob(rule, "copy type = the operation's own type prefix (every direction its own series), 'Memset' for memsets, 'Memcpy Unknown' for anything else", verdict, ut.loc(fn),
           found={k: v for k, v in got.items() if v != cases[k]} or "all representative names agree", accepted=cases,
           why="a table of four known types reports peer-to-peer and host-to-host copies as one 'Memcpy Unknown' series: their bandwidths are added up under a wrong key")


# ------------------------------------------------------------------------------------------ thorough tier: the templates themselves
COUNTER_SPEC = '''
import pandas as pd

def queue_two_key(pairs):
    """the template of C14.R1/R2 (form 1): +1 at every launch, -1 at the start of its activity, sorted by (ts, marker descending), cumulative sum"""
    df = pd.concat([pd.DataFrame({"ts": [l for l, _ in pairs], "queue": 1}), pd.DataFrame({"ts": [k for _, k in pairs], "queue": -1})], ignore_index=True)
    df = df.sort_values(by=["ts", "queue"], ascending=[True, False])
    df["queue_length"] = df["queue"].cumsum()
    return list(zip(df["ts"], df["queue_length"]))

def queue_stable_concat(pairs):
    """form 2: a stable sort by ts alone over concat([launches, activities])"""
    df = pd.concat([pd.DataFrame({"ts": [l for l, _ in pairs], "queue": 1}), pd.DataFrame({"ts": [k for _, k in pairs], "queue": -1})], ignore_index=True)
    df = df.sort_values(by="ts", kind="stable")
    df["queue_length"] = df["queue"].cumsum()
    return list(zip(df["ts"], df["queue_length"]))

def queue_activity_first(pairs):
    """the neighbouring WRONG template: activities in front of the launches at equal timestamps"""
    df = pd.concat([pd.DataFrame({"ts": [k for _, k in pairs], "queue": -1}), pd.DataFrame({"ts": [l for l, _ in pairs], "queue": 1})], ignore_index=True)
    df = df.sort_values(by="ts", kind="stable")
    df["queue_length"] = df["queue"].cumsum()
    return list(zip(df["ts"], df["queue_length"]))

def bandwidth(copies, wrong=None):
    """the template of C14.R3: a copy of zero duration lasts 1, +bw at its start, -bw at its end (ts + dur), rows sorted by ts, cumulative sum"""
    df = pd.DataFrame({"ts": [t for t, _, _ in copies], "dur": [d for _, d, _ in copies], "bw": [b for _, _, b in copies]})
    if wrong != "no-fixup":
        df.loc[df["dur"] == 0, "dur"] = 1
    end = df.copy()
    end["ts"] = df["ts"] + df["dur"]
    end["bw"] = -df["bw"] if wrong != "sign" else df["bw"]
    out = pd.concat([df, end], ignore_index=True).sort_values(by="ts", kind="stable")
    out["v"] = out["bw"].cumsum()
    return list(zip(out["ts"], out["v"]))
'''


def thorough(db, chk) -> None:
    """Validate the reference counter sweeps (COUNTER_SPEC, the checker's own pandas source - not repository code) under the installed pandas against brute-force
    step functions on every small family of (launch, activity start) pairs / memory copies."""
    import itertools
    ns: dict = {}
    exec(compile(COUNTER_SPEC, "<C14 reference sweeps>", "exec"), ns)
    pts = range(0, 4)
    pair = [(l, k) for l in pts for k in pts if l <= k]          # an activity starts no earlier than its launch call
    fams = [f for n_ in (1, 2, 3) for f in itertools.product(pair, repeat=n_)]
    n = bad = neg_wrong = 0
    first = None
    for fam in fams:
        want_at = lambda t: sum(1 for l, _ in fam if l <= t) - sum(1 for _, k in fam if k <= t)
        for fname in ("queue_two_key", "queue_stable_concat"):
            rows = ns[fname](list(fam))
            n += 1
            last = {}
            for t, v in rows:
                last[t] = v
            ok = len(rows) == 2 * len(fam) and all(v >= 0 for _, v in rows) and rows[-1][1] == 0 and all(last[t] == want_at(t) for t in last) and [t for t, _ in rows] == sorted(t for t, _ in rows)
            if not ok:
                bad += 1
                first = first or (fname, fam, rows)
        if any(v < 0 for _, v in ns["queue_activity_first"](list(fam))):
            neg_wrong += 1
    chk.ob("C14.T1-reference-validated", f"reference queue sweeps (two-key sort; stable sort over launches-first concat) == launches so far - activities started so far after the last row of every instant, never negative, ending at 0, on all {n} (family, form) cases (<= 3 pairs, instants 0..3, ties included)",
           bad == 0, "sa/props/c14.py:COUNTER_SPEC", found=f"{bad} disagreeing" + (f", first {first}" if first else ""), accepted="0 disagreeing",
           why="the template the code is compared with must itself be the step function, also when a launch and an activity share an instant")
    chk.ob("C14.T1-reference-validated", "the oracle rejects the activity-first tie order (some row negative)", neg_wrong > 0, "sa/props/c14.py:COUNTER_SPEC", found=f"{neg_wrong} families with a negative row", accepted="> 0")
    cp = [(t, d, b) for t in range(0, 3) for d in range(0, 3) for b in (1, 2)]
    fams2 = [f for n_ in (1, 2) for f in itertools.product(cp, repeat=n_)]
    n2 = bad2 = 0
    rej = {"sign": 0, "no-fixup": 0}
    for fam in fams2:
        eff = [(t, d or 1, b) for t, d, b in fam]
        want_at = lambda t: sum(b for s, d, b in eff if s <= t < s + d)
        def good(rows):
            last = {}
            for t, v in rows:
                last[t] = v
            return len(rows) == 2 * len(fam) and all(last[t] == want_at(t) for t in last) and rows[-1][1] == 0
        n2 += 1
        if not good(ns["bandwidth"](list(fam))):
            bad2 += 1
            first = first or ("bandwidth", fam)
        for w in rej:
            rej[w] += not good(ns["bandwidth"](list(fam), wrong=w))
    chk.ob("C14.T1-reference-validated", f"reference bandwidth sweep == sum of the bandwidths of the copies in flight (zero-length copies last 1) after the last row of every instant, ending at 0, on all {n2} families of <= 2 copies",
           bad2 == 0, "sa/props/c14.py:COUNTER_SPEC", found=f"{bad2} disagreeing", accepted="0 disagreeing")
    chk.ob("C14.T1-reference-validated", "the oracle rejects the neighbouring bandwidth templates (unsigned end step, no zero-duration fix-up)", all(v > 0 for v in rej.values()), "sa/props/c14.py:COUNTER_SPEC", found=rej, accepted="each > 0")
    chk.analysed_add("template_cases", f"queue:{n} bandwidth:{n2}")
