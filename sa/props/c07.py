"""C07 - communication/computation overlap is the exact time ratio (structural clauses)."""
from __future__ import annotations

import ast
import itertools

from ..core import terms as T
from ..core import asthelp as H
from ..core.interp import Interp
from ..core.progdb import AnalysisError, call_name
from ..core.specrun import run_spec
from ..core.values import ClassRef, Frame, Obj, PyTuple, to_term
from ..specs.merge import MergeHook, check_merge, check_term, merged_frame_of
from ..specs import kernel_type as KT

EXPLANATION = (
    "Symbolic column-term evaluation of CommunicationAnalysis.get_comm_comp_overlap and its nested per-rank function, compared (normal forms) "
    "with a reference two-marker sweep template evaluated by the same evaluator: both operands are merge_kernel_intervals of the device rows of "
    "their kernel type, markers {ts:+a,end:-a}/{ts:+b,end:-b} with a,b,a+b non-zero, time-sorted cumsum, overlap rows running == a+b, numerator "
    "sum(next_time - time) over them, denominator = measure of merged communication kernels, percentage round(100*ratio,2); plus the interval-union "
    "template of merge_kernel_intervals, the kernel classification chain and the facade binding. Decides template conformance (necessary "
    "conditions), not the numeric value."
    " Later additions: effect rules; the reference sweep is validated against a brute-force oracle in the thorough tier."
)
CA = "hta.analyzers.communication_analysis"

SWEEP_SPEC = '''
import pandas as pd

def sweep_join(first, second, comm, A1, A2, TARGET):
    status_df = (
        pd.concat([first.melt(var_name="status", value_name="time").replace({"ts": A1, "end": -A1}),
                   second.melt(var_name="status", value_name="time").replace({"ts": A2, "end": -A2})])
        .sort_values(by="time").reset_index(drop=True))
    status_df["running"] = status_df["status"].cumsum()
    overlap = status_df[status_df["running"].eq(TARGET)]
    shifted = overlap.merge(status_df.shift(-1).dropna(), left_index=True, right_index=True)
    return (shifted["time_y"] - shifted["time_x"]).sum() / (comm["end"] - comm["ts"]).sum()

def sweep_join_labels(first, second, comm, A1, A2, TARGET):
    status_df = (
        pd.concat([first.rename(columns={"ts": A1, "end": -A1}).melt(var_name="status", value_name="time"),
                   second.rename(columns={"ts": A2, "end": -A2}).melt(var_name="status", value_name="time")])
        .sort_values(by="time").reset_index(drop=True))
    status_df["running"] = status_df["status"].cumsum()
    overlap = status_df[status_df["running"].eq(TARGET)]
    shifted = overlap.merge(status_df.shift(-1).dropna(), left_index=True, right_index=True)
    return (shifted["time_y"] - shifted["time_x"]).sum() / (comm["end"] - comm["ts"]).sum()

def sweep_col_labels(first, second, comm, A1, A2, TARGET):
    status_df = (
        pd.concat([first.rename(columns={"ts": A1, "end": -A1}).melt(var_name="status", value_name="time"),
                   second.rename(columns={"ts": A2, "end": -A2}).melt(var_name="status", value_name="time")])
        .sort_values(by="time").reset_index(drop=True))
    status_df["running"] = status_df["status"].cumsum()
    status_df["next_time"] = status_df["time"].shift(-1)
    overlap = status_df[status_df["running"].eq(TARGET)]
    return (overlap["next_time"] - overlap["time"]).sum() / (comm["end"] - comm["ts"]).sum()

def sweep_col(first, second, comm, A1, A2, TARGET):
    status_df = (
        pd.concat([first.melt(var_name="status", value_name="time").replace({"ts": A1, "end": -A1}),
                   second.melt(var_name="status", value_name="time").replace({"ts": A2, "end": -A2})])
        .sort_values(by="time").reset_index(drop=True))
    status_df["running"] = status_df["status"].cumsum()
    status_df["next_time"] = status_df["time"].shift(-1)
    overlap = status_df[status_df["running"].eq(TARGET)]
    return (overlap["next_time"] - overlap["time"]).sum() / (comm["end"] - comm["ts"]).sum()
'''


def _marker_maps(term, operands=()):
    """[(melt base, {'ts': v, 'end': w})] for every replace applied to a melted 'status' column; also the same markers written as column LABELS
    (operand.rename(columns={'ts': v, 'end': w}).melt(...): the melted variable column holds the labels)"""
    out = []
    for r in T.find(term, lambda s: s[0] == "meltvar" and len(s) == 2 and s[1][3] is not None and any(isinstance(lab, int) for lab, _ in s[1][3])):
        base = r[1]
        for M in operands:
            if base[1] == M.ctx():
                d = {}
                for lab, t in base[3]:
                    nm = [c for c in ("ts", "end") if t == M.col(c)]
                    d[nm[0] if nm else f"?{lab}"] = lab
                if (base, d) not in out:
                    out.append((base, d))
    for r in T.find(term, lambda s: s[0] == "replace" and len(s) == 3 and isinstance(s[2], tuple) and s[2] and s[2][0] == "meltvar"):
        mp = r[1]
        if mp[0] != "dict":
            continue
        d = {}
        for k, v in mp[1]:
            if T.is_const(k) and T.is_const(v):
                d[k[1]] = v[1]
        item = (r[2][1], d)
        if item not in out:
            out.append(item)
    return out


def run(db, chk) -> None:
    from ..specs.discipline import check_shared_trace_untouched
    check_shared_trace_untouched(db, chk, "C07.R-shared-trace")
    from ..specs.discipline import check_facade_stateless
    check_facade_stateless(db, chk, "C07.R-facade-stateless", ['get_comm_comp_overlap'])
    from ..specs.discipline import check_stateless
    check_stateless(db, chk, "C07.R-stateless", ['hta.analyzers.communication_analysis'])      # the result is a function of the arguments: no state kept between calls, caller's Trace untouched
    chk.floor("C07.R-stateless", 4)
    check_merge(db, chk, "C07.R1-interval-union")
    chk.floor("C07.R1-interval-union", 8)
    m = db.mod(CA)
    TR = ("param", "TR")
    hook = MergeHook()
    per_rank_q = find_per_rank(m)
    ref = f"{CA}:{per_rank_q}"
    fn = m.func(per_rank_q)
    where = m.loc(fn)
    per_path = []

    class PathHook(MergeHook):
        pass

    hook = PathHook()
    I = Interp(db, call_hook=hook)
    def role_args(I):
        hook.reset()
        out = {}
        for p_ in H.param_names(fn):
            if p_ == "self" and "." in per_rank_q and per_rank_q.split(".")[0] != "CommunicationAnalysis" and per_rank_q.split(".")[0] in m.classes:
                # a callable object: constructed as its own __init__ does, arguments given by role
                cq = per_rank_q.split(".")[0]
                init = m.functions.get(f"{cq}.__init__")
                ia = []
                for ip in (H.param_names(init)[1:] if init is not None else []):
                    if "sym" not in ip:
                        raise AnalysisError(f"{cq}.__init__: role of parameter {ip} not recognised")
                    ia.append(T.P("sym_table"))
                out[p_] = I.pm.invoke(ClassRef(m, cq), ia, {}, fn)
            elif p_ in ("cls", "self"):
                out[p_] = Obj("cls", cls=(m, "CommunicationAnalysis"))
            elif "sym" in p_:
                out[p_] = T.P("sym_table")
            elif "df" in p_ or "trace" in p_ or "kernel" in p_:
                out[p_] = Frame(TR)
            else:
                raise AnalysisError(f"{per_rank_q}: role of parameter {p_} not recognised")
        return out
    runs = I.explore(ref, role_args, lambda I: {"sym_table": T.P("sym_table"), "cls": Obj("cls", cls=(m, "CommunicationAnalysis"))})
    chk.analysed_add("functions", ref)
    # the hook is reset at the start of every path; collect the merge calls per path from the event log instead
    good = [r for r in runs if r.raised is None]
    if not good or len(good) > 8:
        chk.ob("C07.R1-sweep", "per-rank function: analysable number of paths", None, where, found=len(good))
        return
    for r in good:
        calls = [{"arg_ctx": e["arg_ctx"], "ts": e["ts"], "dur": e["dur"], "line": e["line"], "frame": merged_frame_of(e["arg_ctx"], e["ts"], e["dur"])} for e in r.events if e["kind"] == "merge-call"]
        _one_path(db, chk, where, TR, r, calls, (" [when " + T.show(r.cond())[:60] + "]") if r.path else "")
    _rest(db, chk, m, TR)


def _one_path(db, chk, where, TR, run_, calls, ptag):
    class _H:
        pass
    hook = _H()
    hook.calls = calls
    if len(calls) != 2:
        chk.ob("C07.R1-sweep", f"two merged operands{ptag}", False if len(calls) > 2 else None, where, found=len(calls), accepted=2, why="every path must sweep exactly the merged communication and the merged computation kernels")
        return
    ratio = to_term(run_.ret)
    kt = KT.kernel_type_term(db, ("getitem", T.P("sym_table"), T.col(TR, "name")))
    by_type = {}
    dev = None
    for c in hook.calls:
        rows = c["arg_ctx"][1]
        ok_cols = c["arg_ctx"][0] == TR and c["ts"] == T.col(TR, "ts") and c["dur"] == T.col(TR, "dur")
        chk.ob("C07.R1-sweep", f"{ptag}merge input (line {c['line']}) = rows of the trace frame with their own ts/dur", ok_cols, where,
               found=[T._ctx(c["arg_ctx"])[:200]], accepted="rows of the trace frame")
        for ty in ("COMMUNICATION", "COMPUTATION"):
            tyeq = T.cmp("==", kt, T.C(ty))
            if rows[0] == "and" and tyeq in rows[1]:
                rest = T.and_(*[x for x in rows[1] if x != tyeq])
                by_type[ty] = c
                dev = rest if dev is None else dev
                chk.ob("C07.R1-sweep", f"{ty} operand: same device-row predicate as the other operand", rest == dev, where,
                       found=T.show(rest), accepted=T.show(dev))
    chk.ob("C07.R1-sweep", "operands are the merged COMMUNICATION and COMPUTATION kernels (kernel type of the decoded name)", set(by_type) == {"COMMUNICATION", "COMPUTATION"},
           where, found=[T.show(c["arg_ctx"][1])[:300] for c in hook.calls], accepted="device rows & kernel_type == COMMUNICATION / COMPUTATION",
           why="any other selection changes numerator or denominator")
    if set(by_type) != {"COMMUNICATION", "COMPUTATION"}:
        return
    try:
        tt = {sv: bool(T.evaluate(dev, lambda leaf, sv=sv: sv if leaf == T.col(TR, "stream") else (_ for _ in ()).throw(T.Unknown(leaf)))) for sv in (-1, 0, 1, 7, 20)}
        chk.ob("C07.R1-sweep", "device rows = every stream except -1 (stream 0 included)", tt == {-1: False, 0: True, 1: True, 7: True, 20: True}, where,
               found={"predicate": T.show(dev), "table": tt}, accepted={-1: False, 0: True, 1: True, 7: True, 20: True})
    except T.Unknown:
        chk.ob("C07.R1-sweep", "device-row predicate reads only the stream column", False, where, found=T.show(dev), accepted="predicate over stream alone")
    Mcomm, Mcomp = by_type["COMMUNICATION"]["frame"], by_type["COMPUTATION"]["frame"]
    maps = _marker_maps(ratio, (Mcomm, Mcomp))
    vals = {}
    for base, d in maps:
        which = "COMMUNICATION" if base[1] == Mcomm.ctx() else "COMPUTATION" if base[1] == Mcomp.ctx() else None
        ok = which is not None and set(d) == {"ts", "end"} and isinstance(d.get("ts"), int) and d.get("end") == -d.get("ts") and d.get("ts") != 0
        chk.ob("C07.R1-sweep", f"markers of {which}: start +v, end -v, v != 0", ok, where, found=d, accepted="{'ts': v, 'end': -v}",
               why="the running sum must return to its previous value when the interval ends")
        if ok:
            vals[which] = d["ts"]
    if set(vals) != {"COMMUNICATION", "COMPUTATION"}:
        # (no marker at all: another sweep algorithm than the +-marker template - not understood; markers found but not one per operand: wrong)
        chk.ob("C07.R1-sweep", "one marker map per operand", False if (maps and not T.has_opaque(ratio)) else None, where, found=[d for _, d in maps] or "no +-marker sweep recognised in the ratio", accepted="two maps")
        return
    a, b = vals["COMMUNICATION"], vals["COMPUTATION"]
    chk.ob("C07.R1-sweep", "a+b differs from 0, a and b (overlap state is distinguishable)", (a + b) not in (0, a, b), where, found={"a": a, "b": b}, accepted="a, b, a+b non-zero")
    # reference sweeps (both concat orders, join form and column form)
    accepted = []
    for fname in ("sweep_join", "sweep_col", "sweep_join_labels", "sweep_col_labels"):
        for first, second, a1, a2 in ((Mcomm, Mcomp, a, b), (Mcomp, Mcomm, b, a)):
            rs = run_spec(db, SWEEP_SPEC, fname, lambda I, first=first, second=second, a1=a1, a2=a2: {
                "first": merged_frame_of(*first.base[1:]), "second": merged_frame_of(*second.base[1:]), "comm": merged_frame_of(*Mcomm.base[1:]),
                "A1": a1, "A2": a2, "TARGET": a + b})
            accepted.append(to_term(rs[0].ret))
    check_term(chk, "C07.R1-sweep", "ratio = sum(next_time - time over rows with running == a+b) / measure of merged communication kernels", where, ratio, accepted,
               "reference: time-sorted +-marker sweep with a fresh 0..n index before cumsum/shift; denominator must be the MERGED communication time "
               "(raw durations double-count concurrent communication kernels)")


def find_per_rank(m) -> str:
    """the per-rank function of the overlap analysis, found by ROLE: the callee of get_comm_comp_overlap (nested closure, method of the class, module function,
    or the __call__ of a module-level callable class instantiated in get_comm_comp_overlap) that - itself or through its private helpers - merges kernel intervals"""
    outer = m.func("CommunicationAnalysis.get_comm_comp_overlap")

    def merges(d_):
        return any(isinstance(x, ast.Call) and call_name(x).split(".")[-1] == "merge_kernel_intervals" for g_ in H.with_private_callees(m, d_, depth=2) for x in ast.walk(g_))
    found = None
    for c_ in ast.walk(outer):
        if not isinstance(c_, ast.Call):
            continue
        nm_ = call_name(c_).split(".")[-1]
        for q_ in (f"CommunicationAnalysis.get_comm_comp_overlap.{nm_}", f"CommunicationAnalysis.{nm_}", nm_, f"{nm_}.__call__"):
            d_ = m.functions.get(q_)
            if d_ is not None and d_ is not outer and merges(d_):
                found = q_
    if found is None:
        raise AnalysisError("get_comm_comp_overlap: no per-rank callee that merges kernel intervals was found")
    return found


def _rest(db, chk, m, TR):
    chk.floor("C07.R1-sweep", 8)

    # ---------------------------------------------------------------- outer plumbing
    ref3 = f"{CA}:CommunicationAnalysis.get_comm_comp_overlap"
    f3 = m.func("CommunicationAnalysis.get_comm_comp_overlap")

    def hook3(I, name, pos, kw, node):
        prq = find_per_rank(m)
        if (name == prq) if prq.endswith(".__call__") else (name.split(".")[-1] == prq.split(".")[-1]):
            return T.P("RATIO")
        return NotImplemented

    I = Interp(db, call_hook=hook3)
    runs = I.explore(ref3, lambda I: {"cls": Obj("cls", cls=(m, "CommunicationAnalysis")), "visualize": False,
                                      "t": Obj("t", attrs={"traces": {T.P("RANK"): Frame(TR)}, "symbol_table": Obj("symtab")})})
    if len(runs) != 1 or not isinstance(runs[0].ret, Frame):
        chk.ob("C07.R3-percentage", "get_comm_comp_overlap(visualize=False) returns a frame on one path", None, m.loc(f3), found=len(runs))
    else:
        R = runs[0].ret
        cd = lambda p: ("coldata", ("list", (T.P(p),)))
        check_term(chk, "C07.R3-percentage", "column rank", m.loc(f3), R.col("rank"), [cd("RANK")])
        check_term(chk, "C07.R3-percentage", "comp_comm_overlap_pctg = round(100 * ratio, 2)", m.loc(f3), R.col("comp_comm_overlap_pctg"),
                   [("round", T.mul(T.C(100), cd("RATIO")), T.C(2))])
    KT.check_kernel_type(db, chk, "C07.R2-classification")
    ta = db.mod("hta.trace_analysis")
    fac = ta.func("TraceAnalysis.get_comm_comp_overlap")
    cs = [c for c in H.calls(fac) if isinstance(c.func, ast.Attribute) and c.func.attr == "get_comm_comp_overlap"]
    for _p, _src, _v in H.rebinds_of_params(fac, ["visualize"]):
        chk.ob("C07.R-facade-integrity", f"facade forwards parameter {_p} unmodified", _v == "default-if-none", ta.loc(fac), found=_src, accepted="no re-binding, or `if p is None: p = <default>`",
               why="`p = p or default` replaces legitimate falsy values (a threshold of 0, an empty selection) by the default")
    if len(cs) != 1:
        from ..specs.discipline import check_facade_binding
        check_facade_binding(db, chk, "C07.R3-facade", "TraceAnalysis.get_comm_comp_overlap", CA, "CommunicationAnalysis.get_comm_comp_overlap", returns=lambda I: Frame(("overlap", I.new_id())))
        return
    bnd = H.bind_call(f3, cs[0])

    chk.ob("C07.R3-facade", "facade forwards trace and visualize", H.is_self_attr(bnd.get("t"), "t") and H.name_id(bnd.get("visualize")) == "visualize",
           ta.loc(cs[0]), found={k: ast.unparse(v) for k, v in bnd.items()}, accepted={"t": "self.t", "visualize": "visualize"})


def thorough(db, chk) -> None:
    """Validate the REFERENCE sweep (SWEEP_SPEC, the checker's own pandas source - not repository code) under the installed pandas
    against a brute-force oracle on every pair of small merged-interval families: ratio == |comm ∩ comp| / |comm|."""
    import pandas as pd
    ns: dict = {}
    exec(compile(SWEEP_SPEC, "<C07 reference sweep>", "exec"), ns)
    pts = range(0, 4)
    ivs = [(a, b) for a in pts for b in pts if a <= b]
    fams = [(i,) for i in ivs] + [(i, j) for i in ivs for j in ivs if i[1] <= j[0] and i != j]
    cells = lambda fam: {x for a, b in fam for x in range(a, b)}
    frame = lambda fam: pd.DataFrame({"ts": [a for a, _ in fam], "end": [b for _, b in fam]})
    n = bad = 0
    first = None
    for comm in fams:
        cc = cells(comm)
        if not cc:
            continue
        for comp in fams:
            want = len(cc & cells(comp)) / len(cc)
            for fname in ("sweep_join", "sweep_col", "sweep_join_labels", "sweep_col_labels"):
                for (f1, f2, a1, a2) in ((comm, comp, 1, 2), (comp, comm, 2, 1)):
                    got = ns[fname](frame(f1), frame(f2), frame(comm), a1, a2, 3)
                    n += 1
                    if abs(float(got) - want) > 1e-12:
                        bad += 1
                        first = first or (fname, comm, comp, float(got), want)
    chk.ob("C07.T1-reference-validated", f"reference sweep == brute-force overlap ratio on all {n} (family pair, form, order) cases (endpoints 0..3, <= 2 intervals each, touching and empty intervals included)",
           bad == 0, "sa/props/c07.py:SWEEP_SPEC", found=f"{bad} disagreeing" + (f", first {first}" if first else ""), accepted="0 disagreeing",
           why="the template the code is compared with must itself compute the overlap ratio")
    chk.analysed_add("template_cases", f"sweep:{n}")
