"""C02 - correlation links pair each launch call with its device activity, mutually (structural clauses)."""
from __future__ import annotations

import ast
import itertools

from ..core import terms as T
from ..core import asthelp as H
from ..core.interp import Interp, assume
from ..core.progdb import AnalysisError, walk_no_nested
from ..core.values import Frame, Obj, PyTuple, to_term
from ..specs.merge import check_term

EXPLANATION = (
    "Symbolic column-term evaluation of trace.transform_correlation_to_index (with CPUOperatorFilter / GPUKernelFilter / "
    "_filter_gpu_kernels_with_cuda_sync inlined) on every path, get_cpu_gpu_correlation and the consumer CallStackGraph._link_cpu_and_gpu, plus a "
    "who-may-write scan of all of hta for the index_correlation column. Decides: the two side predicates, evaluated as complete decision tables over "
    "stream in {-1,positive}, correlation in {-1,0,positive}, name in {Event Sync, Context Sync, other}, are gpu = (stream>=0 & correlation>=0) | sync and "
    "cpu = not gpu (disjoint and exhaustive); the link frame is an inner join on correlation of the rows with correlation != -1; exactly two label-addressed "
    "stores x<-y and y<-x with position-based right-hand sides; the sentinel initialisation min(correlation, 0) precedes them on every path that has a "
    "correlation column; no other writer; the gpu_index/cpu_index renaming agrees with its consumer. Uniqueness of correlation ids is an input assumption."
    " Later additions: the link frame is written unfiltered; the trim keeps pairs together (side complement on an abstract grid, no time cut on the device side); no id truthiness tests in the side predicates."
)
TM = "hta.common.trace"
ES, CS, OTHER = 0, 1002, 5          # (Event Sync is given id 0: which symbol gets 0 is arbitrary, and tests like `if sym_id` / `> 0` must not lose it)


def _side_leaf(DF, vals):
    def leaf(t):
        if t == T.col(DF, "stream"):
            return vals["stream"]
        if t == T.col(DF, "correlation"):
            return vals["correlation"]
        if t == T.col(DF, "name"):
            return vals["name"]
        if t[0] == "call" and str(t[1]).endswith(".get") and len(t) >= 3 and T.is_const(t[2]):
            if t[2][1] == "Event Sync":
                return ES
            if t[2][1] == "Context Sync":
                return CS
        if t[0] == "getitem" and len(t) == 3 and T.is_const(t[2]) and t[2][1] in ("Event Sync", "Context Sync"):
            return ES if t[2][1] == "Event Sync" else CS
        if t[0] == "in" and t[1] == T.col(DF, "name"):
            # the ids of the symbols selected by a predicate over the symbol strings: decided on representatives of the row's name class (near misses stand for 'any other name')
            from ..specs.symset import class_in_symbol_set, NEAR_MISSES
            r = class_in_symbol_set(t[2], {ES: ["Event Sync"], CS: ["Context Sync"]}.get(vals["name"], NEAR_MISSES))
            if r is not None:
                return r
        raise T.Unknown(t)
    return leaf


def run(db, chk) -> None:
    from .c12 import check_trim
    check_trim(db, chk, "C02.R6-links-survive-trimming")     # links are written at parse time; the only later row removal keeps launch/activity pairs together
    check_links(db, chk)
    chk.floor("C02.R1-side-tables", 1)
    chk.floor("C02.R3-mutual-stores", 2)


def check_links(db, chk) -> None:
    """the link rules of transform_correlation_to_index (also a clause of C12: a device activity takes the iteration of the launch call it is LINKED to)"""
    m = db.mod(TM)
    rule = "C02"
    ref = f"{TM}:transform_correlation_to_index"
    fn = m.func("transform_correlation_to_index")
    where = m.loc(fn)
    chk.analysed_add("functions", [ref, "hta.common.trace_filter:CPUOperatorFilter.__call__", "hta.common.trace_filter:GPUKernelFilter.__call__",
                                   "hta.common.trace_filter:_filter_gpu_kernels_with_cuda_sync"])
    DF = ("param", "DF")
    st = db.mod("hta.common.trace_symbol_table")
    I = Interp(db, decide=assume(("hascol", DF, "correlation")))
    runs = I.explore(ref, lambda I: {"df": Frame(DF), "symbol_table": Obj("symtab", cls=(st, "TraceSymbolTable"))})
    runs = [r for r in runs if r.raised is None]
    if not runs or len(runs) > 8:
        chk.ob("C02.R4-sentinel", "paths of transform_correlation_to_index", None, where, found=len(runs))
        return
    CORR, IDX = T.col(DF, "correlation"), T.col(DF, "index")
    grid = [dict(stream=s, correlation=c, name=n) for s in (-1, 7) for c in (-1, 0, 5) for n in (ES, CS, OTHER)]
    for pi, r in enumerate(runs):
        tag = f"path {pi + 1}/{len(runs)}" + (f" [{T.show(r.cond())[:60]}]" if r.path else "")
        ev = [e for e in r.events if e.get("module") == TM]
        muts = [e for e in ev if e["kind"] == "frame-mutation" and e.get("column") == "index_correlation"]
        init = [e for e in muts if e["what"] == "setcol"]
        stores = [e for e in muts if e["what"] == "loc-store"]
        # ---- R4 sentinel initialisation
        exp_init = T.min2(CORR, T.C(0))
        def _nocast(t_):          # the sentinel column holds ids: a cast of its initial value to a FULL-WIDTH integer / float type keeps every value (a narrowing cast stays)
            while isinstance(t_, tuple) and len(t_) == 3 and t_[0] == "astype" and isinstance(t_[1], tuple) and len(t_[1]) == 2 and str(t_[1][1]).split(".")[-1] in ("int64", "int", "float64", "float", "Int64"):
                t_ = t_[2]
            return t_
        ok_init = bool(init) and _nocast(init[0]["term"]) == exp_init and all(init[0]["line"] < s["line"] for s in stores)
        chk.ob("C02.R4-sentinel", f"{tag}: index_correlation initialised to min(correlation, 0) before any link is written", ok_init, where,
               found=[T.show(e["term"])[:120] for e in init[:1]] or "no initialisation", accepted=T.show(exp_init),
               why="-1 without id, 0 with an id whose partner is absent; a path that skips or replaces it writes the wrong sentinel")
        # ---- R2 join
        joins = [e for e in ev if e["kind"] == "join"]
        if len(joins) != 1:
            chk.ob("C02.R2-join", f"{tag}: one join of host and device rows", None if len(joins) == 0 and not stores else False, where, found=len(joins), accepted=1)
            continue
        J = joins[0]
        jbase = ("join", J["how"], J["left"], J["right"], J["left_key_terms"], J["right_key_terms"], J["suffixes"])
        chk.ob("C02.R2-join", f"{tag}: link frame = inner join on correlation", J["how"] == "inner" and J["left_key_terms"] == (CORR,) and J["right_key_terms"] == (CORR,), where,
               found=[J["how"]] + [T.show(x) for x in J["left_key_terms"] + J["right_key_terms"]], accepted=["inner", "correlation", "correlation"],
               why="another key links different ids; outer/left joins write NaN links")
        # ---- R1 side tables
        Lc, Rc = J["left"], J["right"]
        ok_tables = True
        detail = []
        try:
            for v in grid:
                leaf = _side_leaf(DF, v)
                inrange = v["correlation"] != -1
                gpu_spec = inrange and ((v["stream"] >= 0 and v["correlation"] >= 0) or v["name"] in (ES, CS))
                cpu_spec = inrange and not ((v["stream"] >= 0 and v["correlation"] >= 0) or v["name"] in (ES, CS))
                cpu_got, gpu_got = bool(T.evaluate(Lc[1], leaf)), bool(T.evaluate(Rc[1], leaf))
                if cpu_got != cpu_spec or gpu_got != gpu_spec:
                    ok_tables = False
                    detail.append({**v, "cpu": cpu_got, "gpu": gpu_got, "expected": {"cpu": cpu_spec, "gpu": gpu_spec}})
        except T.Unknown as u:
            ok_tables = None
            detail.append("predicate reads " + T.show(u.args[0])[:120])
        chk.ob("C02.R1-side-tables", f"{tag}: host side and device side of the join are complementary on the {len(grid)} abstract cases (among rows with correlation != -1)",
               ok_tables if Lc[0] == DF and Rc[0] == DF else False, where, found=detail[:4] or f"{len(grid)} cases agree",
               accepted="gpu = (stream >= 0 & correlation >= 0) | name in {Event Sync, Context Sync}; cpu = not gpu",
               why="overlap links an event to its own side; a gap leaves a launch or an activity unlinked (e.g. a sync event on stream -1)")
        # ---- R3 mutual stores
        jlx, jry = ("jl", jbase, IDX), ("jr", jbase, IDX)
        got = []
        for s in stores:
            v = s["value"]
            positional = isinstance(v, tuple) and v and v[0] == "positional"
            vt = v[1] if positional else v
            got.append((s["how"], s["rowsel"], vt, positional))
        want = {("labels", jlx, jry, True), ("labels", jry, jlx, True)}
        ok = set(got) == want and len(got) == 2
        soft = [g for g in got if g[:3] in {w[:3] for w in want} and not g[3]]
        chk.ob("C02.R3-mutual-stores", f"{tag}: exactly two link stores, host<-device and device<-host, addressed by event id with position-based values", ok, where,
               found=[(h, T.show(a)[:60], T.show(b)[:60], "positional" if p else "label-aligned") for h, a, b, p in got],
               accepted=[("labels", "index_x", "index_y.values"), ("labels", "index_y", "index_x.values")],
               why="a missing/duplicated direction breaks mutuality; a label-aligned right-hand side writes unrelated or NaN ids" + (" (label-aligned RHS found)" if soft else ""))
        # the pairs written are ALL pairs of the join: no row of the link frame is filtered away between the join and the stores
        ctxs = [s_.get("rowsel_ctx") for s_ in stores] + [s_["value"][2] for s_ in stores if isinstance(s_["value"], tuple) and s_["value"] and s_["value"][0] == "positional" and len(s_["value"]) > 2]
        unfiltered = bool(ctxs) and all(isinstance(c_, tuple) and len(c_) == 3 and c_[0] == jbase and c_[1] == T.TRUE for c_ in ctxs)
        chk.ob("C02.R3-mutual-stores", f"{tag}: every pair of the join is written (the link frame is not filtered between the join and the stores)", unfiltered, where,
               found=[T._ctx(c_)[:160] if isinstance(c_, tuple) else str(c_) for c_ in ctxs][:2], accepted="all rows of the inner join",
               why="dropping 'implausible' pairs (e.g. activity stamped before its launch) leaves both partners with the sentinel 0 although the counterpart is in the trace")
        # final value flows out
        ret = r.ret
        chk.ob("C02.R3-mutual-stores", f"{tag}: the frame returned is the frame that was linked", isinstance(ret, Frame) and ret.base == DF and ret.obj == init[0]["obj"] if init else False, where,
               found=repr(ret)[:80], accepted="df")
    tfm = db.mod("hta.common.trace_filter")
    side_funcs = ["_filter_gpu_kernels_with_cuda_sync"] + [H.resolve_method(tfm, c_, "__call__") for c_ in ("GPUKernelFilter", "CPUOperatorFilter")]
    if None in side_funcs:
        raise AnalysisError("anchor vanished: GPUKernelFilter / CPUOperatorFilter have no __call__ (own or inherited inside trace_filter)")
    for q in dict.fromkeys(side_funcs):
        callees = [q] + [c for c in tfm.functions if "." not in c and any(isinstance(x, ast.Call) and H.name_id(x.func) == c for x in ast.walk(tfm.func(q)))]
        for cq in callees:
            sm = H.shared_state_mutations(tfm, tfm.func(cq))
            chk.ob("C02.R1-side-tables", f"{cq}: the side predicate is computed from the symbol table passed in, with no state kept across calls", not sm, tfm.loc(tfm.func(cq)), found=sm, accepted="no module-/class-level cache",
                   why="ids cached per table object go stale when the table grows or its id() is reused: sync events are then put on the wrong side")
    from .c11 import id_truthiness_sites
    tr_, nl_ = id_truthiness_sites(db, modules={"hta.common.trace_filter", "hta.common.trace"})
    chk.ob("C02.R1-side-tables", f"the side predicates never test a symbol id for truthiness ({nl_} lookups in trace_filter / trace)", not tr_ and nl_ >= 2, "hta/common/trace_filter.py", found=tr_ or "none",
           accepted="`.get(name, -1)` sentinels, no `if id` / `id or default`", why="when 'Event Sync' happens to be symbol 0, `if sym_id_map.get(name)` drops it: sync records change sides and lose their links")

    # ---------------------------------------------------------------- who may write
    writers = []
    for mod, q, f in db.all_functions():
        for n in walk_no_nested(f):
            tgt = None
            if isinstance(n, (ast.Assign, ast.AugAssign, ast.AnnAssign)):
                tgts = n.targets if isinstance(n, ast.Assign) else [n.target]
                for t in tgts:
                    for s in ast.walk(t):
                        if isinstance(s, ast.Subscript) and isinstance(s.ctx, ast.Store):
                            key = s.slice
                            consts = [c.value for c in ast.walk(key) if isinstance(c, ast.Constant)]
                            # a store INTO the column: df["index_correlation"] = / df.loc[..., "index_correlation"] =
                            direct = isinstance(key, ast.Constant) and key.value == "index_correlation"
                            loc = isinstance(key, ast.Tuple) and len(key.elts) == 2 and isinstance(key.elts[1], ast.Constant) and key.elts[1].value == "index_correlation"
                            if direct or loc:
                                writers.append((f"{mod.name}:{q}", mod.loc(n)))
                        if isinstance(s, ast.Attribute) and isinstance(s.ctx, ast.Store) and s.attr == "index_correlation":
                            writers.append((f"{mod.name}:{q}", mod.loc(n)))
    outside = [w for w in writers if w[0] != ref]
    chk.ob("C02.R4-who-may-write", "only transform_correlation_to_index stores into the index_correlation column", not outside, where, found=outside, accepted=[ref],
           why="a second writer can overwrite links or sentinels after they were established")
    chk.analysed_add("index_correlation_writers", writers)

    # ---------------------------------------------------------------- R5 get_cpu_gpu_correlation
    ref5 = f"{TM}:get_cpu_gpu_correlation"
    f5 = m.func("get_cpu_gpu_correlation")
    I = Interp(db)
    runs = I.explore(ref5, lambda I: {"df": Frame(DF)})
    runs = [r for r in runs if r.raised is None and isinstance(r.ret, Frame)]
    if len(runs) != 1:
        chk.ob("C02.R5-pairs", "get_cpu_gpu_correlation: one path returning a frame", None, m.loc(f5), found=len(runs))
    else:
        R = runs[0].ret
        sel = T.and_(T.cmp(">", T.col(DF, "stream"), T.C(0)), T.cmp(">", T.col(DF, "index_correlation"), T.C(0)))
        rows = R.rows
        exp_rows = ("index_in", ("index", DF), IDX, (DF, sel, None))
        chk.ob("C02.R5-pairs", "pairs listed = device rows (stream > 0) with a linked partner (index_correlation > 0), addressed by event id", rows == exp_rows, m.loc(f5),
               found=T.show(rows)[:200], accepted=T.show(exp_rows)[:200], why="0 is the partner-absent sentinel and must not be read as an event id")
        check_term(chk, "C02.R5-pairs", "gpu_index = the device event's id", m.loc(f5), R.col("gpu_index"), [IDX])
        check_term(chk, "C02.R5-pairs", "cpu_index = the device event's link (its launch call)", m.loc(f5), R.col("cpu_index"), [T.col(DF, "index_correlation")])
    cs = db.mod("hta.common.trace_call_stack")
    lk = cs.func("CallStackGraph._link_cpu_and_gpu")
    calls = [c for c in H.calls(lk) if isinstance(c.func, ast.Attribute) and c.func.attr == "_add_edge"]
    proj = [n for n in ast.walk(lk) if isinstance(n, ast.List) and [H.str_const(e) for e in n.elts] == ["cpu_index", "gpu_index"]]
    loop = [n for n in ast.walk(lk) if isinstance(n, ast.For) and isinstance(n.target, ast.Tuple) and len(n.target.elts) == 2]
    ok = False
    if len(calls) == 1 and len(proj) == 1 and len(loop) == 1:
        a_, b_ = (H.name_id(e) for e in loop[0].target.elts)
        ok = [H.name_id(x) for x in calls[0].args[:2]] == [a_, b_] and any(calls[0] is x for x in ast.walk(loop[0]))
    chk.ob("C02.R5-pairs", "consumer reads (cpu_index, gpu_index) in that order and adds the edge launch call -> device activity", ok, cs.loc(lk),
           found={"projection": [ast.unparse(p) for p in proj], "edge": [ast.unparse(c) for c in calls]}, accepted="[['cpu_index','gpu_index']] ... _add_edge(cpu_index, gpu_index, GPU)")
