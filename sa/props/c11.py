"""C11 - symbol ids are a stable bijection; results ignore id numbering and parse order (structural clauses)."""
from __future__ import annotations

import ast
from typing import List, Set, Tuple

from ..core import asthelp as H
from ..core.progdb import AnalysisError, walk_no_nested, call_name, lit
from ..core import terms as T
from ..core.interp import Interp
from ..core.values import Frame, Obj

EXPLANATION = (
    "Effect / alias analysis over all of hta for the two symbol-table containers (sym_table, sym_index) including every alias handed out by the getters: only "
    "__init__, add_symbols, clone and create_from_symbol_id_map may write them, add_symbols is append-only under a membership guard with the new id taken before "
    "the append and both stores in the guarded block; re-encoding composition rule (new code = global_map[local_table[old]] with the same rank's local table, the "
    "global map read after all ranks' symbols were added, no narrowing cast); ordered-collection rule (pool.map paired with the rank list by zip; no unordered "
    "primitive); id-opacity scan: no order-sensitive or arithmetic use of an encoded name/cat column anywhere in hta outside a frozen, justified table. NOT decided: "
    "delivery guarantees of multiprocessing, hash-seed effects inside pandas."
    " Later additions: rank/file association, derived Series views refreshed by length, per-file encoding through the table's id map, no module-level state, no id truthiness anywhere in hta."
)
ST = "hta.common.trace_symbol_table"
TM = "hta.common.trace"
MUTATORS = {"append", "extend", "insert", "pop", "remove", "clear", "sort", "reverse", "update", "setdefault", "popitem", "__setitem__", "__delitem__"}
GETTERS = {"get_sym_table": "sym_table", "get_sym_id_map": "sym_index", "get_sym_index": "sym_index"}
ALLOWED_WRITERS = {"TraceSymbolTable.__init__", "TraceSymbolTable.add_symbols", "TraceSymbolTable.clone", "TraceSymbolTable.create_from_symbol_id_map"}


def _container_expr(e: ast.AST):
    """'sym_table' / 'sym_index' if the expression denotes one of the containers (attribute or getter call)"""
    if isinstance(e, ast.Attribute) and e.attr in ("sym_table", "sym_index"):
        return e.attr
    if isinstance(e, ast.Call) and isinstance(e.func, ast.Attribute) and e.func.attr in GETTERS:
        return GETTERS[e.func.attr]
    return None


def _mutations(db) -> Tuple[List[tuple], int]:
    out = []
    alias_sites = 0
    for mod, q, f in db.all_functions():
        aliases = {}
        for n in walk_no_nested(f):
            if isinstance(n, ast.Assign) and len(n.targets) == 1 and isinstance(n.targets[0], ast.Name):
                c = _container_expr(n.value)
                if c:
                    aliases[n.targets[0].id] = c
            if isinstance(n, ast.AnnAssign) and isinstance(n.target, ast.Name) and n.value is not None:
                c = _container_expr(n.value)
                if c:
                    aliases[n.target.id] = c
        for n in walk_no_nested(f):
            if _container_expr(n) and not (mod.name == ST and q.startswith("TraceSymbolTable.")):
                alias_sites += 1

        def denotes(e):
            c = _container_expr(e)
            if c:
                return c
            if isinstance(e, ast.Name) and e.id in aliases:
                return aliases[e.id]
            return None
        for n in walk_no_nested(f):
            where = (f"{mod.name}:{q}", mod.loc(n))
            if isinstance(n, (ast.Assign, ast.AugAssign, ast.AnnAssign, ast.Delete)):
                tgts = n.targets if isinstance(n, (ast.Assign, ast.Delete)) else [n.target]
                for t in tgts:
                    for s in ast.walk(t):
                        if isinstance(s, ast.Attribute) and isinstance(s.ctx, (ast.Store, ast.Del)) and s.attr in ("sym_table", "sym_index"):
                            on_self_elsewhere = isinstance(s.value, ast.Name) and s.value.id == "self" and not (mod.name == ST and q.startswith("TraceSymbolTable."))
                            if on_self_elsewhere and isinstance(n, (ast.Assign, ast.AnnAssign)):
                                continue   # another class binding ITS OWN attribute of the same name (an alias of the container or a value handed in): not a store into the table; mutations through it are still tracked
                            out.append(where + (f"rebind .{s.attr}", ast.unparse(n)[:100]))
                        if isinstance(s, ast.Subscript) and isinstance(s.ctx, (ast.Store, ast.Del)) and denotes(s.value):
                            out.append(where + (f"item store into {denotes(s.value)}", ast.unparse(n)[:100]))
            if isinstance(n, ast.Call) and isinstance(n.func, ast.Attribute) and n.func.attr in MUTATORS and denotes(n.func.value):
                out.append(where + (f"{n.func.attr}() on {denotes(n.func.value)}", ast.unparse(n)[:100]))
    return out, alias_sites


def _decode_in_place(db, chk, st):
    """add_symbols_to_trace_df (ids of a column expanded to strings in place): every id of the table - 0 and the last one included - expands to ITS string,
    anything outside (the -1 of 'no annotation') to ''.  Decided on the evaluated column: a truth table of the validity test and the look-up it guards."""
    rule = "C11.R9-decode-in-place"
    q = "TraceSymbolTable.add_symbols_to_trace_df"
    fdef = st.functions.get(q)
    if fdef is None:
        chk.note("C11: TraceSymbolTable.add_symbols_to_trace_df is absent (nothing to decide)")
        return
    where = st.loc(fdef)
    DF = ("param", "DF")
    box = {}

    def args(I):
        box["f"] = Frame(DF)
        ps = [p_ for p_ in H.param_names(fdef) if p_ != "self"]
        return {"self": Obj("self", cls=(st, "TraceSymbolTable"), attrs={"sym_table": T.P("TABLE")}), ps[0]: box["f"], ps[1]: "name"}
    try:
        runs = [r for r in Interp(db).explore(f"{ST}:{q}", args) if r.raised is None]
    except AnalysisError:
        runs = []
    chk.analysed_add("functions", f"{ST}:{q}")
    if not runs:
        chk.ob(rule, "add_symbols_to_trace_df evaluated", None, where, found="no normal path")
        return
    NAME = T.col(DF, "name")
    for r in runs[:2]:
        t = box["f"].col("name") if len(runs) == 1 else None
        t = t if t is not None else box["f"].col("name")
        t = t[2] if isinstance(t, tuple) and len(t) == 3 and t[0] == "mapf" else t
        if not (isinstance(t, tuple) and len(t) == 4 and t[0] == "ite"):
            chk.ob(rule, "the decoded column is a guarded look-up (valid id -> its string, otherwise '')", None if T.has_opaque(t) or t == NAME else None, where, found=T.show(t)[:160])
            return
        cond, a, b = t[1], t[2], t[3]
        if a == T.C(""):
            cond, a, b = T.not_(cond), b, a
        try:
            tt = {v: bool(T.evaluate(cond, lambda leaf, v=v: v if leaf == NAME else 3 if (isinstance(leaf, tuple) and leaf and leaf[0] in ("len", "nrows")) else (_ for _ in ()).throw(T.Unknown(leaf)))) for v in (-1, 0, 1, 2, 3, 4)}
        except T.Unknown as u:
            tt = None
            chk.ob(rule, "the validity test reads the id and the table's length only", None, where, found=T.show(u.args[0])[:100])
        if tt is not None:
            chk.ob(rule, "an id is expanded iff it is an index of the table: 0 <= id < len(table) (id 0 and the last id included)", tt == {-1: False, 0: True, 1: True, 2: True, 3: False, 4: False}, where,
                   found={str(k): v for k, v in tt.items()}, accepted="valid for 0, 1, 2 of a three-entry table; invalid for -1, 3, 4",
                   why="which symbol has id 0 is arbitrary (hash seed, parse order): a test that excludes 0 blanks the name of whatever symbol got it")
        lookups = [x for x in T.subterms(a) if x == NAME]
        chk.ob(rule, "a valid id is looked up at ITS OWN position (no offset), everything else becomes ''", bool(lookups) and b == T.C("") and not any(isinstance(x, tuple) and x and x[0] == "lin" and NAME in [y[0] for y in x[1]] for x in T.subterms(a)), where,
               found={"valid": T.show(a)[:100], "otherwise": T.show(b)[:40]}, accepted="table[id] / ''")
        break
    chk.floor(rule, 2)


def _combine(db, chk, st):
    """combine_symbol_tables extends the FIRST table: its ids are kept and the symbols the later tables add are appended in table order (no id depends on the
    iteration order of a set of strings, which changes with the hash seed).  Decided by an abstract run on two small tables whose order is not alphabetical."""
    rule = "C11.R10-combine-extends"
    q = "TraceSymbolTable.combine_symbol_tables"
    fdef = st.functions.get(q)
    if fdef is None:
        chk.note("C11: TraceSymbolTable.combine_symbol_tables is absent (nothing to decide)")
        return
    where = st.loc(fdef)
    mk = lambda name, syms: Obj(name, cls=(st, "TraceSymbolTable"), attrs={"sym_table": list(syms), "sym_index": {s_: i for i, s_ in enumerate(syms)}})
    ps = H.param_names(fdef)
    I = Interp(db)
    try:
        runs = [r for r in I.explore(f"{ST}:{q}", lambda I: {ps[-1]: [mk("T1", ["zeta", "alpha"]), mk("T2", ["alpha", "omega", "beta"])]}) if r.raised is None]
    except AnalysisError:
        runs = []
    chk.analysed_add("functions", f"{ST}:{q}")
    res = runs[0].ret if len(runs) == 1 and not runs[0].path else None
    tab = res.attrs.get("sym_table") if isinstance(res, Obj) else None
    idx = res.attrs.get("sym_index") if isinstance(res, Obj) else None
    concrete = isinstance(tab, list) and all(isinstance(x, str) for x in tab) and isinstance(idx, dict) and all(isinstance(k, str) and isinstance(v, int) for k, v in idx.items())
    want = ["zeta", "alpha", "omega", "beta"]
    unordered = [e for e in runs[0].events if e["kind"] == "unordered-walk"] if len(runs) == 1 else []
    chk.ob(rule, "the combined table keeps the ids of the first table and appends the new symbols of the later tables in their order",
           (tab == want and idx == {s_: i for i, s_ in enumerate(want)} and not unordered) if concrete else None, where,
           found={"sym_table": tab, "walks in set order": [e.get("line") for e in unordered]} if concrete else f"{len(runs)} path(s), result not concrete", accepted=want,
           why="ids handed out in the iteration order of a set of strings change with the hash seed and re-number the first table: frames encoded with it decode to other strings")


def check_reencoding(db, chk, RULE):
    """(decided on the final state of the symbolically evaluated loaders - see check_loader_semantics)"""
    check_loader_semantics(db, chk, None, RULE)


def check_rank_association(db, chk, rule: str) -> None:
    """shared by C01 (a rank's frame is the image of THAT rank's file) and C11 (schedule independence)"""
    tm = db.mod(TM)
    f = H.inline_helpers(tm, tm.func("Trace.parse_multiple_ranks"))
    where = tm.loc(f)
    pool_vars = {H.name_id(it.optional_vars) for w in ast.walk(f) if isinstance(w, ast.With) for it in w.items if "Pool(" in ast.unparse(it.context_expr) and it.optional_vars is not None}
    pool_vars |= {H.name_id(t) for t, v, s_ in H.assignments(f) if "Pool(" in ast.unparse(v)}
    pool_calls = [c for c in ast.walk(f) if isinstance(c, ast.Call) and isinstance(c.func, ast.Attribute) and isinstance(c.func.value, ast.Name) and c.func.value.id in pool_vars
                  and c.func.attr not in ("close", "join", "terminate")]
    prims = sorted({c.func.attr for c in pool_calls})
    _ob_absent(chk, rule, "worker results are collected with an order-preserving primitive only", prims == ["map"], where, found=prims, accepted=["map"],
           why="imap_unordered / apply_async deliver in completion order: zip(ranks, results) would store one rank's frame, metadata and local table under another rank")
    check_loader_semantics(db, chk, rule, None)

def id_truthiness_sites(db, modules=None):
    """(sites, number of lookups scanned): symbol-id lookups (`<sym_index / id map>.get(..)`, `<...>[..]`) standing in a boolean position -
    `lookup or default`, `if lookup`, `not lookup`, a comprehension filter - where the valid id 0 counts as 'missing'"""
    def is_id_lookup(e):
        if isinstance(e, ast.Call) and isinstance(e.func, ast.Attribute) and e.func.attr == "get":
            r = ast.unparse(e.func.value)
            return any(k_ in r for k_ in ("sym_index", "sym_id_map", "get_sym_id_map", "s_map"))
        if isinstance(e, ast.Subscript):
            r = ast.unparse(e.value)
            return any(k_ in r for k_ in ("sym_index", "sym_id_map", "get_sym_id_map"))
        return False
    truthy, nlook = [], 0
    for mod in db.modules.values():
        if modules is not None and mod.name not in modules:
            continue
        for n in ast.walk(mod.tree):
            if is_id_lookup(n):
                nlook += 1
            ops = []
            if isinstance(n, ast.BoolOp):
                ops = n.values
            elif isinstance(n, ast.UnaryOp) and isinstance(n.op, ast.Not):
                ops = [n.operand]
            elif isinstance(n, (ast.If, ast.While, ast.IfExp)):
                ops = [n.test]
            elif isinstance(n, ast.comprehension):
                ops = list(n.ifs)
            for o in ops:
                if is_id_lookup(o):
                    truthy.append(f"{mod.loc(o)}: {' '.join(ast.unparse(n).split())[:90]}")
    return truthy, nlook


def _add_symbols_run(db, st):
    """add_symbols evaluated on a small concrete table: (verdict, final state) or None when the run does not end in concrete containers"""
    from ..core.interp import Interp
    try:
        runs = [r for r in Interp(db).explore(f"{st.name}:TraceSymbolTable.add_symbols", lambda I: {"self": Obj("self", cls=(st, "TraceSymbolTable"), attrs={"sym_table": ["a", "b"], "sym_index": {"a": 0, "b": 1}}),
                                                                                                      "symbols": ["b", "c", "c", "d", "a"]}) if r.raised is None]
    except AnalysisError:
        return None
    if len(runs) != 1 or runs[0].path:
        return None
    so = runs[0].env.get("self")
    tab, idx = (so.attrs.get("sym_table"), so.attrs.get("sym_index")) if isinstance(so, Obj) else (None, None)
    unc = lambda v: v[1] if isinstance(v, tuple) and len(v) == 2 and v[0] == "const" else v
    if not (isinstance(tab, list) and isinstance(idx, dict) and all(isinstance(unc(x), str) for x in tab) and all(isinstance(unc(k), str) and isinstance(unc(v), int) for k, v in idx.items())):
        return None
    got = {"sym_table": [unc(x) for x in tab], "sym_index": {unc(k): unc(v) for k, v in idx.items()}}
    return got == {"sym_table": ["a", "b", "c", "d"], "sym_index": {"a": 0, "b": 1, "c": 2, "d": 3}}, got


def _add_symbols_effects(f):
    """(verdict, details) for TraceSymbolTable.add_symbols: inside the loop over the given symbols, a symbol that is NOT yet in the index gets
    id = the table's length BEFORE it is appended, is appended once and indexed once; a symbol already present causes no effect.
    Local aliases of the two containers and the guard forms `if s not in index: ...` / `if s in index: continue` are recognised."""
    alias = {}
    for t, v, s_ in H.assignments(f, nested=False):
        if isinstance(t, ast.Name) and H.is_self_attr(v) and v.attr in ("sym_table", "sym_index"):
            alias[t.id] = v.attr

    def which(e):
        if H.is_self_attr(e) and e.attr in ("sym_table", "sym_index"):
            return e.attr
        if isinstance(e, ast.Name) and e.id in alias:
            return alias[e.id]
        return None
    loops = [n for n in f.body if isinstance(n, ast.For)]
    if len(loops) != 1 or not isinstance(loops[0].target, ast.Name):
        return None, {"loops": len(loops)}
    lp = loops[0]
    v = lp.target.id
    body = list(lp.body)
    det = {"body": [" ".join(ast.unparse(s_).split())[:80] for s_ in body]}

    def member_test(t):
        """+1: `v not in INDEX`, -1: `v in INDEX`, 0: something else"""
        if isinstance(t, ast.UnaryOp) and isinstance(t.op, ast.Not):
            return -member_test(t.operand)
        if isinstance(t, ast.Compare) and len(t.ops) == 1 and H.name_id(t.left) == v and which(t.comparators[0]) == "sym_index":
            return 1 if isinstance(t.ops[0], ast.NotIn) else -1 if isinstance(t.ops[0], ast.In) else 0
        return 0
    eff = None
    if len(body) == 1 and isinstance(body[0], ast.If) and not body[0].orelse and member_test(body[0].test) == 1:
        eff = body[0].body
    elif body and isinstance(body[0], ast.If) and not body[0].orelse and member_test(body[0].test) == -1 and len(body[0].body) == 1 and isinstance(body[0].body[0], ast.Continue):
        eff = body[1:]
    elif len(body) == 1 and isinstance(body[0], ast.If) and member_test(body[0].test) == -1 and len(body[0].body) == 1 and isinstance(body[0].body[0], (ast.Pass, ast.Continue)) and body[0].orelse:
        eff = body[0].orelse
    if eff is None:
        guarded = any(isinstance(s_, ast.If) and member_test(s_.test) != 0 for s_ in body)
        return (None if guarded else False), det          # no membership guard at all: existing symbols would be renumbered
    # effects in order
    appended, stored, idvar, bad = 0, 0, None, []
    for s_ in eff:
        if isinstance(s_, ast.Expr) and isinstance(s_.value, ast.Constant):
            continue
        m_len = isinstance(s_, ast.Assign) and len(s_.targets) == 1 and isinstance(s_.targets[0], ast.Name) and isinstance(s_.value, ast.Call) and H.name_id(s_.value.func) == "len" \
            and len(s_.value.args) == 1 and which(s_.value.args[0]) == "sym_table"
        if m_len and appended == 0:
            idvar = s_.targets[0].id
            continue
        if isinstance(s_, ast.Expr) and isinstance(s_.value, ast.Call) and isinstance(s_.value.func, ast.Attribute) and s_.value.func.attr == "append" and which(s_.value.func.value) == "sym_table" \
                and len(s_.value.args) == 1 and H.name_id(s_.value.args[0]) == v:
            appended += 1
            continue
        if isinstance(s_, ast.Assign) and len(s_.targets) == 1 and isinstance(s_.targets[0], ast.Subscript) and which(s_.targets[0].value) == "sym_index" and H.name_id(s_.targets[0].slice) == v:
            val = s_.value
            pre = isinstance(val, ast.Call) and H.name_id(val.func) == "len" and len(val.args) == 1 and which(val.args[0]) == "sym_table" and appended == 0
            post = appended == 1 and H.match("len($$t) - 1", val) is not None and which(val.left.args[0]) == "sym_table"
            byvar = isinstance(val, ast.Name) and idvar is not None and val.id == idvar
            if pre or post or byvar:
                stored += 1
            else:
                bad.append("id is not the table length before the append: " + ast.unparse(s_)[:70])
            continue
        bad.append(" ".join(ast.unparse(s_).split())[:70])
    det["effects"] = {"appends": appended, "index stores": stored, "other": bad}
    return (appended == 1 and stored == 1 and not bad), det


def _ob_absent(chk, *a, **k):
    return chk.ob(*a, absent_is_unknown=True, **k)


def run(db, chk) -> None:
    st = db.mod(ST)
    # ---------------------------------------------------------------- R1 who may write
    muts, alias_sites = _mutations(db)
    chk.analysed_add("mutation_sites", [f"{w} {loc}: {what}" for w, loc, what, _ in muts])
    chk.analysed_add("alias_read_sites_outside_class", alias_sites)
    for w, loc, what, src in muts:
        q = w.split(":")[1]
        ok = w.startswith(ST + ":") and q in ALLOWED_WRITERS
        chk.ob("C11.R1-append-only", f"writer {w} ({what})", ok, loc, found=src, accepted=sorted(ALLOWED_WRITERS),
               why="any other writer (also through an alias returned by a getter) can change an id already handed out or break sym_table[sym_index[s]] == s")
    chk.ob("C11.R1-append-only", "alias sites outside the class were examined (all read-only)", alias_sites >= 30, ST, found=alias_sites, accepted=">= 30 alias/getter sites", nontrivial=False)
    # structure of add_symbols
    f = st.func("TraceSymbolTable.add_symbols")
    where = st.loc(f)
    ok, det = _add_symbols_effects(f)
    sem = _add_symbols_run(db, st)
    if sem is not None:
        chk.ob("C11.R1-append-only", "[abstract run] add_symbols(['b', 'c', 'c', 'd', 'a']) on the table ['a', 'b']: known symbols keep their ids, every new symbol is appended ONCE with the next free id (also when it is repeated within the call)",
               sem[0], where, found=sem[1], accepted={"sym_table": ["a", "b", "c", "d"], "sym_index": {"a": 0, "b": 1, "c": 2, "d": 3}},
               why="a batch that filters against the table as it was BEFORE the call appends a repeated new symbol twice: two ids decode to one string, the index points at the last copy")
        if ok is not True:
            ok, det = (None if sem[0] else ok), det          # the shape of the loop is a diagnostic: with the run deciding, an unrecognised spelling is not a finding
    if not (sem is not None and sem[0] and ok is None):
      chk.ob("C11.R1-append-only", "add_symbols: for each symbol not yet in sym_index: id = len(sym_table) taken BEFORE the append, then append and index it - nothing else", ok, where, found=det,
           accepted={"guard": "s not in self.sym_index", "body": ["idx=len(self.sym_table)", "self.sym_table.append(s)", "self.sym_index[s]=idx"]},
           why="taking the id after the append, or storing outside the guard, breaks the bijection or renumbers existing symbols")
    cl = st.func("TraceSymbolTable.clone")
    okcl = H.match_seq(["$t = TraceSymbolTable()", "$t.sym_table = symbol_table.sym_table.copy()", "$t.sym_index = symbol_table.sym_index.copy()", "return $t"], cl.body) is not None or \
        H.match_seq(["$t = TraceSymbolTable()", "$t.sym_index = symbol_table.sym_index.copy()", "$t.sym_table = symbol_table.sym_table.copy()", "return $t"], cl.body) is not None
    chk.ob("C11.R1-append-only", "clone copies both containers (no sharing with the source table)", okcl,
           st.loc(cl), found=[ast.unparse(s) for s in cl.body if isinstance(s, ast.Assign)], accepted=["sym_table.copy()", "sym_index.copy()"])
    cr = st.func("TraceSymbolTable.create_from_symbol_id_map")
    okcr = bool(H.find_match("$t.sym_index.update({$s: $i for $i, $s in enumerate($t.sym_table)})", cr)) or bool(H.find_match("$t.sym_index = {$s: $i for $i, $s in enumerate($t.sym_table)}", cr)) or \
        any(H.match("$t.sym_index[$s] = $i", st_) is not None and len(lp_.body) == 1 for lp_, b_ in H.find_match("for $i, $s in enumerate($t.sym_table): pass", cr) for st_ in lp_.body) or \
        any(isinstance(lp_, ast.For) and H.match("enumerate($t.sym_table)", lp_.iter) is not None and isinstance(lp_.target, ast.Tuple) and len(lp_.body) == 1 and
            H.match(f"$t.sym_index[{H.name_id(lp_.target.elts[1])}] = {H.name_id(lp_.target.elts[0])}", lp_.body[0]) is not None for lp_ in ast.walk(cr))
    if not okcr:
        # another spelling: decided by evaluating the function on a small map with a hole ({'a': 0, 'c': 2} -> table [a, Undefined-1, c], index = positions)
        from ..core.interp import Interp as _I
        from ..core.values import Obj as _O
        try:
            rs_ = [r_ for r_ in _I(db).explore(f"{ST}:TraceSymbolTable.create_from_symbol_id_map", lambda I: {"symbol_id_map": {"a": 0, "c": 2}}) if r_.raised is None]
        except Exception:          # noqa
            rs_ = []
        okcr = None
        if len(rs_) == 1 and isinstance(rs_[0].ret, _O):
            tb_, ix_ = rs_[0].ret.attrs.get("sym_table"), rs_[0].ret.attrs.get("sym_index")
            if isinstance(tb_, list) and isinstance(ix_, dict) and all(isinstance(x, str) for x in tb_) and all(isinstance(k_, str) and isinstance(v_, int) for k_, v_ in ix_.items()):
                okcr = tb_ == ["a", "Undefined-1", "c"] and ix_ == {"a": 0, "Undefined-1": 1, "c": 2}
    chk.ob("C11.R1-append-only", "create_from_symbol_id_map derives sym_index from an enumeration of the sym_table it built", okcr, st.loc(cr),
           found=[ast.unparse(s)[:90] for s in cr.body if "sym_index" in ast.unparse(s)], accepted="tst.sym_index.update({s: i for i, s in enumerate(tst.sym_table)})")
    chk.floor("C11.R1-append-only", 8)

    check_reencoding(db, chk, "C11.R2-re-encoding")
    chk.floor("C11.R2-re-encoding", 8)
    tm = db.mod(TM)
    # ---------------------------------------------------------------- R3 schedule independence
    f = H.inline_helpers(tm, tm.func("Trace.parse_multiple_ranks"))
    where = tm.loc(f)
    check_rank_association(db, chk, "C11.R3-ordered-collection")
    pt = tm.func("Trace.parse_traces")
    pcall = [c for c in H.calls(pt) if isinstance(c.func, ast.Attribute) and c.func.attr == "parse_multiple_ranks"]
    rv = H.name_id(pcall[0].args[0]) if len(pcall) == 1 and pcall[0].args else None
    rk = [ast.unparse(v).replace(" ", "") for t, v, s in H.assignments(pt) if H.name_id(t) == rv]
    okrk = len(rk) == 1 and rk[0].startswith("sorted(self.trace_files")
    chk.ob("C11.R3-ordered-collection", "ranks are processed in sorted order (the shared table's numbering does not depend on dict order of the file map)", okrk, tm.loc(pt), found=rk,
           accepted="sorted(self.trace_files.keys())[:max_ranks]")

    # ---------------------------------------------------------------- R4 id opacity
    IDC = {"name", "cat"}

    def is_idcol(n):
        if isinstance(n, ast.Subscript) and isinstance(n.slice, ast.Constant) and n.slice.value in IDC:
            return True
        return isinstance(n, ast.Attribute) and n.attr in IDC and isinstance(n.value, (ast.Name, ast.Subscript)) and any(k in ast.unparse(n.value) for k in ("df", "kernels", "trace", "events", "ops"))
    FROZEN = {
        ("hta.analyzers.breakdown_analysis:BreakdownAnalysis.get_gpu_kernel_breakdown", "sort_values"):
            "name is decoded to strings in this function (gpu_kernels['name'] = ...apply(lambda x: sym_table[x])) before the per-kernel tables are built",
        ("hta.analyzers.breakdown_analysis:BreakdownAnalysis.get_gpu_user_annotation_breakdown", "sort_values"):
            "name is decoded by symbol_table.add_symbols_to_trace_df(..., 'name') before aggregation",
    }
    sinks = []
    for mod, q, fn in db.all_functions():
        for n in walk_no_nested(fn):
            hit = None
            if isinstance(n, ast.Compare) and any(isinstance(o, (ast.Lt, ast.LtE, ast.Gt, ast.GtE)) for o in n.ops) and any(is_idcol(x) for x in [n.left] + n.comparators):
                hit = "order-compare"
            elif isinstance(n, ast.BinOp) and isinstance(n.op, (ast.Add, ast.Sub, ast.Mult, ast.Div, ast.Mod, ast.FloorDiv)) and (is_idcol(n.left) or is_idcol(n.right)):
                hit = "arithmetic"
            elif isinstance(n, ast.Call) and isinstance(n.func, ast.Attribute):
                if n.func.attr in ("sort_values", "nlargest", "nsmallest", "rank"):
                    bys = [k.value for k in n.keywords if k.arg in ("by", "columns")] + list(n.args[:2])
                    consts = {c.value for b in bys for c in ast.walk(b) if isinstance(c, ast.Constant) and isinstance(c.value, str)}
                    if consts & IDC:
                        hit = "sort_values"
                if n.func.attr in ("min", "max", "idxmax", "idxmin", "rank", "cumsum", "lt", "le", "gt", "ge", "sum", "mean", "diff") and is_idcol(n.func.value):
                    hit = n.func.attr + "()"
            if hit:
                sinks.append((f"{mod.name}:{q}", hit, mod.loc(n), ast.unparse(n)[:110], mod, fn))
    chk.analysed_add("id_order_sinks", [(w, h, loc) for w, h, loc, _, _, _ in sinks])
    for w, hit, loc, src, mod, fn in sinks:
        reason = FROZEN.get((w, hit))
        decoded = False
        if reason:
            body = "\n".join(ast.unparse(g) for g in H.with_private_callees(mod, fn))          # the decoding may sit in a private helper of the function
            decoded = ("sym_table[x]" in body and "['name'] =" in body) or "add_symbols_to_trace_df" in body
        chk.ob("C11.R4-id-opacity", f"{w}: {hit} over a name/cat column", bool(reason) and decoded, loc, found=src, accepted="only in the frozen table, and only while the column is still decoded there: " + (reason or "-"),
               why="ordering or arithmetic on encoded ids makes the result depend on the arbitrary id numbering (hash seed, parse order)")
    chk.ob("C11.R4-id-opacity", "scan covered every function of hta", len(sinks) >= 2, "hta", found=len(sinks), accepted=">= 2 candidate sites (both frozen)", nontrivial=False)
    truthy, nlook = id_truthiness_sites(db)
    chk.ob("C11.R4-id-opacity", f"no symbol-id lookup is used for its truth value ({nlook} lookups scanned)", not truthy and nlook >= 20, "hta", found=truthy or f"{nlook} lookups, none in a boolean position",
           accepted="ids compared with `is None` / a sentinel, never tested for truthiness", why="`sym_index.get(name) or NULL` replaces the valid id 0 by the sentinel: whichever symbol happens to be numbered 0 disappears from the query")
    # default selections do not depend on the order in which ranks were parsed
    fr = tm.func("Trace._get_first_rank")
    vals = [ast.unparse(H.expand(fr, v)) for t, v, s_ in H.assignments(fr) if H.name_id(t) == "rank"] + [ast.unparse(H.expand(fr, r_.value)) for r_ in ast.walk(fr) if isinstance(r_, ast.Return) and r_.value is not None and not isinstance(r_.value, ast.Name)]
    txt = " ".join(vals + [ast.unparse(v) for t, v, s_ in H.assignments(fr) if H.name_id(t) != "rank"])      # incl. the locals the value is computed from
    ordered = any(k in txt for k in ("get_ranks()", "sorted(", "min("))
    insertion = any(k in txt for k in ("next(iter(", "list(self.traces)", "list(self.traces.keys())", "self.traces.keys())[0]")) and "sorted(" not in txt
    chk.ob("C11.R3-ordered-collection", "the default rank (rank=None) is the LOWEST loaded rank, not the first one parsed", True if ordered and not insertion else (False if insertion else None), tm.loc(fr),
           found=vals, accepted="self.get_ranks()[0]  (get_ranks() is sorted)", why="`next(iter(self.traces))` follows the parse order: get_iterations() / get_trace_duration() without a rank then depend on which rank was parsed first")
    gr = tm.func("Trace.get_ranks")
    chk.ob("C11.R3-ordered-collection", "get_ranks() returns the ranks in sorted order", any(H.match("return sorted($$x)", st_) is not None for st_ in gr.body), tm.loc(gr),
           found=[ast.unparse(st_)[:80] for st_ in gr.body if isinstance(st_, ast.Return)], accepted="sorted(self.traces.keys())")
    _derived_views(db, chk)
    _decode_in_place(db, chk, st)
    _combine(db, chk, st)
    from ..specs.discipline import check_stateless
    check_stateless(db, chk, "C11.R7-no-module-state", [ST])          # decoding / encoding helpers keep nothing between calls (tables of different traces never mix)
    chk.floor("C11.R7-no-module-state", 10)
    # the alignment shift is one constant (the minimum over ALL ranks): a running minimum would make a rank's times depend on the order the ranks are visited in (shared with C01)
    from .c01 import _shift
    from .c09 import _Prefixed
    _shift(db, _Prefixed(chk, "C11.R9-order-independent-alignment"), rule="C11.R9-order-independent-alignment")
    # ... nor in a filter object: a filter applied to the frames of two tables must resolve names against the table it is GIVEN each time
    tfm = db.mod("hta.common.trace_filter")
    n_call = 0
    for q_, f_ in sorted(tfm.functions.items()):
        if not q_.endswith(".__call__"):
            continue
        n_call += 1
        st_ = sorted(H.attr_store_names(f_, "self"))
        chk.ob("C11.R8-no-id-keyed-state", f"hta.common.trace_filter:{q_} resolves symbol ids afresh on every call (no attribute of the filter is written while filtering)", not st_, tfm.loc(f_), found=st_ or "no store on self",
               accepted="no store on self inside __call__", why="ids memoised in the filter (re-resolved only when the table's SIZE changes) select rows by another table's numbering when the filter meets a second table of equal size")
    chk.ob("C11.R8-no-id-keyed-state", "filter classes inspected", True if n_call >= 10 else None, "hta/common/trace_filter.py", found=n_call, accepted=">= 10", nontrivial=False)
    from ..specs.discipline import check_no_shared_state
    check_no_shared_state(db, chk, "C11.R8-no-id-keyed-state", "a memo keyed by symbol id outlives its Trace: the next trace of the process numbers its symbols differently and is classified by the first trace's table")
    from .c01 import _parser
    _parser(db, chk, enc_rule="C11.R6-local-encoding", full=False)      # the per-file table: ids handed to the frame ARE the table's ids
    gb = []
    for mod, q, fn in db.all_functions():
        for n in walk_no_nested(fn):
            if isinstance(n, ast.Call) and isinstance(n.func, ast.Attribute) and n.func.attr == "groupby":
                consts = {c.value for a in list(n.args[:1]) + [k.value for k in n.keywords if k.arg == "by"] for c in ast.walk(a) if isinstance(c, ast.Constant)}
                if consts & IDC:
                    gb.append(f"{mod.name}:{q} {mod.loc(n)}")
    chk.analysed_add("groupby_on_id_columns (row ORDER of these results follows the numbering; contents do not)", gb)


def _derived_views(db, chk) -> None:
    """C11.R5: attributes of the table class that cache a VIEW of sym_table / sym_index are refreshed whenever the table changed
    (the table is append-only - R1 - so 'same length' is a sound 'unchanged' test; 'cache non-empty' is not) and are read only
    after the refresh."""
    rule = "C11.R5-derived-views"
    st = db.mod(ST)
    cls = st.classes["TraceSymbolTable"]
    meths = [n for n in cls.body if isinstance(n, (ast.FunctionDef,))]
    src_attr = {"sym_table", "sym_index"}

    def self_attr(n):
        return n.attr if isinstance(n, ast.Attribute) and isinstance(n.value, ast.Name) and n.value.id == "self" else None

    caches = {}                                   # cache attr -> source attr
    for f in meths:
        for t, v, s_ in H.assignments(f):
            a = self_attr(t)
            if a and a not in src_attr:
                used = {self_attr(x) for x in ast.walk(v)} & src_attr
                if used:
                    caches.setdefault(a, set()).update(used)
    chk.analysed_add("derived_view_attributes", sorted(caches))
    if not caches:
        chk.ob(rule, "derived views of the table exist (anchor)", None, st.loc(cls), found="none", why="the cached series views the rule was written for have disappeared")
        return
    refreshers = [f for f in meths if f.name != "__init__" and any(self_attr(t) in caches for t, v, s_ in H.assignments(f))]
    for f in refreshers:
        stored = sorted({self_attr(t) for t, v, s_ in H.assignments(f) if self_attr(t) in caches})
        srcs = set().union(*[caches[a] for a in stored])
        guards = []
        for t, v, s_ in H.assignments(f):
            if self_attr(t) not in caches:
                continue
            cur = st.parent.get(id(s_))
            while cur is not None and cur is not f:
                if isinstance(cur, (ast.If, ast.While)) and ast.unparse(cur.test) not in guards:
                    guards.append(ast.unparse(cur.test))
                    gnode = cur
                cur = st.parent.get(id(cur))
        ok = not guards
        if len(guards) == 1 and isinstance(gnode, ast.If) and not gnode.orelse:
            for a in stored:
                for srcn in ("sym_table", "sym_index"):
                    if H.match(f"len(self.{srcn}) != len(self.{a})", gnode.test) is not None and any(s_ in gnode.body for t, v, s_ in H.assignments(f) if self_attr(t) in caches):
                        ok = True
        if not ok:
            # a guard that only asks whether the view was ever built is positively wrong; any other guard (e.g. a dirty flag) is not understood
            once = any(isinstance(x, ast.Attribute) and x.attr == "empty" for x in ast.walk(gnode.test)) or any(isinstance(x, ast.Compare) and any(isinstance(o, (ast.Is, ast.IsNot)) for o in x.ops) for x in ast.walk(gnode.test))
            ok = False if once and len(guards) == 1 else None
        chk.ob(rule, f"{f.name}: the views {stored} are rebuilt unless the table's length equals the view's length (append-only => unchanged)", ok, st.loc(f),
               found=guards or "unconditional", accepted="unconditional, or `if len(self.sym_table) != len(self.<view>)`",
               why="a view built once ('if empty') goes stale after the next add_symbols: names added by a later rank are missing from get_symbol_ids / get_symbol_names")
        both = {a for a in caches if a in stored}
        chk.ob(rule, f"{f.name}: every view is rebuilt together under that one guard", both == set(caches) or len(refreshers) > 1, st.loc(f), found=stored, accepted=sorted(caches))
    rnames = {f.name for f in refreshers}
    for f in meths:
        if f.name == "__init__" or f.name in rnames:
            continue
        loads = [n for n in ast.walk(f) if self_attr(n) in caches and isinstance(n.ctx, ast.Load)]
        if not loads:
            continue
        first = min(n.lineno for n in loads)
        calls = [c for c in ast.walk(f) if isinstance(c, ast.Call) and self_attr(c.func) in rnames and st.parent.get(id(st.parent.get(id(c)))) is f]
        ok = bool(calls) and min(c.lineno for c in calls) < first
        chk.ob(rule, f"{f.name}: reads a derived view only after refreshing it (unconditional call at the top level of the method)", ok, st.loc(f),
               found=[ast.unparse(c) for c in calls] or "no refresh call", accepted=f"self.{sorted(rnames)[0] if rnames else '<refresh>'}() before the first read")
    # nobody outside the class touches the views
    outside = []
    for mod, q, fn in db.all_functions():
        if mod.name == ST and q.startswith("TraceSymbolTable."):
            continue
        for n in walk_no_nested(fn):
            if isinstance(n, ast.Attribute) and n.attr in caches:
                outside.append(f"{mod.name}:{q} {mod.loc(n)}")
    chk.ob(rule, "the views are private to the table class", not outside, st.loc(cls), found=outside, accepted="no access outside TraceSymbolTable")
    chk.floor(rule, 3)          # (one refresher: guard + completeness; at least one reader behind it - readers may share one accessor)


def check_loader_semantics(db, chk, rule_assoc: str, rule_reenc: str) -> None:
    """The loaders (parse_multiple_ranks, sequential and pool branch; parse_single_rank) are evaluated symbolically for two ranks with
    parse_trace_file abstracted to 'the frame / metadata / local table OF THAT FILE'.  Decided on the final state, whatever helpers the
    code is split into: (association) rank r holds the frame and metadata of trace_files[r]; (re-encoding) its cat and name columns are
    global_map[local_table_of_r[old id]] with the global map read after EVERY requested rank's symbols were added, on every path."""
    from ..core.interp import Interp
    from ..core import terms as T
    from ..core.values import Frame, Obj, PyTuple, to_term
    from ..specs.discipline import narrowing_casts
    tm = db.mod(TM)
    R0, R1 = T.P("RANK0"), T.P("RANK1")

    def scenario(ref, make_args, ranks_paths, tag):
        state = {"ver": 0, "adds": []}

        def parse(path):
            p = path if isinstance(path, str) else T.show(to_term(path))
            return PyTuple([T.P(f"META:{p}"), Frame(("param", "TR", p), known=["cat", "name", "ts", "dur"]), Obj(f"LOCAL:{p}")])

        def hook(I, name, pos, kw, node):
            if name in ("parse_trace_file", "_parser"):
                return parse(pos[0])
            if name.endswith(".map") and len(pos) >= 2 and isinstance(pos[1], list):
                return [parse(x) for x in pos[1]]
            if name.endswith("get_sym_table"):
                recv = I.eval(node.func.value)
                if isinstance(recv, Obj) and recv.name.startswith("LOCAL:"):
                    return T.P("LTAB:" + recv.name[6:])
            if name.endswith("symbol_table.add_symbols"):
                state["ver"] += 1
                state["adds"].append(to_term(pos[0]) if pos else None)
                return None
            if name.endswith("symbol_table.get_sym_id_map"):
                return T.P(f"GMAP@{state['ver']}")
            # the same accessors reached inside an inlined method of the global table (e.g. update_encoded_df): decided by the receiver
            if name.endswith((".get_sym_id_map", ".get_sym_index", ".add_symbols")) and isinstance(getattr(node, "func", None), ast.Attribute):
                recv = I.eval(node.func.value)
                if isinstance(recv, Obj) and recv.name == "GTABLE":
                    if name.endswith(".add_symbols"):
                        state["ver"] += 1
                        state["adds"].append(to_term(pos[0]) if pos else None)
                        return None
                    return T.P(f"GMAP@{state['ver']}")
            return NotImplemented
        I = Interp(db, call_hook=hook)

        def args(I):
            state["ver"], state["adds"] = 0, []
            return make_args()
        runs = I.explore(ref, args)
        where = tm.loc(tm.func(ref.split(":")[1]))
        good = [r for r in runs if r.raised is None]
        if not good or len(runs) > 16:
            chk.ob(rule_assoc or rule_reenc, f"{tag}: analysable paths", None, where, found={"paths": len(runs), "normal": len(good)})
            return
        nver = len(ranks_paths)
        for r in good:
            ptag = tag + (f" [when {T.show(r.cond())[:60]}]" if r.path else "")
            s = r.env["self"]
            for rk, p in ranks_paths:
                f = s.attrs["traces"].get(rk) if isinstance(s.attrs.get("traces"), dict) else None
                md = s.attrs["meta_data"].get(rk) if isinstance(s.attrs.get("meta_data"), dict) else None
                base = ("param", "TR", p)
                if rule_assoc:
                  chk.ob(rule_assoc, f"{ptag}: {T.show(rk)} holds the frame and the metadata parsed from trace_files[{T.show(rk)}]",
                         (f.base == base and to_term(md) == T.P(f"META:{p}")) if isinstance(f, Frame) and isinstance(f.base, tuple) and f.base[:2] == ("param", "TR") else None, where,
                       found={"frame": T.show(f.base) if isinstance(f, Frame) else repr(f)[:60], "meta": T.show(to_term(md))[:60]}, accepted={"frame": f"TR[{p}]", "meta": f"META:{p}"},
                       why="results paired with another rank list (e.g. the dict order of trace_files) store one rank's frame under another rank")
                if not isinstance(f, Frame) or not rule_reenc:
                    continue
                # a path taken only when THIS frame has no rows says nothing about row contents (an empty frame left untouched is re-encoded vacuously)
                empty_here = any(isinstance(a_, tuple) and a_[:2] == ("cmp", "==") and T.find(a_, lambda s_: s_[0] == "nrows" and base in T.subterms(s_)) and not T.find(a_, lambda s_: s_[0] == "col")
                                 for a_ in (r.cond()[1] if r.path and r.cond()[0] == "and" else ([r.cond()] if r.path else [])))
                if empty_here and T.show(r.cond()).count("nrows") >= 1 and "== 0" in T.show(r.cond()):
                    continue
                for c in ("cat", "name"):
                    old = T.col(base, c)
                    want = ("getitem", T.P(f"GMAP@{nver}"), ("getitem", T.P(f"LTAB:{p}"), old))
                    got = f.col(c)
                    if got == want:
                        v = True
                    elif got == old or narrowing_casts(got) or (isinstance(got, tuple) and got and got[0] == "astype") or \
                            any(isinstance(x, tuple) and x and x[0] == "param" and str(x[1]).startswith(("GMAP@", "LTAB:")) and x not in (want[1], want[2][1]) for x in T.subterms(got)):
                        v = False          # untranslated, cast back, another rank's local table, or a global map read before all ranks were added
                    else:
                        v = None
                    chk.ob(rule_reenc, f"{ptag}: {T.show(rk)}.{c} = global_map[local_table_of_that_rank[old id]], global map read after all {nver} rank(s) were added", v, where,
                           found=T.show(got)[:200], accepted=T.show(want),
                           why="a skipped translation leaves local ids; another rank's local table or an early global map decodes to other strings; a cast back to the narrow dtype wraps")
            adds_ok = state["adds"] == [T.P(f"LTAB:{p}") for _, p in ranks_paths]
            gt = s.attrs.get("symbol_table")
            if rule_reenc:
                chk.ob(rule_reenc, f"{ptag}: the shared symbol table object is kept (symbols are only ever added to it; ids once handed out never change)", isinstance(gt, Obj) and gt.name == "GTABLE", where,
                       found=getattr(gt, "name", repr(gt))[:60], accepted="self.symbol_table untouched",
                       why="replacing the table (e.g. by a sorted rebuild) renumbers the symbols while the frames of ranks loaded earlier keep their old ids")
        if rule_reenc:
          chk.ob(rule_reenc, f"{tag}: the shared table is fed each requested rank's local symbols exactly once, in rank order", adds_ok, where, found=[T.show(a) if a is not None else None for a in state["adds"]],
               accepted=[f"LTAB:{p}" for _, p in ranks_paths])

    def self_obj(files):
        return Obj("self", cls=(tm, "Trace"), attrs={"trace_files": dict(files), "traces": {}, "meta_data": {}, "symbol_table": Obj("GTABLE", cls=(db.mod("hta.common.trace_symbol_table"), "TraceSymbolTable")), "parser_config": Obj("cfg")})
    for mp_ in (False, True):
        scenario(f"{TM}:Trace.parse_multiple_ranks", lambda mp_=mp_: {"self": self_obj({R0: "f0", R1: "f1"}), "ranks": [R0, R1], "use_multiprocessing": mp_, "use_memory_profiling": False},
                 [(R0, "f0"), (R1, "f1")], f"parse_multiple_ranks({'pool' if mp_ else 'sequential'})")
    # file map given in another order than the rank list: the association must follow the rank, not the dict order
    scenario(f"{TM}:Trace.parse_multiple_ranks", lambda: {"self": self_obj({R1: "f1", R0: "f0"}), "ranks": [R0, R1], "use_multiprocessing": True, "use_memory_profiling": False},
             [(R0, "f0"), (R1, "f1")], "parse_multiple_ranks(pool, file map in another order)")
    scenario(f"{TM}:Trace.parse_single_rank", lambda: {"self": self_obj({R0: "f0"}), "rank": R0}, [(R0, "f0")], "parse_single_rank")
    if rule_assoc:
        chk.floor(rule_assoc, 7)
    if rule_reenc:
        chk.floor(rule_reenc, 14)
