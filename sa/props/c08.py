"""C08 - critical-path graph: typed, non-negative, forward edges (structural clauses)."""
from __future__ import annotations

import ast
from typing import Dict, List, Optional, Set, Tuple

from ..core import terms as T
from ..core import asthelp as H
from ..core.interp import Interp, assume
from ..core.progdb import AnalysisError, walk_no_nested, call_name
from ..core.values import Frame, Obj, PyTuple, to_term
from ..specs.merge import check_term
from .c05 import leaves
from .c05 import leaves as _leaves5

EXPLANATION = (
    "Static analysis of CPGraph in hta/analyzers/critical_path_analysis.py: symbolic evaluation of _create_event_nodes (two node rows per selected event: "
    "(ts, start) and (ts+dur, end), node id = position after the time sort, maps built from the start / end halves, CPNode field order), complete weight table of "
    "_add_edge_helper over the five edge types x zero_weight (0 for dependency types or zero_weight, else dest.ts - src.ts, and nothing else), role typing of all "
    "call sites of _add_edge_helper by def-use (START/END of which event each node argument is, through the two wrappers and the last_node map) against the "
    "per-type table of the property, the sync-source selection rule, validation dominating the longest-path call, and the pandas API contract on the construction "
    "path. NOT decided: acyclicity / forward-in-time for every causally consistent trace (depends on trace contents)."
    " Later additions: effect rules incl. shallow-copy aliasing of the Trace and parameterless memoised option readers; time-column dtype; inward rounding (shared with C01); call graph restricted to the analysed rank."
)
CP = "hta.analyzers.critical_path_analysis"


def run(db, chk) -> None:
    from ..specs.discipline import check_facade_stateless
    check_facade_stateless(db, chk, "C08.R-facade-stateless", ['critical_path_analysis'])
    from ..specs.endcoherence import check_time_dtype
    check_time_dtype(db, chk, "C08.R8-time-dtype")
    _cg_scope(db, chk)
    # operator edges follow the nesting of ONE host thread: the builder behind the critical path splits a rank's events by (pid, tid) (clause shared with C03)
    from . import c03 as _c03
    _c03._thread_identity(db, chk, db.mod(_c03.NEW), db.mod(_c03.OLD), rule="C08.R12-thread-identity", only_builder_of_critical_path=True)
    from .c01 import _rounding
    _rounding(db, chk, rule="C08.R9-inward-rounding")        # fractional timestamps are rounded inward, so nesting / disjointness of events (the well-formedness the graph relies on) survives loading          # node times and edge weights are differences of ts / ts + dur of the loaded frame
    from ..specs.discipline import check_stateless
    check_stateless(db, chk, "C08.R-stateless", ['hta.analyzers.critical_path_analysis'])      # the result is a function of the arguments: no state kept between calls, caller's Trace untouched
    chk.floor("C08.R-stateless", 4)
    m = db.mod(CP)
    _nodes(db, chk, m)
    _weights(db, chk, m)
    _sites(db, chk, m)
    _validation(db, chk, m)
    _api(db, chk, m)
    _window(db, chk, m)
    _per_thread_state(db, chk, m)
    _instance_range(db, chk, m)


# ------------------------------------------------------------------------------------------ R1 nodes
def _nodes(db, chk, m):
    rule = "C08.R1-node-terms"
    ref = f"{CP}:CPGraph._create_event_nodes"
    fn = m.func("CPGraph._create_event_nodes")
    where = m.loc(fn)
    TD = ("param", "TD")
    st = db.mod("hta.common.trace_symbol_table")

    # (the category query of the symbol table is evaluated too: which host categories get nodes is part of the rule)
    I = Interp(db)
    runs = [r for r in I.explore(ref, lambda I: {"self": Obj("self", cls=(m, "CPGraph"), attrs={"trace_df": Frame(TD), "symbol_table": Obj("symtab", cls=(st, "TraceSymbolTable"), attrs={"sym_index": T.P("SYMIDX")}),
                                                                                              "BLOCKING_SYNC_CALLS": ["cudaDeviceSynchronize"]})}) if r.raised is None]
    chk.analysed_add("functions", ref)
    if len(runs) != 1:
        chk.ob(rule, "_create_event_nodes: one path", None, where, found=len(runs))
        return
    r = runs[0]
    # (the start rows and the end rows stacked: by pd.concat of two copies, or by melt over the two time columns)
    nd = next((v for v in r.env.values() if isinstance(v, Frame) and v.base[0] in ("concat", "melt") and v.rows == T.TRUE and v.has("idx")), None)
    leaves = lambda t_: _leaves5(t_, melt=True)          # noqa: E731 - pieces of a concatenated OR melted column
    if not isinstance(nd, Frame) or nd.base[0] not in ("concat", "melt"):
        chk.ob(rule, "node frame = concat of the start rows and the end rows", None if not isinstance(nd, Frame) else False, where, found=repr(nd)[:120], accepted="pd.concat([starts, ends])")
        return
    parts = [p for k, p in nd.base[2]] if nd.base[0] == "concat" else ([nd.base[1]] * len(nd.base[3]) if nd.base[3] else [])
    same_rows = len(parts) == 2 and parts[0] == parts[1] and parts[0][0] == TD
    chk.ob(rule, "start rows and end rows come from the same selection of events (one start node and one end node per event)", same_rows, where,
           found=[T._ctx(p)[:160] for p in parts], accepted="both halves built from the same events frame")
    TS, DUR, IDX = T.col(TD, "ts"), T.col(TD, "dur"), T.col(TD, "index")
    ts_l = sorted(leaves(nd.col("ts")), key=repr)
    chk.ob(rule, "node times: start node at ts, end node at ts + dur", ts_l == sorted([TS, T.add(TS, DUR)], key=repr), where, found=[T.show(x)[:80] for x in ts_l], accepted=["ts", "ts + dur"])
    st_l = leaves(nd.col("is_start"))
    pair = sorted(zip([T.show(x) for x in leaves(nd.col("ts"))], [T.show(x) for x in st_l]))
    chk.ob(rule, "is_start is True on the row carrying ts and False on the row carrying ts + dur", pair == sorted([(T.show(TS), "True"), (T.show(T.add(TS, DUR)), "False")]), where, found=pair,
           accepted=[("ts", True), ("ts+dur", False)], why="swapped flags exchange start and end nodes of every event")
    # blocking calls: the ids of EXACTLY the names listed in BLOCKING_SYNC_CALLS (looked up by equality, missing names ignored)
    bl = leaves(nd.col("is_blocking_call"))
    bt = bl[0] if bl else T.opaque("no is_blocking_call column")
    txt = T.show(bt)
    exact = ".get(" in txt and "cudaDeviceSynchronize" in txt and not any(k in txt for k in ("find_match", "strmatch", "re(", "contains", "startswith"))
    loose = any(k in txt for k in ("find_match", "strmatch", "re(", "contains", "startswith"))
    chk.ob(rule, "a node is a blocking call iff its name id is the id of one of the listed blocking calls (exact name lookup)", True if exact and all(x == bt for x in bl) else (False if loose else None), where,
           found=txt[:200], accepted="name.isin({sym_index.get(b) for b in BLOCKING_SYNC_CALLS})",
           why="a substring match also marks cudaMemcpyPeerAsync / cudaMemcpy2DAsync as blocking: their span edges get weight 0")
    ev_l = leaves(nd.col("ev_idx"))
    chk.ob(rule, "both nodes carry the event's id", ev_l == [IDX, IDX], where, found=[T.show(x)[:60] for x in ev_l], accepted=["index", "index"])
    idx_t = nd.col("idx")
    okidx = idx_t[0] == "range" and isinstance(idx_t[1], tuple) and idx_t[1][2] is not None and idx_t[1][2][0] == "sort" and idx_t[1][2][1] == (nd.col("ts"),) and idx_t[1][2][2] is True
    chk.ob(rule, "node id = position after sorting the node rows by time (ascending)", okidx, where, found=T.show(idx_t)[:160], accepted="reset_index after sort_values(by='ts')")
    # selection of events
    rows = parts[0][1] if same_rows else T.TRUE
    dev = T.and_(T.cmp("!=", T.col(TD, "stream"), T.C(-1)), T.cmp(">=", T.col(TD, "index_correlation"), T.C(0)))
    okrows = rows[0] == "or" and dev in rows[1]
    chk.ob(rule, "events represented: host operators / runtime calls, or device activities with a correlation link", okrows, where, found=T.show(rows)[:240], accepted="(operator or runtime categories) or (stream != -1 and index_correlation >= 0)")
    # the host side: the categories that get nodes are operators and BOTH launch APIs (runtime and driver) - a kernel's launch-delay edge needs the node of its launch call
    if okrows:
        cats, other = set(), []
        for d_ in rows[1]:
            if d_ == dev:
                continue
            calls_ = T.find(d_, lambda s_: s_[0] == "call" and str(s_[1]).endswith((".get", "sym_index.get")) and len(s_) >= 3)
            if d_[0] == "cmp" and d_[1] == "==" and len(calls_) == 1 and T.col(TD, "cat") in T.find(d_, lambda s_: s_[0] == "col") and T.is_const(calls_[0][2]):
                cats.add(calls_[0][2][1])
            else:
                other.append(T.show(d_)[:100])
        need = {"cpu_op", "cuda_runtime", "cuda_driver"}
        chk.ob(rule, "host events represented: categories cpu_op, cuda_runtime and cuda_driver", (need <= cats) if not other else None, where, found=sorted(cats) + other, accepted=sorted(need),
               why="without the driver category a cuLaunchKernel call (Triton / torch.compile kernels) has no node: its kernel's launch-delay edge cannot be built and the call's span is missing from the graph")
    # CPNode construction agreement
    cpn = H.dataclass_fields(m.cls("CPNode"))
    nl = r.env["self"].attrs.get("node_list")
    z = T.find(to_term(nl), lambda s: s[0] == "zip")
    want = [nd.col(c) for c in ("idx", "ev_idx", "ts", "is_start", "is_blocking_call")]
    _untl = lambda x: x[1] if isinstance(x, tuple) and len(x) == 3 and x[0] == "tolist" else x          # (zip over columns = zip over their tolist()s)
    okz = len(z) >= 1 and [_untl(x) for x in z[0][1]] == want and cpn[:5] == ["idx", "ev_idx", "ts", "is_start", "is_blocking"]
    chk.ob(rule, "CPNode(*args) receives (idx, ev_idx, ts, is_start, is_blocking) in the dataclass field order", okz, where, found={"fields": cpn, "zip": [T.show(x)[:50] for x in (z[0][1] if z else [])]},
           accepted=["idx", "ev_idx", "ts", "is_start", "is_blocking"], why="positional construction: a swapped column puts a timestamp into ev_idx")
    sm, em = to_term(r.env["self"].attrs.get("event_to_start_node_map")), to_term(r.env["self"].attrs.get("event_to_end_node_map"))

    def map_ok(t, flag):
        return t == ("dictzip", nd.col("ev_idx"), nd.col("idx"))
    # the halves are selected by the is_start flag: look at the frame variable _df at the two map constructions through events
    filt = [e for e in r.events if e["kind"] == "filter" and e["func"].endswith("_create_event_nodes") and e.get("base") == nd.base]
    preds = [e["pred"] for e in filt]
    okhalves = len(preds) == 2 and preds[0] == nd.col("is_start") and preds[1] == T.not_(nd.col("is_start"))

    def map_from_nodes(t, flag):
        """{node.ev_idx: node.idx for node in self.node_list if [not] node.is_start} - the same halves read off the node objects (whose fields are the columns, checked above)"""
        if not (isinstance(t, tuple) and len(t) == 5 and t[0] == "comp" and t[1] == "dict" and t[3] == to_term(nl) and isinstance(t[2], tuple) and t[2][0] == "kv"):
            return False
        k_, v_ = t[2][1], t[2][2]
        if not (isinstance(k_, tuple) and k_[0] == "attr" and k_[2] == "ev_idx" and isinstance(v_, tuple) and v_[0] == "attr" and v_[2] == "idx" and k_[1] == v_[1]):
            return False
        st_ = ("attr", k_[1], "is_start")
        return t[4] in ((("truthy", st_), st_) if flag else (T.not_(("truthy", st_)), T.not_(st_)))
    if okz and map_from_nodes(sm, True) and map_from_nodes(em, False):
        sm = em = ("dictzip", nd.col("ev_idx"), nd.col("idx"))
        okhalves = True
    chk.ob(rule, "start map is built from the is_start rows and end map from the other rows, both as {ev_idx: idx}", map_ok(sm, True) and map_ok(em, False) and okhalves, where,
           found={"filters": [T.show(p)[:80] for p in preds]}, accepted=["nodes_df[is_start]", "nodes_df[~is_start]"])
    chk.floor(rule, 8)


# ------------------------------------------------------------------------------------------ R2 weights
def _weights(db, chk, m):
    rule = "C08.R2-weight-table"
    ref = f"{CP}:CPGraph._add_edge_helper"
    fn = m.func("CPGraph._add_edge_helper")
    where = m.loc(fn)
    members = m.enum_members("CPEdgeType")
    chk.analysed_add("functions", ref)
    if set(members) != {"OPERATOR_KERNEL", "DEPENDENCY", "KERNEL_LAUNCH_DELAY", "KERNEL_KERNEL_DELAY", "SYNC_DEPENDENCY"}:
        chk.ob(rule, "the five edge types exist", False, where, found=sorted(members), accepted="OPERATOR_KERNEL, DEPENDENCY, KERNEL_LAUNCH_DELAY, KERNEL_KERNEL_DELAY, SYNC_DEPENDENCY")
        return
    edges = []

    def hook(I, name, pos, kw, node):
        if name == "self._add_edge":
            edges.append(pos[0])
            return None
        return NotImplemented

    mk = lambda w: Obj(w, attrs={"idx": T.P(f"{w}.idx"), "ts": T.P(f"{w}.ts"), "ev_idx": T.P(f"{w}.ev_idx"), "is_start": T.P(f"{w}.is_start"), "is_blocking": T.P(f"{w}.is_blocking")})
    for ty in sorted(members):
        for zw in (False, True):
            edges.clear()
            I = Interp(db, call_hook=hook)
            runs = [r for r in I.explore(ref, lambda I: {"self": Obj("self", cls=(m, "CPGraph")), "src": mk("src"), "dest": mk("dest"), "type": ("enum", "CPEdgeType", ty), "zero_weight": zw})
                    if r.raised is None]
            want = T.C(0) if (ty in ("DEPENDENCY", "SYNC_DEPENDENCY") or zw) else T.sub(T.P("dest.ts"), T.P("src.ts"))
            if len(runs) != 1 or len(edges) != 1 or not isinstance(edges[0], Obj):
                extra = [T.show(r.cond())[:100] for r in runs]
                chk.ob(rule, f"type={ty}, zero_weight={zw}: a single outcome (the weight depends on nothing but the edge type and zero_weight)", False if len(runs) > 1 else None, where,
                       found=extra, accepted="one path", why="a weight that also depends on a node flag zeroes spans the caller did not ask to zero")
                continue
            e = edges[0]
            w = to_term(e.attrs.get("weight"))
            check_term(chk, rule, f"type={ty}, zero_weight={zw}: weight", where, w, [want], "dependency / synchronisation edges and zero_weight edges weigh 0; every other edge weighs dest.ts - src.ts")
            ok = to_term(e.attrs.get("begin")) == T.P("src.idx") and to_term(e.attrs.get("end")) == T.P("dest.idx") and to_term(e.attrs.get("type")) == ("enum", "CPEdgeType", ty)
            chk.ob(rule, f"type={ty}, zero_weight={zw}: edge runs src -> dest with the requested type", ok, where, found={k: T.show(to_term(v))[:40] for k, v in e.attrs.items()}, accepted="begin=src.idx, end=dest.idx, type")
    ae = m.func("CPGraph._add_edge")
    cs = [c for c in H.calls(ae) if isinstance(c.func, ast.Attribute) and c.func.attr == "add_edge"]
    ok = len(cs) == 1 and [ast.unparse(a) for a in cs[0].args] == ["edge.begin", "edge.end"] and {k.arg: ast.unparse(k.value) for k in cs[0].keywords} == {"weight": "edge.weight", "object": "edge"}
    chk.ob(rule, "_add_edge stores the CPEdge's weight under 'weight' and the CPEdge under 'object' on (begin, end)", ok, m.loc(ae), found=[ast.unparse(c) for c in cs], accepted="self.add_edge(edge.begin, edge.end, weight=edge.weight, object=edge)")
    chk.floor(rule, 21)


# ------------------------------------------------------------------------------------------ R3 call-site typing
class Roles:
    """def-use role inference for node expressions inside CPGraph methods"""

    def __init__(self, m):
        self.m = m

    def enclosing(self, node):
        return self.m.enclosing_function(node)

    def outer_funcs(self, f):
        out = [f]
        cur = self.m.enclosing_function(f)
        while cur is not None:
            out.append(cur)
            cur = self.m.enclosing_function(cur)
        return out

    def role(self, expr: ast.expr, f, depth=0) -> Set[Tuple[str, str]]:
        """set of (ROLE, event expression text); ROLE in START / END / NONE / ANY"""
        if depth > 6:
            return {("ANY", "?")}
        if isinstance(expr, ast.Constant) and expr.value is None:
            return {("NONE", "")}
        if isinstance(expr, ast.Subscript):
            d = ast.unparse(expr.value)
            key = ast.unparse(expr.slice)
            return self.dict_values(d, f, depth, key)
        if isinstance(expr, ast.Call) and isinstance(expr.func, ast.Attribute) and expr.func.attr == "get" and isinstance(expr.func.value, ast.Name):
            return self.dict_values(expr.func.value.id, f, depth, ast.unparse(expr.args[0]) if expr.args else "?")
        if isinstance(expr, ast.IfExp):
            return self.role(expr.body, f, depth + 1) | self.role(expr.orelse, f, depth + 1)
        if isinstance(expr, ast.List):
            out = set()
            for e in expr.elts:
                out |= self.role(e, f, depth + 1)
            return out
        if isinstance(expr, ast.Call) and isinstance(expr.func, ast.Attribute) and expr.func.attr == "values" and isinstance(expr.func.value, ast.Name):
            return self.dict_values(expr.func.value.id, f, depth, "*")
        if isinstance(expr, ast.Call) and isinstance(expr.func, ast.Name) and expr.func.id in ("list", "tuple", "sorted", "iter", "reversed") and len(expr.args) == 1:
            return self.role(expr.args[0], f, depth + 1)          # a re-packaging of the same node collection
        # a traversal variable is a name, or a field of one closure object (`state.last_node`): both are tracked by their text
        is_field = isinstance(expr, ast.Attribute) and isinstance(expr.value, ast.Name) and expr.value.id not in ("self", "cls")
        # ... or a field of the traversal object itself: `self.last_node` inside a private helper class (not CPGraph) - every store into it in any method of that class
        qf = self.m.qualname_of(f) if f is not None else "?"
        if qf == "?" and f is not None:          # an inlined copy: the same name at the same line
            qf = next((q_ for q_, g_ in self.m.functions.items() if g_.name == getattr(f, "name", None) and g_.lineno == getattr(f, "lineno", -1)), "?")
        own_cls = qf.split(".")[0] if "." in qf and qf.split(".")[0] in self.m.classes and qf.split(".")[0] != "CPGraph" else None
        if own_cls is not None and isinstance(expr, ast.Attribute) and isinstance(expr.value, ast.Name) and expr.value.id == "self":
            out, found_def = set(), False
            for q_, fn in self.m.functions.items():
                if not (q_.startswith(own_cls + ".") and q_.count(".") == 1):
                    continue
                for st in ast.walk(fn):
                    tg = st.targets if isinstance(st, ast.Assign) else [st.target] if isinstance(st, ast.AnnAssign) and st.value is not None else []
                    if any(isinstance(t, ast.Attribute) and ast.unparse(t) == ast.unparse(expr) for t in tg):
                        found_def = True
                        out |= self.role(st.value, fn, depth + 1)
            return out if found_def and out else {("ANY", ast.unparse(expr))}
        if not isinstance(expr, ast.Name) and not is_field:
            return {("ANY", ast.unparse(expr))}
        name = ast.unparse(expr)
        if is_field:
            out = set()
            found_def = False
            for fn in self.outer_funcs(f):
                for st in ast.walk(fn):
                    if isinstance(st, ast.Assign) and any(isinstance(t, ast.Attribute) and ast.unparse(t) == name for t in st.targets):
                        found_def = True
                        out |= self.role(st.value, self.m.enclosing_function(st) or fn, depth + 1)
                    elif isinstance(st, ast.Assign) and H.name_id(st.targets[0]) == expr.value.id and isinstance(st.value, ast.Call) and isinstance(st.value.func, ast.Name) \
                            and st.value.func.id in self.m.classes and not st.value.args:
                        # the object's construction: the field's declared default (keyword argument or dataclass default)
                        kwv = [k.value for k in st.value.keywords if k.arg == expr.attr]
                        dflt = kwv or [b.value for b in self.m.classes[st.value.func.id].body if isinstance(b, ast.AnnAssign) and H.name_id(b.target) == expr.attr and b.value is not None]
                        if dflt:
                            found_def = True
                            out |= self.role(dflt[0], fn, depth + 1)
            return out if found_def and out else {("ANY", name)}
        out: Set[Tuple[str, str]] = set()
        found_def = False
        for fn in self.outer_funcs(f):
            # parameter?
            if isinstance(fn, (ast.FunctionDef,)) and name in H.param_names(fn) and fn is f:
                found_def = True
                out |= self.param_role(fn, name, depth)
            for st in ast.walk(fn):
                if isinstance(st, ast.Assign):
                    for t in st.targets:
                        if isinstance(t, ast.Tuple) and isinstance(st.value, ast.Call) and isinstance(st.value.func, ast.Attribute) and st.value.func.attr == "get_nodes_for_event":
                            for i, el in enumerate(t.elts):
                                if H.name_id(el) == name:
                                    found_def = True
                                    out.add(("START" if i == 0 else "END", ast.unparse(st.value.args[0])))
                        elif H.name_id(t) == name:
                            found_def = True
                            out |= self.role(st.value, self.m.enclosing_function(st) or fn, depth + 1)
                elif isinstance(st, ast.AnnAssign) and H.name_id(st.target) == name and st.value is not None:
                    found_def = True
                    out |= self.role(st.value, self.m.enclosing_function(st) or fn, depth + 1)
                elif isinstance(st, ast.For) and any(H.name_id(x) == name for x in ast.walk(st.target)):
                    found_def = True
                    out |= self.role(st.iter, self.m.enclosing_function(st) or fn, depth + 1)
            if found_def:
                break
        return out or {("ANY", name)}

    def dict_values(self, dname: str, f, depth, key: str) -> Set[Tuple[str, str]]:
        out = set()
        for fn in self.outer_funcs(f):
            for st in ast.walk(fn):
                if isinstance(st, ast.Assign) and isinstance(st.targets[0], ast.Subscript) and ast.unparse(st.targets[0].value) == dname:
                    k = ast.unparse(st.targets[0].slice)
                    for r, ev in self.role(st.value, self.m.enclosing_function(st) or fn, depth + 1):
                        out.add((r, f"{ev} @key {k}" + ("" if key in (k, "*") else f" (read with key {key})")))
        return out or {("ANY", dname)}

    def param_role(self, fn, pname: str, depth) -> Set[Tuple[str, str]]:
        out = set()
        qn = fn.name
        cls_methods = [f for q, f in self.m.functions.items() if q.startswith("CPGraph.")]
        nested_fn = self.m.enclosing_function(fn) is not None
        for g in cls_methods:
            for c in ast.walk(g):
                if isinstance(c, ast.Call) and ((isinstance(c.func, ast.Attribute) and c.func.attr == qn and H.is_self_attr(c.func)) or (nested_fn and isinstance(c.func, ast.Name) and c.func.id == qn)):
                    try:
                        b = H.bind_call(fn, c, skip_self=not nested_fn)
                    except AnalysisError:
                        continue
                    if pname in b:
                        out |= self.role(b[pname], self.m.enclosing_function(c) or g, depth + 1)
        return out or {("ANY", pname)}


ACCEPT = {
    "KERNEL_LAUNCH_DELAY": {("START", "START")},
    "KERNEL_KERNEL_DELAY": {("END", "START")},
    "SYNC_DEPENDENCY": {("END", "END"), ("END", "START")},
    "DEPENDENCY": {("END", "START")},
    "OPERATOR_KERNEL": {("START", "END"), ("START", "START"), ("END", "START"), ("END", "END")},
}


def _sites(db, chk, m):
    rule = "C08.R3-edge-typing"
    helper = m.func("CPGraph._add_edge_helper")
    R = Roles(m)
    sites = []
    wrappers = set()
    for q, f0 in m.functions.items():
        # (methods of CPGraph, and of private helper classes of the module that work on a graph handed to them: a traversal visitor, a builder state)
        if not (q.startswith("CPGraph.") or (q.startswith("_") and "." in q and q.split(".")[0] in m.classes)):
            continue
        # private wrappers around the edge helper (e.g. "create the edge and attribute it") are read as if written out at their call sites
        f = H.inline_helpers(m, f0, exclude=("_add_edge_helper", "_attribute_edge", "_add_edge", "_validate_graph")) if m.enclosing_function(f0) is None else f0
        for c in (ast.walk(f) if f is not f0 else walk_no_nested(f)):
            if isinstance(c, ast.Call) and isinstance(c.func, ast.Attribute) and c.func.attr == "_add_edge_helper" and (H.is_self_attr(c.func) or not q.startswith("CPGraph.")):
                if f is not f0 and any(c is x for g in ast.walk(f) if isinstance(g, (ast.FunctionDef, ast.AsyncFunctionDef)) and g is not f for x in ast.walk(g)):
                    continue          # inside a nested function: visited with that function
                tb = H.bind_call(helper, c).get("type")
                if isinstance(tb, ast.Name) and tb.id in H.param_names(f0) and f0.name.startswith("_") and f0.name != "_add_edge_helper":
                    wrappers.add(f0.name)          # the type is the wrapper's own parameter: its call sites (inlined above) carry the literal
                    continue
                sites.append((q, f, c))
    for w in sorted(wrappers):
        used = [c for q, f0 in m.functions.items() if q.startswith("CPGraph.") for c in ast.walk(f0) if isinstance(c, ast.Call) and isinstance(c.func, ast.Attribute) and c.func.attr == w]
        if not used:
            chk.ob(rule, f"edge wrapper {w} has call sites", None, CP, found=0)
    chk.analysed_add("edge_creation_sites", [f"{q}:{c.lineno}" for q, f, c in sites])
    for q, f, c in sites:
        b = H.bind_call(helper, c)
        ty = "OPERATOR_KERNEL"
        if "type" in b:
            t = ast.unparse(b["type"])
            ty = t.split(".")[-1] if t.startswith("CPEdgeType.") else None
        where = m.loc(c)
        if ty is None or ty not in ACCEPT:
            chk.ob(rule, f"{q}: edge type is a literal CPEdgeType member", None, where, found=ast.unparse(b.get("type")))
            continue
        src = {r for r in R.role(b["src"], f) if r[0] != "NONE"}
        dst = {r for r in R.role(b["dest"], f) if r[0] != "NONE"}
        pairs = {(s[0], d[0]) for s in src for d in dst}
        unknown = any(p[0] == "ANY" or p[1] == "ANY" for p in pairs)
        ok = pairs <= ACCEPT[ty] and bool(pairs)
        chk.ob(rule, f"{q} line-independent site [{ty}: {ast.unparse(b['src'])} -> {ast.unparse(b['dest'])}]: node roles", None if unknown else ok, where,
               found={"src": sorted(src), "dest": sorted(dst)}, accepted=sorted(ACCEPT[ty]),
               why="each edge type joins only what it stands for (launch start -> kernel start; previous kernel end -> kernel start; kernel end -> host call end / kernel start; ...)")
        # event identity constraints
        if ty == "KERNEL_LAUNCH_DELAY":
            # wrapper: src = START(runtime_index parameter), dest = parameter kernel_start_node ; its call sites must pass (row.index_correlation, START(row.index))
            wf = m.func("CPGraph._add_kernel_launch_delay_edge")
            kcalls = [x for x in ast.walk(m.func("CPGraph._construct_graph_from_kernels")) if isinstance(x, ast.Call) and isinstance(x.func, ast.Attribute) and x.func.attr == "_add_kernel_launch_delay_edge"]
            okk = bool(kcalls)
            det = []
            for kc in kcalls:
                kb = H.bind_call(wf, kc)
                kf = m.enclosing_function(kc)
                ri = R_def_text(kf, kb["runtime_index"])
                dn = R.role(kb["kernel_start_node"], kf)
                det.append((ri, sorted(dn)))
                rowvar = ri.split(".")[0] if ri.endswith(".index_correlation") and ri.count(".") == 1 else None
                ev = next(iter(dn))[1] if len(dn) == 1 else None
                okk = okk and rowvar is not None and len(dn) == 1 and next(iter(dn))[0] == "START" and ev is not None and R_def_text(kf, ast.Name(id=ev)) == f"{rowvar}.index"
            chk.ob(rule, "launch-delay edges: from the START of the launch call linked to the kernel (row.index_correlation) to the START of that same kernel (row.index)", okk, where,
                   found=det, accepted=[("row.index_correlation", [("START", "eid")])], why="another source event makes the launch-delay edge join unrelated events")
        if ty == "DEPENDENCY" and isinstance(b["src"], ast.Name):
            outer = m.func("CPGraph._construct_graph_from_call_stack")
            inits = [st for st in outer.body if isinstance(st, (ast.Assign, ast.AnnAssign)) and H.name_id(st.targets[0] if isinstance(st, ast.Assign) else st.target) == b["src"].id]
            ok_init = len(inits) == 1 and isinstance(inits[0].value, ast.Constant) and inits[0].value.value is None
            chk.ob(rule, "dependency edges: the chain of top-level operators starts EMPTY for every thread (the source is only ever the end node of an earlier top-level op of the same traversal)", ok_init, m.loc(outer),
                   found=[ast.unparse(x) for x in inits], accepted=f"{b['src'].id} = None at the start of each call-stack traversal",
                   why="a node carried over from the previously processed thread adds a dependency between unrelated threads, possibly backward in time (cycle with zero-weight launch edges)")
        if ty == "KERNEL_KERNEL_DELAY":
            # "previous kernel" = the kernel handled by the previous iteration for that stream: the per-stream record advances in EVERY iteration that creates a kernel span
            # (no continue / break between the span edge and the store, the store itself not under a condition)
            dname = ast.unparse(b["src"].value) if isinstance(b["src"], ast.Subscript) else None
            loop = next((n_ for n_ in ast.walk(f) if isinstance(n_, ast.For) and any(x_ is c for x_ in ast.walk(n_))), None)
            if dname is not None and loop is not None:
                stores = [st_ for st_ in loop.body if isinstance(st_, ast.Assign) and isinstance(st_.targets[0], ast.Subscript) and ast.unparse(st_.targets[0].value) == dname]
                spans = [st_ for st_ in loop.body for x_ in ast.walk(st_) if isinstance(x_, ast.Call) and isinstance(x_.func, ast.Attribute) and x_.func.attr == "_add_edge_helper"
                         and ("type" not in H.bind_call(helper, x_) or ast.unparse(H.bind_call(helper, x_)["type"]).endswith("OPERATOR_KERNEL")) and isinstance(st_, (ast.Assign, ast.Expr))]
                if len(stores) == 1 and spans:
                    i0, i1 = loop.body.index(spans[0]), loop.body.index(stores[0])
                    jumps = [" ".join(ast.unparse(st_).split())[:100] for st_ in loop.body[i0 + 1:i1] for x_ in ast.walk(st_) if isinstance(x_, (ast.Continue, ast.Break)) and not any(
                        isinstance(lp_, (ast.For, ast.While)) and any(x_ is y_ for y_ in ast.walk(lp_)) for lp_ in ast.walk(st_) if lp_ is not st_ or isinstance(st_, (ast.For, ast.While)))]
                    chk.ob(rule, "kernel-to-kernel edges: the per-stream 'previous kernel' advances with every kernel whose span is created (no early exit of the iteration in between)", not jumps and i1 > i0, where,
                           found=jumps or "store at the end of every iteration", accepted=f"{dname}[stream] = end_node reached by every iteration that adds the span edge",
                           why="a `continue` after the span edge leaves the record at an older kernel: the next delay edge no longer joins consecutive kernels of the stream and spans the skipped kernel's run time")
                else:
                    chk.ob(rule, "kernel-to-kernel edges: the per-stream 'previous kernel' record is advanced once per iteration, at the top level of the loop body", None, where, found={"stores": len(stores), "span statements": len(spans)})
            keys_ok = all("@key " in s[1] and "read with key" not in s[1] for s in src) and bool(src)
            chk.ob(rule, "kernel-to-kernel edges: from the END of the previous kernel stored under the SAME stream key", keys_ok, where, found=sorted(src), accepted="last_node[stream] written and read with the row's stream",
                   why="another key joins kernels of different streams")
    # sync source selection
    kf = H.inline_helpers(m, m.func("CPGraph._construct_graph_from_kernels.handle_cuda_sync"), qual="CPGraph._construct_graph_from_kernels.handle_cuda_sync", exclude=("_add_gpu_cpu_sync_edge", "_add_edge_helper", "_add_kernel_launch_delay_edge"))          # (sibling closures it delegates to written out)
    sync_loops = [n for n in ast.walk(kf) if isinstance(n, ast.For) and any(isinstance(c, ast.Call) and isinstance(c.func, ast.Attribute) and c.func.attr == "_add_gpu_cpu_sync_edge" for c in ast.walk(n))]
    defs = []
    for lp_ in sync_loops:
        if isinstance(lp_.iter, ast.Name):
            dd = [(v, s) for t, v, s in H.assignments(kf) if H.name_id(t) == lp_.iter.id]
            # the same choice written as if/else statements: fold the two branch assignments into one conditional expression
            if len(dd) == 2:
                for cand in [n for n in ast.walk(kf) if isinstance(n, ast.If) and len(n.body) == 1 and len(n.orelse) == 1]:
                    if cand.body[0] is dd[0][1] and cand.orelse[0] is dd[1][1]:
                        dd = [(ast.IfExp(test=cand.test, body=dd[0][0], orelse=dd[1][0]), cand)]
            defs += [v for v, s in dd]
        else:
            defs.append(lp_.iter)

    def _unwrap(e):
        """list(x) / tuple(x) around either alternative is a re-packaging"""
        class U(ast.NodeTransformer):
            def visit_Call(self, n):
                self.generic_visit(n)
                if isinstance(n.func, ast.Name) and n.func.id in ("list", "tuple") and len(n.args) == 1 and not n.keywords:
                    return n.args[0]
                return n
        import copy as _copy
        return U().visit(_copy.deepcopy(e))
    defs = [_unwrap(d) for d in defs]
    sel_pats = ["last_node.values() if {n} == context_sync else [last_node.get($r.stream)]", "[last_node.get($r.stream)] if {n} != context_sync else last_node.values()",
                "[last_node.get($r.stream)] if {n} == stream_sync else last_node.values()"]
    # the event's name: a local bound to row.name, or row.name itself
    oksel = len(defs) == 1 and any(H.match(p_.format(n=n_), defs[0]) is not None for p_ in sel_pats for n_ in ("$n", "$r.name"))
    chk.ob(rule, "sync edges: a Context Sync waits for the last activity of every stream, a Stream Sync only for the last activity of ITS stream", oksel if len(defs) == 1 else None, m.loc(kf),
           found=[ast.unparse(d) for d in defs], accepted="last_node.values() if name == context_sync else [last_node.get(row.stream)]",
           why="falling back to all streams makes a sync edge leave a kernel the call never waited for (possibly backward in time)")
    # every edge type of the table is created somewhere (sites may be merged or split by a refactoring: the count itself is not a rule)
    seen_types = set()
    for q, f, c in sites:
        b = H.bind_call(helper, c)
        seen_types.add(ast.unparse(b["type"]).split(".")[-1] if "type" in b else "OPERATOR_KERNEL")
    missing_types = sorted(set(ACCEPT) - seen_types)
    if missing_types:
        chk.ob(rule, "every edge type has a creation site", None, CP, found={"missing": missing_types, "sites": len(sites)}, accepted=sorted(ACCEPT))
    chk.floor(rule, 10)


def R_def_text(f, expr: ast.expr) -> str:
    """text of the single definition of a name in f (tuple assignments unpacked), else the expression text"""
    if not isinstance(expr, ast.Name):
        return ast.unparse(expr)
    ds = []
    for t, v, s in H.assignments(f, nested=False):
        if H.name_id(t) == expr.id:
            ds.append(ast.unparse(v))
    return ds[0] if len(ds) == 1 else ast.unparse(expr)


# ------------------------------------------------------------------------------------------ R4 validation / R5 api
def longest_path_call(m, f):
    """(the nx.dag_longest_path call, the node of critical_path that stands for it, the private helper holding it or None)"""
    lp = [n for n in ast.walk(f) if isinstance(n, ast.Call) and call_name(n).endswith("dag_longest_path")]
    if len(lp) == 1:
        return lp[0], lp[0], None
    if not lp:
        found = []
        for c in ast.walk(f):
            if isinstance(c, ast.Call) and isinstance(c.func, ast.Attribute) and H.is_self_attr(c.func) and c.func.attr.startswith("_"):
                q = H.resolve_method(m, "CPGraph", c.func.attr)
                d = m.functions.get(q) if q else None
                if d is None:
                    continue
                inner = [n for n in ast.walk(d) if isinstance(n, ast.Call) and call_name(n).endswith("dag_longest_path")]
                found += [(x, c, d) for x in inner]
        if len(found) == 1:
            return found[0]
    raise AnalysisError("critical_path: the longest-path call was not found")


def validation_gate(db, m):
    """[abstract run] critical_path() with _validate_graph hooked to return False: True if no explored run reaches the longest-path search or returns success,
    False if one does, None if the method could not be evaluated"""
    from ..core.interp import Interp
    from ..core.values import Obj
    seen = {"search": 0, "validate": 0}

    def hook(I, name, pos, kw, node):
        last = name.split(".")[-1]
        if last == "_validate_graph":
            seen["validate"] += 1
            return False
        if last in ("dag_longest_path", "dag_longest_path_length"):
            seen["search"] += 1
            return [0, 1]
        return NotImplemented
    try:
        runs = Interp(db, call_hook=hook).explore(f"{m.name}:CPGraph.critical_path", lambda I: {"self": Obj("self", cls=(m, "CPGraph"), attrs={"critical_path_nodes": [7], "critical_path_events_set": {99}, "critical_path_edges_set": set(), "node_list": [], "edges": {}})})
    except AnalysisError:
        return None
    if not runs or not seen["validate"]:
        return None
    if seen["search"] or any(r.raised is None and r.ret is True for r in runs):
        return False
    if all(r.raised is not None or r.ret is False for r in runs):
        return True
    return None


def _validation(db, chk, m):
    rule = "C08.R4-validation"
    f = m.func("CPGraph.critical_path")
    body = f.body
    lp = [longest_path_call(m, f)[1]]          # the node of critical_path that stands for the computation (the call itself or the call of the helper holding it)
    guard = [s for s in body if isinstance(s, ast.If) and "_validate_graph" in ast.unparse(s.test)]
    ok = len(lp) == 1 and len(guard) == 1 and isinstance(guard[0].test, ast.UnaryOp) and isinstance(guard[0].test.op, ast.Not) and any(isinstance(x, ast.Raise) for x in guard[0].body) \
        and guard[0].lineno < lp[0].lineno
    gate = validation_gate(db, m)
    # decided by an abstract run (validation hooked to FAIL: no run may reach the search or report success); the shape of the guard is a diagnostic that defers to it
    chk.ob(rule, "critical_path validates the graph first and raises when validation fails, before the longest-path computation", gate if gate is not None else (True if ok else None), m.loc(f),
           found={"guards": [ast.unparse(g.test) for g in guard], "abstract run with a failing validation": {True: "the search is never reached, no success reported", False: "the search is reached or success is reported", None: "not evaluated"}[gate]},
           accepted="if not self._validate_graph(): raise ...  before nx.dag_longest_path (in critical_path or a helper)", why="a longest path computed on a graph with a cycle or negative weights is meaningless")
    v = m.func("CPGraph._validate_graph")
    # decided by abstract runs of _validate_graph on one-edge graphs: the verdict it returns for each kind of defect
    ref = f"{CP}:CPGraph._validate_graph"
    chk.analysed_add("functions", ref)

    def verdict(w, ty, streams, strict, acyclic):
        def hook(I, name, pos, kw, node):
            if name.endswith("critical_path_strict_negative_weight_check"):
                return strict
            if name.endswith("is_directed_acyclic_graph"):
                return acyclic
            if name.endswith("_get_node_name"):
                return "name"
            if name.endswith("simple_cycles") or name.endswith("find_cycle"):
                return []
            # the other spellings of networkx' edge view over the same one edge: G.edges(data=True | key), G.edges.data(key), G.get_edge_data(u, v)
            if name in ("self.edges", "self.edges.data"):
                key = kw.get("data", pos[0] if pos else None)
                if key is True:
                    return [PyTuple([0, 1, state["data"]])]
                if isinstance(key, str):
                    return [PyTuple([0, 1, state["data"].get(key, kw.get("default"))])]
                return [PyTuple([0, 1])]
            if name == "self.get_edge_data" and len(pos) == 2:
                return state["data"]
            return NotImplemented
        I = Interp(db, call_hook=hook)
        state = {}

        def args(I):
            e = Obj("edge", attrs={"weight": w, "type": ("enum", "CPEdgeType", ty), "begin": 0, "end": 1})
            state["data"] = {"object": e, "weight": w, "type": ("enum", "CPEdgeType", ty)}
            edges = {to_term(PyTuple([0, 1])): state["data"]}
            nl = [Obj("n0", attrs={"ev_idx": 10, "idx": 0, "is_start": False, "is_blocking": False}), Obj("n1", attrs={"ev_idx": 11, "idx": 1, "is_start": True, "is_blocking": False})]
            tdf = Obj("trace_df", attrs={"stream": Obj("stream", attrs={"loc": {10: streams[0], 11: streams[1]}})})
            return {"self": Obj("self", cls=(m, "CPGraph"), attrs={"edges": edges, "node_list": nl, "trace_df": tdf})}
        try:
            runs = [r for r in I.explore(ref, args) if r.raised is None]
        except AnalysisError:
            return None
        return runs[0].ret if len(runs) == 1 and not runs[0].path and isinstance(runs[0].ret, bool) else None
    cases = (("a sound edge", (5, "DEPENDENCY", (7, 8), True, True), True),
             ("an edge weighing -5 (strict check)", (-5, "DEPENDENCY", (7, 8), True, True), False),
             ("a tolerated weight of -1 (default option)", (-1, "DEPENDENCY", (7, 8), False, True), True),
             ("a synchronisation edge between kernels of ONE stream", (5, "SYNC_DEPENDENCY", (7, 7), True, True), False),
             ("a synchronisation edge between two streams", (5, "SYNC_DEPENDENCY", (7, 8), True, True), True),
             ("a synchronisation edge between host events (stream -1)", (5, "SYNC_DEPENDENCY", (-1, -1), True, True), True),
             ("a cyclic graph", (5, "DEPENDENCY", (7, 8), True, False), False))
    got = {what: verdict(*a) for what, a, _ in cases}
    bad = {what: got[what] for what, _, want in cases if got[what] is not None and got[what] != want}
    chk.ob(rule, "_validate_graph rejects negative weights, same-stream sync edges and cycles, and accepts a sound graph (decided on one-edge graphs)",
           None if any(g is None for g in got.values()) and not bad else not bad, m.loc(v), found=bad or {k: g for k, g in got.items()},
           accepted={what: want for what, _, want in cases}, why="critical_path computes a longest path only on a graph this method accepts: a cycle or a negative weight makes the maximum meaningless")
    chk.note("C08: the non-strict branch of _validate_graph tests weight <= -1 before weight < -1, so the second test is dead unless the strict option is set (noted, no alarm)")


def _api(db, chk, m):
    rule = "C08.R5-api-contract"
    closure = H.method_closure(m, "CPGraph", ["_construct_graph", "critical_path", "get_critical_path_breakdown", "summary"])
    bad = []
    for meth in closure:
        f = m.functions[f"CPGraph.{meth}"]
        for c in ast.walk(f):
            if isinstance(c, ast.Call) and isinstance(c.func, ast.Attribute) and c.func.attr == "drop":
                kws = {k.arg for k in c.keywords}
                if "axis" in kws and ({"columns", "index"} & kws):
                    bad.append(m.loc(c))
    chk.ob(rule, "construction path: no DataFrame.drop(axis=..., columns=...) (rejected by the installed pandas: analysis would fail for every trace)", not bad, CP, found=bad, accepted="drop(columns=...)",
           key="hta.analyzers.critical_path_analysis|drop-axis-and-columns")
    chk.analysed_add("construction_closure", closure)


def _in_cpa(m, func_name: str) -> bool:
    """is an event of the evaluation logged in critical_path_analysis itself or in one of the private helpers it is split into"""
    fn = m.func("CriticalPathAnalysis.critical_path_analysis")
    names = {m.qualname_of(g).split(".")[-1] for g in H.with_private_callees(m, fn, depth=2)}
    return func_name.split(".")[-1].split(":")[-1] in names


def _instance_range(db, chk, m):
    """the annotation instances that delimit the window: None -> instance 0; k -> instance k; (first, last) -> instances first..last INCLUSIVE"""
    rule = "C08.R11-instance-range"
    ref = f"{CP}:CriticalPathAnalysis.critical_path_analysis"
    fn = m.func("CriticalPathAnalysis.critical_path_analysis")
    where = m.loc(fn)
    TD = ("param", "TD")
    for label, inst, want in (("None", None, (0, 1)), ("0", 0, (0, 1)), ("2", 2, (2, 3)), ("(1, 3)", PyTuple([1, 3]), (1, 4)), ("(2, 2)", PyTuple([2, 2]), (2, 3))):
        built = []

        def hook(I, name, pos, kw, node):
            if name == "t.get_trace":
                return Frame(TD)
            if name == "t.symbol_table.get_sym_id_map":
                return {"cuda_sync": 1, "ANNOT": 7, "Stream Wait Event": 9}
            if name == "deepcopy":
                return Obj("t_copy", attrs={"traces": {}})
            if name == "CPGraph":
                built.append(pos)
                return Obj("cp_graph")
            if name.endswith(".critical_path"):
                return True
            return NotImplemented
        I = Interp(db, call_hook=hook)
        runs = [r for r in I.explore(ref, lambda I: {"cls": Obj("cls", cls=(m, "CriticalPathAnalysis")), "t": Obj("t", attrs={"symbol_table": Obj("symtab")}), "rank": T.P("rank"), "annotation": "ANNOT", "instance_id": inst}) if r.raised is None]
        got = set()
        for r in runs:
            for e in r.events:
                if e["kind"] == "filter" and e.get("how") == "query" and _in_cpa(m, e["func"]):
                    for s_ in T.subterms(e["pred"]):
                        if isinstance(s_, tuple) and len(s_) == 2 and s_[0] == "rowslice" and isinstance(s_[1], tuple) and len(s_[1]) == 3 and all(x is None or isinstance(x, int) for x in s_[1]):
                            got.add((s_[1][0] or 0, s_[1][1]))
        chk.ob(rule, f"instance_id={label}: the window spans annotation instances [{want[0]}, {want[1]}) of the selected annotation", (got == {want}) if got else None, where,
               found=sorted(got, key=repr), accepted=[want], why="an exclusive upper bound drops the last requested instance: its events are missing from the graph; (k, k) selects nothing")
    chk.floor(rule, 5)


def _per_thread_state(db, chk, m, rule="C08.R12-per-thread-state"):
    """the walk over a thread's call stack starts from a fresh traversal state: no state object that the per-thread code writes to is created once, in front of the loop
    over the threads, and handed to every thread's walk"""
    f = m.func("CPGraph._construct_graph_from_call_stacks")
    where = m.loc(f)
    loops = [n for n in ast.walk(f) if isinstance(n, ast.For)]
    shared = []
    n_calls = 0
    for lp in loops:
        inside = {id(n) for n in ast.walk(lp)}
        for c in [n for n in ast.walk(lp) if isinstance(n, ast.Call) and isinstance(n.func, ast.Attribute) and isinstance(n.func.value, ast.Name) and n.func.value.id == "self"]:
            callee = m.functions.get(f"CPGraph.{c.func.attr}")
            if callee is None:
                continue
            n_calls += 1
            unit = H.with_private_callees(m, callee)
            for a in list(c.args) + [k.value for k in c.keywords]:
                if not isinstance(a, ast.Name):
                    continue
                defs = [(t_, v_, s_) for t_, v_, s_ in H.assignments(f, nested=False) if isinstance(t_, ast.Name) and t_.id == a.id]
                for t_, v_, s_ in defs:
                    if id(s_) in inside or not (isinstance(v_, ast.Call) and H.name_id(v_.func) in m.classes):
                        continue
                    cdef = m.classes[H.name_id(v_.func)]
                    fields = {st.target.id for st in cdef.body if isinstance(st, ast.AnnAssign) and isinstance(st.target, ast.Name)} | \
                        {t2.attr for fn_ in cdef.body if isinstance(fn_, ast.FunctionDef) for t2 in ast.walk(fn_) if isinstance(t2, ast.Attribute) and isinstance(t2.ctx, ast.Store) and isinstance(t2.value, ast.Name) and t2.value.id == "self"}
                    written = sorted({n.attr for g_ in unit for n in ast.walk(g_) if isinstance(n, ast.Attribute) and isinstance(n.ctx, ast.Store) and n.attr in fields and not (isinstance(n.value, ast.Name) and n.value.id == "self")})
                    if written:
                        shared.append(f"{a.id} = {ast.unparse(v_)} created once at line {s_.lineno}, handed to self.{c.func.attr}(...) for every thread; the walk writes {written}")
    chk.ob(rule, "every thread's walk starts from a fresh traversal state (no state object written by the walk is created once in front of the loop over the threads)", not shared if n_calls else None, where,
           found=shared or f"{n_calls} per-thread call(s), none receives a shared mutable state object", accepted="state created per thread (inside the per-thread function or the loop)",
           why="what the walk remembers of the previous thread (its last top-level operator) becomes the source of a DEPENDENCY edge into the next thread: an edge between threads, backward in time, possibly a cycle")


def _window(db, chk, m):
    """window clipping: a launch call is analysed iff the device activity it launched is (same window predicate on the launch call's ts and dur)"""
    rule = "C08.R6-window-clipping"
    ref = f"{CP}:CriticalPathAnalysis.critical_path_analysis"
    fn = m.func("CriticalPathAnalysis.critical_path_analysis")
    where = m.loc(fn)
    TD = ("param", "TD")
    built = []

    def hook(I, name, pos, kw, node):
        if name == "t.get_trace":
            return Frame(TD)
        if name == "t.symbol_table.get_sym_id_map":
            return {"cuda_sync": 1, "ANNOT": 7, "Stream Wait Event": 9}
        if name == "deepcopy":
            return Obj("t_copy", attrs={"traces": {}})
        if name == "CPGraph":
            built.append(pos)
            return Obj("cp_graph")
        if name.endswith(".critical_path"):
            return True
        return NotImplemented

    I = Interp(db, call_hook=hook)
    runs = [r for r in I.explore(ref, lambda I: {"cls": Obj("cls", cls=(m, "CriticalPathAnalysis")), "t": Obj("t", attrs={"symbol_table": Obj("symtab")}), "rank": T.P("rank"), "annotation": "ANNOT", "instance_id": 0}) if r.raised is None]
    chk.analysed_add("functions", ref)
    runs = [r for r in runs if built]
    if len(runs) != 1:
        chk.ob(rule, "critical_path_analysis(annotation, instance 0): one path reaching graph construction", None, where, found=len(runs))
        return
    r = runs[0]
    filt = [e for e in r.events if e["kind"] == "filter" and e["how"] == "query" and _in_cpa(m, e["func"])]
    if len(filt) != 2:          # the same two selections written as boolean masks: the filters of the method whose predicate compares a time column with the window bounds
        cand = [e for e in r.events if e["kind"] == "filter" and _in_cpa(m, e["func"]) and e.get("pred") is not None and T.find(e["pred"], lambda s_: s_[0] in ("agg", "at"))
                and T.find(e["pred"], lambda s_: s_[0] in ("col", "jl", "jr") and s_[-1] == "ts")]
        if len(cand) == 2:
            filt = cand
    if len(filt) != 2:
        chk.ob(rule, "two window queries (host events, device activities)", None, where, found=len(filt))
        return
    host, dev = filt
    S = [s for s in T.subterms(host["pred"]) if isinstance(s, tuple) and s and s[0] == "agg"]
    def shape(pred, tscol, durcol):
        """{'lo': op on ts vs window start, 'hi': op vs window end, 'dur': op}"""
        out = {}
        for a in T.bool_atoms(pred):
            if a[0] != "cmp":
                continue
            d, k = T.as_lin(a[2])
            cols = [c for c in d if c[0] in ("col", "jl", "jr", "nullable")]
            aggs = [c for c in d if c[0] == "agg" or (c[0] == "at")]
            txt = T.show(a)
            if any(tscol in T.show(c) for c in cols) and aggs:
                fn_ = "min" if "min[" in txt else "max" if "max[" in txt else "?"
                coef = [d[c] for c in cols if tscol in T.show(c)][0]
                op = a[1] if coef > 0 else {"<": ">", "<=": ">=", ">": "<", ">=": "<="}[a[1]]
                out["lo" if fn_ == "min" else "hi"] = op
            elif any(durcol in T.show(c) for c in cols) and not aggs:
                coef = [d[c] for c in cols if durcol in T.show(c)][0]
                out["dur"] = a[1] if coef > 0 else {"<": ">", "<=": ">=", ">": "<", ">=": "<="}[a[1]]
        return out
    hs = shape(host["pred"], ".ts", ".dur")
    ds = shape(dev["pred"], ".ts", ".dur")
    # device atoms must be on the RUNTIME (launch) columns
    dev_cols_ok = all(("jr(" in T.show(a) or "name" in T.show(a)) for a in T.bool_atoms(dev["pred"]))
    chk.ob(rule, "host events selected: start within the window (either boundary convention) and positive duration", hs.get("lo") in (">=", ">") and hs.get("hi") in ("<=", "<") and hs.get("dur") == ">" and len(hs) == 3,
           where, found=hs, accepted={"lo": ">= | >", "hi": "<= | <", "dur": ">"})
    chk.ob(rule, "device activities selected through THE SAME predicate on their launch call's ts and dur (or Stream Wait Event records)", ds == hs and dev_cols_ok, where, found={"device": ds, "host": hs, "on_launch_columns": dev_cols_ok},
           accepted="identical comparison operators on ts_runtime / dur_runtime",
           why="if the two windows differ at a boundary a kernel is kept without its launch call (or vice versa): the launch nodes are missing and graph construction asserts")
    j = [e for e in r.events if e["kind"] == "join" and _in_cpa(m, e["func"])]
    okj = len(j) == 1 and j[0]["how"] == "left" and j[0]["right_key_terms"] == (T.col(TD, "index_correlation"),) and j[0]["left_key_terms"] == (("index", TD),)
    chk.ob(rule, "a device activity is matched with the host call whose index_correlation is the activity's id", okj, where, found=[(e["how"], T.show(e["left_key_terms"])[:60], T.show(e["right_key_terms"])[:60]) for e in j],
           accepted="gpu rows (indexed by event id) joined with host rows indexed by index_correlation")


def _cg_scope(db, chk):
    """the host call stacks walked by the graph builder are those of the analysed rank only"""
    m = db.mod(CP)
    f = m.func("CPGraph._construct_graph_from_call_stacks")
    cs = [c for c in ast.walk(f) if isinstance(c, ast.Call) and H.name_id(c.func) == "CallGraph"]
    if len(cs) != 1:
        chk.ob("C08.R10-analysed-rank-only", "one CallGraph construction in _construct_graph_from_call_stacks", None, m.loc(f), found=len(cs))
        return
    b = H.bound_args(cs[0])
    rk = b.get("ranks")
    ok = rk is not None and (H.match("[self.rank]", rk) is not None)
    chk.ob("C08.R10-analysed-rank-only", "the call graph is built for ranks=[self.rank] (the rank whose node maps the walk fills)", ok, m.loc(cs[0]), found={k: ast.unparse(v) for k, v in b.items()},
           accepted="CallGraph(self.t, ranks=[self.rank])", why="without the restriction the stacks of every loaded rank are walked against this rank's event -> node maps: events of other ranks are looked up by id and edges join unrelated events")
