"""C06 - idle-time breakdown: gaps between stream-consecutive kernels, classified by rule."""
from __future__ import annotations

import ast
import itertools

from ..core import terms as T
from ..core import asthelp as H
from ..core.interp import Interp
from ..core.progdb import AnalysisError
from ..core.values import Frame, Obj, PyTuple, to_term
from ..specs.merge import check_term

EXPLANATION = (
    "Symbolic column-term evaluation of BreakdownAnalysis._analyze_idle_time_for_stream and get_idle_time_breakdown plus the facade. Decides: per "
    "stream the rows are those with stream == s sorted by ts; gap = ts - shift(+1)(ts+dur); the category column, extracted as a complete decision "
    "table over the atoms p: launch_ts > prev_end (strict) and q: gap < threshold (strict), equals {p->HOST_WAIT, !p&q->KERNEL_WAIT, !p&!q->OTHER}; "
    "idle_time = sum of gaps per category, ratio = idle_time / their total; the launch timestamp is the ts of the event whose id is the kernel's "
    "index_correlation (left join, suffix agreement); device rows and kernel categories selected; enum values written = values the name map reads; "
    "every wrapper argument is bound to the like-named parameter. Non-overlap of kernels within a stream is an input assumption."
    " Later additions: effect rules; facade defaults are never resolved from one rank's trace; the wrapper keeps no result cache."
)
BA = "hta.analyzers.breakdown_analysis"


def _table(term, atoms):
    """decision table of `term` over the given atoms (dict name -> (atom term, negated-form term or None))"""
    rows = {}
    names = sorted(atoms)
    for vals in itertools.product([True, False], repeat=len(names)):
        mp = {}
        for n, v in zip(names, vals):
            pos, neg = atoms[n]
            mp[pos] = T.C(v)
            mp[("not", pos)] = T.C(not v)
            if neg is not None:
                mp[neg] = T.C(not v)
                mp[("not", neg)] = T.C(v)
        r = T.renorm(T.replace(term, mp))
        rows[vals] = r
    return names, rows


def run(db, chk) -> None:
    from ..specs.discipline import check_shared_trace_untouched
    check_shared_trace_untouched(db, chk, "C06.R-shared-trace")
    from ..specs.discipline import check_facade_stateless
    check_facade_stateless(db, chk, "C06.R-facade-stateless", ['get_idle_time_breakdown'])
    from ..specs.discipline import check_stateless
    check_stateless(db, chk, "C06.R-stateless", ['hta.analyzers.breakdown_analysis'])      # the result is a function of the arguments: no state kept between calls, caller's Trace untouched
    chk.floor("C06.R-stateless", 4)
    m = db.mod(BA)
    cls = (m, "BreakdownAnalysis")
    ut = db.mod("hta.utils.utils")
    enum = ut.enum_members("IdleTimeType")
    G = ("param", "G")
    ref = f"{BA}:BreakdownAnalysis._analyze_idle_time_for_stream"
    fn = m.func("BreakdownAnalysis._analyze_idle_time_for_stream")
    where = m.loc(fn)
    I = Interp(db)
    runs = I.explore(ref, lambda I: {"cls": Obj("cls", cls=cls), "gpu_kernels": Frame(G), "show_idle_interval_stats": False})
    chk.analysed_add("functions", ref)
    runs = [r for r in runs if r.raised is None]
    if len(runs) != 1 or not isinstance(runs[0].ret, PyTuple) or not isinstance(runs[0].ret.items[0], Frame):
        chk.ob("C06.R1-gap-terms", "one path returning (frame, stats)", None, where, found=len(runs))
        return
    R = runs[0].ret.items[0]
    STREAM, DELAY = T.P("stream"), T.P("consecutive_kernel_delay")
    idle_t = R.col("idle_time")
    # the per-category aggregation, whatever the output column is called (classic `["idle_interval"].sum()` or named aggregation idle_time=("idle_interval", "sum"))
    gbs = [e for e in runs[0].events if e["kind"] == "groupby-agg" and ("idle_interval" in e["cols"] or (e["keys"] == ["idle_category"] and e["cols"]))]
    if T.has_opaque(idle_t) or len(gbs) != 1:
        chk.ob("C06.R3-totals", "idle_time is a per-category aggregate of the gap column", None, where, found=T.show(idle_t)[:300])
        return
    S, keys = gbs[0]["src_ctx"], gbs[0]["key_terms"]
    TS, DUR = T.col(G, "ts"), T.col(G, "dur")
    acc_S = [(G, T.cmp("==", T.col(G, "stream"), STREAM), ("sort", (TS,), True, k, None)) for k in ("quicksort", "stable", "mergesort", "heapsort")]
    chk.ob("C06.R1-gap-terms", "rows analysed = rows of the requested stream, sorted by ts ascending", S in acc_S, where, found=T._ctx(S),
           accepted="stream == s, sort by ts asc", why="consecutive kernels of ONE stream in start order define the gaps")
    END = T.add(TS, DUR)
    prev_end = T.win("shift", (1,), END, S)
    gap = T.sub(TS, prev_end)
    check_term(chk, "C06.R1-gap-terms", "idle_time = sum per category of (ts - end of the previous kernel), previous = shift(+1) of ts+dur", where, idle_t,
               [T.agg("sum", gap, S, keys)], "shift(-1), end-ts, or another aggregate measure something else than the gaps before the kernels")
    # ---- classification table
    if len(keys) != 1:
        chk.ob("C06.R2-classification", "grouped by one category column", False, where, found=len(keys), accepted=1)
        return
    cat = keys[0]
    RT = T.col(G, "ts_runtime")
    p = T.cmp(">", RT, prev_end)
    p_neg = T.cmp("<=", RT, prev_end)
    q = T.cmp("<", T.sub(TS, prev_end), DELAY)
    q_neg = T.cmp(">=", T.sub(TS, prev_end), DELAY)
    atoms_found = set(T.bool_atoms(cat))
    known = {p, p_neg, q, q_neg}
    extra = [a for a in atoms_found if a not in known]
    chk.ob("C06.R2-classification", "category depends only on the atoms launch_ts > prev_end (strict) and gap < threshold (strict)", not extra if not T.has_opaque(cat) else None,
           where, found=[T.show(a)[:200] for a in sorted(atoms_found, key=repr)], accepted=[T.show(p), T.show(q)],
           why="a non-strict comparison reclassifies gaps with launch_ts == prev_end or gap == threshold; another operand classifies by the wrong quantity")
    if not extra and not T.has_opaque(cat):
        names, rows = _table(cat, {"p": (p, p_neg), "q": (q, q_neg)})
        want = {(True, True): enum.get("HOST_WAIT"), (True, False): enum.get("HOST_WAIT"), (False, True): enum.get("KERNEL_WAIT"), (False, False): enum.get("OTHER")}
        for vals, r in rows.items():
            chk.ob("C06.R2-classification", f"table row p={vals[0]} q={vals[1]}", r == T.C(want[vals]), where, found=T.show(r)[:200],
                   accepted=f"{want[vals]} (IdleTimeType value)", why="{p->HOST_WAIT; !p&q->KERNEL_WAIT; !p&!q->OTHER}")
    tot = T.agg("sum", idle_t, R.ctx())
    def _plain(x):
        if isinstance(x, tuple):
            return _plain(x[1]) if len(x) == 2 and x[0] == "coldata" else tuple(_plain(y) for y in x)
        return x
    ratio_t = R.col("idle_time_ratio")
    acc_ratio = [T.div(idle_t, tot)]
    X = T.renorm(_plain(idle_t))
    # the total may have been taken on the per-category series before the result frame was assembled: the sum of the same term over ALL rows of that table
    for c_ in {s_[3] for s_ in T.find(_plain(ratio_t), lambda s_: s_[0] == "agg" and len(s_) == 5 and s_[1] == "sum" and s_[4] == ()) if isinstance(s_[3], tuple) and len(s_[3]) == 3 and s_[3][1] == T.TRUE}:
        acc_ratio.append(T.div(X, T.agg("sum", X, c_)))
    check_term(chk, "C06.R3-totals", "idle_time_ratio = idle_time / sum of the stream's idle_time", where, ratio_t, acc_ratio)
    check_term(chk, "C06.R3-totals", "stream column = the analysed stream", where, R.col("stream"), [STREAM])
    chk.floor("C06.R2-classification", 5)

    # ---------------------------------------------------------------- get_idle_time_breakdown
    ref2 = f"{BA}:BreakdownAnalysis.get_idle_time_breakdown"
    f2 = m.func("BreakdownAnalysis.get_idle_time_breakdown")
    where2 = m.loc(f2)
    TR = ("param", "TR")
    seen = []

    def hook(I, name, pos, kw, node):
        if name.endswith("_analyze_idle_time_for_stream"):
            seen.append((pos, kw, node))
            return PyTuple([Frame(("perstream",)), None])
        return NotImplemented

    def t_obj(I):
        return Obj("t", attrs={"get_trace": None, "symbol_table": Obj("symtab")})

    def hook2(I, name, pos, kw, node):
        if name == "t.get_trace":
            return Frame(TR)
        if name == "t.symbol_table.get_sym_id_map":
            return T.P("SYMMAP")
        return hook(I, name, pos, kw, node)

    I = Interp(db, call_hook=hook2, decide=lambda c: True if c == T.cmp("==", T.P("streams"), T.NONE) else None)
    runs = I.explore(ref2, lambda I: {"cls": Obj("cls", cls=cls), "t": T.P("t"), "visualize": False, "show_idle_interval_stats": False})
    chk.analysed_add("functions", ref2)
    runs = [r for r in runs if r.raised is None]
    if not runs or not seen:
        chk.ob("C06.R4-selection", "get_idle_time_breakdown analysed", None, where2, found=f"paths={len(runs)} calls={len(seen)}")
        return
    pos, kw, node = seen[0]
    b = dict(zip(["stream", "gpu_kernels", "consecutive_kernel_delay", "show_idle_interval_stats"], pos))
    b.update(kw)
    gk = b.get("gpu_kernels")
    chk.ob("C06.R5-binding", "per-stream call passes threshold and stats flag to the like-named parameters",
           to_term(b.get("consecutive_kernel_delay")) == T.P("consecutive_kernel_delay") and b.get("show_idle_interval_stats") is False, m.loc(node),
           found={k: T.show(to_term(v))[:80] for k, v in b.items() if k != "gpu_kernels"}, accepted="consecutive_kernel_delay, show_idle_interval_stats")
    if not isinstance(gk, Frame) or gk.base[0] != "join":
        # the launch time may reach the kernels some other way (a positional gather, a map through a dict): without a join the slots below cannot be read - not understood.
        # Only a kernel frame that carries NO launch time at all is a finding.
        has_rt = isinstance(gk, Frame) and gk.has("ts_runtime") is not False
        chk.ob("C06.R1-launch-join", "kernels joined with their launch call", None if (not isinstance(gk, Frame) or has_rt) else False, where2, found=repr(gk)[:200],
               accepted="left join of the kernels with the trace frame's ts")
        return
    _, how, Lctx, Rctx, lk, rk, sfx = gk.base
    rt = gk.col("ts_runtime")
    exp_rt = ("nullable", ("jr", gk.base, T.col(TR, "ts")))
    chk.ob("C06.R1-launch-join", "join keeps every kernel (left join)", how == "left", where2, found=how, accepted="left",
           why="an inner join drops kernels without a launch call and merges the gaps around them")
    chk.ob("C06.R1-launch-join", "left key = the kernel's index_correlation, right key = the event id index of the trace frame",
           lk == (T.col(TR, "index_correlation"),) and rk == (("index", TR),), where2, found=[T.show(x) for x in lk + rk],
           accepted=["TR.index_correlation", "index(TR)"], why="any other key attaches another event's timestamp as the launch time")
    chk.ob("C06.R1-launch-join", "right side is the whole trace frame (every linked host event can supply its ts)", Rctx == (TR, T.TRUE, None), where2,
           found=T._ctx(Rctx), accepted="all rows of the trace frame", why="restricting the launch side loses the launch time of e.g. driver-API launches: their gaps can never be host_wait")
    check_term(chk, "C06.R1-launch-join", "ts_runtime (read by the classifier) is the launch call's ts (suffix agreement)", where2, rt, [exp_rt])
    check_term(chk, "C06.R1-launch-join", "kernel ts/dur/stream seen by the classifier are the kernel's own", where2,
               ("cols", gk.col("ts"), gk.col("dur"), gk.col("stream")),
               [("cols",) + tuple(("jl", gk.base, T.col(TR, c)) for c in ("ts", "dur", "stream"))])
    # selection predicate
    rows = Lctx[1]
    stream_ne = T.cmp("!=", T.col(TR, "stream"), T.C(-1))
    conj = set(rows[1]) if rows[0] == "and" else {rows}
    cat_in = [c for c in conj if c[0] == "in" and c[1] == T.col(TR, "cat")]
    others = [c for c in conj if c not in cat_in]
    tt_ok = None
    if len(others) == 1:
        try:
            tt = {sv: bool(T.evaluate(others[0], lambda leaf, sv=sv: sv if leaf == T.col(TR, "stream") else (_ for _ in ()).throw(T.Unknown(leaf)))) for sv in (-1, 1, 7)}
            tt_ok = tt == {-1: False, 1: True, 7: True}
        except T.Unknown:
            tt_ok = False
    chk.ob("C06.R4-selection", "selected rows: device rows (predicate over stream only: false at -1, true for positive ids)", tt_ok if len(others) == 1 else False, where2,
           found=[T.show(o)[:200] for o in others], accepted="stream != -1", why="a predicate that also reads dur removes zero-length kernels, which are gap boundaries")
    names = set()
    if len(cat_in) == 1 and cat_in[0][2][0] == "set":
        for mem in cat_in[0][2][1]:
            if mem[0] == "call" and str(mem[1]).endswith(".get") and len(mem) >= 3 and T.is_const(mem[2]):
                names.add(mem[2][1])
            else:
                names.add(T.show(mem))
    need = {"kernel", "gpu_memset", "gpu_memcpy"}
    chk.ob("C06.R4-selection", "category filter: ids of a list that contains kernel/gpu_memset/gpu_memcpy and not cuda_sync", len(cat_in) == 1 and need <= names and "cuda_sync" not in names,
           where2, found=sorted(names), accepted="superset of {kernel, gpu_memset, gpu_memcpy}, without cuda_sync",
           why="sync records on a stream are not kernels; a missing kernel category removes gap boundaries")
    chk.ob("C06.R4-selection", "kernel frame keyed by index_correlation (left key of the launch join)", Lctx[0] == TR, where2, found=T._ctx(Lctx)[:200], accepted="rows of the trace frame")
    # default streams
    r0 = runs[0]
    st = r0.env.get("streams")   # `streams` is a parameter (rebinding keeps its name)
    exp_st = ("list", ("unique", gk.col("stream"), gk.ctx()))
    check_term(chk, "C06.R4-selection", "streams default = every stream present among the selected kernels", where2, to_term(st), [exp_st])
    # name map agreement
    nm = next((v for v in r0.env.values() if isinstance(v, dict) and v and all(isinstance(k, int) for k in v) and all(isinstance(x, str) for x in v.values())), None)
    if nm is None:
        # the map may live outside the function (class-level / module-level constant): read it off the rename it is used in
        for e_ in [e for e in r0.events if e["kind"] == "rename-index" and e["func"].endswith("get_idle_time_breakdown")]:
            mt = e_["mapper"]
            if isinstance(mt, tuple) and mt and mt[0] == "dict" and all(T.is_const(k_) and T.is_const(v_) for k_, v_ in mt[1]):
                nm = {k_[1]: v_[1] for k_, v_ in mt[1]}
    want = {v: k.lower() for k, v in enum.items()}
    chk.ob("C06.R2-enum-agreement", "category values written are mapped back to host_wait / kernel_wait / other", isinstance(nm, dict) and nm == want and
           set(want.values()) == {"host_wait", "kernel_wait", "other"}, where2, found=nm if isinstance(nm, dict) else T.show(to_term(nm))[:200], accepted=want)
    ren = [e for e in r0.events if e["kind"] == "rename-index" and e["func"].endswith("get_idle_time_breakdown")]
    chk.ob("C06.R2-enum-agreement", "the per-stream tables (indexed by category value) are renamed with that map", len(ren) == 1 and ren[0]["mapper"] == to_term(nm), where2,
           found=[T.show(e["mapper"])[:200] for e in ren], accepted="rename(mapper=value->name, axis=0)")
    chk.floor("C06.R1-launch-join", 5)
    chk.floor("C06.R4-selection", 4)

    # ---------------------------------------------------------------- facade binding (decided by evaluating the wrapper with the analyzer hooked)
    ta = db.mod("hta.trace_analysis")
    fac = ta.func("TraceAnalysis.get_idle_time_breakdown")
    from ..specs.discipline import check_facade_binding
    from ..core.values import PyTuple as _PT
    for _p, _src, _v in H.rebinds_of_params(fac, ["consecutive_kernel_delay", "streams", "visualize", "visualize_pctg", "show_idle_interval_stats"]):
        chk.ob("C06.R-facade-integrity", f"facade forwards parameter {_p} unmodified", _v == "default-if-none", ta.loc(fac), found=_src, accepted="no re-binding, or `if p is None: p = <default>`",
               why="`p = p or default` replaces legitimate falsy values (a threshold of 0, an empty selection) by the default")
    check_facade_binding(db, chk, "C06.R5-binding", "TraceAnalysis.get_idle_time_breakdown", BA, "BreakdownAnalysis.get_idle_time_breakdown", plural={"rank": "ranks"},
                         returns=lambda I: _PT([Frame(("idle", I.new_id())), None]))
    # facade default for the threshold parameter flows from the documented default
    chk.floor("C06.R5-binding", 8)
