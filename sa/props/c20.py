"""C20 - trace files written by the tool preserve every source event (structural clauses)."""
from __future__ import annotations

import ast
import re
from typing import Dict, List, Optional, Set, Tuple

from ..core import asthelp as H
from ..core import terms as T
from ..core.progdb import AnalysisError, walk_no_nested, call_name, lit

EXPLANATION = (
    "Effect / alias analysis of the raw-trace dictionaries in the five writer paths (TraceAnalysis.generate_trace_with_counters, "
    "CriticalPathAnalysis.overlay_critical_path_analysis, trace_file.update_trace_rank / write_trace, Trace.write_raw_trace) and of the reader "
    "Trace.get_raw_trace_for_one_rank: every mutation site on an object derived from the parsed file is enumerated and must be on the whitelist (append/extend of "
    "traceEvents, args.critical marker, distributedInfo rank, replacement of traceEvents only under the only_show_critical_events guard); the object written is the "
    "object read; the reader hands out a fresh parse on every call (no cache whose earlier mutations would leak into later files). Marker / flow-pairing rules of the "
    "overlay; sibling cross-check of the compression convention (every reader and every writer chooses gzip by the file suffix); rank-discovery agreement between "
    "the reader's regular expression and the separators of every json.dump(s) on the write path. NOT decided: contents of arbitrary source files."
    " Later additions: rank field stored without overwriting the block, no generator consumed twice in the overlay, per-rank containers in the counter wrapper."
)
CPM = "hta.analyzers.critical_path_analysis"
MUT = {"append", "extend", "insert", "pop", "remove", "clear", "sort", "reverse", "update", "setdefault", "popitem"}
READERS = ("get_raw_trace_for_one_rank", "read_trace", "parse_trace_dict")


def _root_chain(e: ast.AST) -> Tuple[Optional[str], List[str]]:
    """x['a']['b'] -> ('x', ['a','b'])"""
    keys = []
    while isinstance(e, ast.Subscript):
        keys.append(lit(e.slice, ast.unparse(e.slice)))
        e = e.value
    if isinstance(e, ast.Name):
        return e.id, list(reversed(keys))
    return None, []


def _aliases(f, readers=None) -> Dict[str, Tuple[str, List]]:
    """name -> (root variable, key path) for names denoting (parts of) a raw trace dict read in f"""
    al: Dict[str, Tuple[str, List]] = {}
    changed = True
    while changed:
        changed = False
        for n in ast.walk(f):
            tgt, val = None, None
            if isinstance(n, ast.Assign) and len(n.targets) == 1:
                tgt, val = n.targets[0], n.value
            elif isinstance(n, ast.AnnAssign) and n.value is not None:
                tgt, val = n.target, n.value
            if isinstance(tgt, ast.Name) and val is not None and tgt.id not in al:
                if isinstance(val, ast.Call) and call_name(val).split(".")[-1] in (readers or READERS):
                    al[tgt.id] = (tgt.id, [])
                    changed = True
                else:
                    r, ks = _root_chain(val)
                    if r in al and isinstance(val, (ast.Subscript, ast.Name)):
                        al[tgt.id] = (al[r][0], al[r][1] + ks)
                        changed = True
            if isinstance(n, ast.For):
                it = n.iter
                if isinstance(it, ast.Call) and H.name_id(it.func) == "enumerate" and it.args:
                    it = it.args[0]
                    elem = n.target.elts[1] if isinstance(n.target, ast.Tuple) and len(n.target.elts) == 2 else None
                else:
                    elem = n.target
                r, ks = _root_chain(it)
                if r in al and isinstance(elem, ast.Name) and elem.id not in al:
                    al[elem.id] = (al[r][0], al[r][1] + ks + ["<elem>"])
                    changed = True
        # parameters that receive the dict (nested helper functions)
    return al


def _guard_of(mod, node, f) -> List[str]:
    out = []
    cur = mod.parent.get(id(node))
    while cur is not None and cur is not f:
        if isinstance(cur, ast.If):
            out.append(ast.unparse(cur.test))
        cur = mod.parent.get(id(cur))
    return out


def _mutation_sites(mod, f, al) -> List[dict]:
    sites = []
    for n in ast.walk(f):
        if isinstance(n, (ast.Assign, ast.AugAssign, ast.Delete)):
            tgts = n.targets if isinstance(n, (ast.Assign, ast.Delete)) else [n.target]
            for t in tgts:
                if isinstance(t, ast.Subscript):
                    r, ks = _root_chain(t)
                    if r in al:
                        sites.append({"kind": "store" if not isinstance(n, ast.Delete) else "del", "path": al[r][1] + ks, "src": ast.unparse(n)[:120], "node": n, "guards": _guard_of(mod, n, f)})
        if isinstance(n, ast.Call) and isinstance(n.func, ast.Attribute) and n.func.attr in MUT:
            r, ks = _root_chain(n.func.value)
            if r in al:
                sites.append({"kind": n.func.attr, "path": al[r][1] + ks, "src": ast.unparse(n)[:120], "node": n, "guards": _guard_of(mod, n, f)})
    return sites


def _allowed(site) -> Optional[str]:
    p, k = site["path"], site["kind"]
    if p == ["traceEvents"] and k in ("extend", "append"):
        return "append events"
    if p == ["traceEvents", "<elem>", "args", "critical"] and k == "store":
        return "critical marker"
    if p in (["distributedInfo", "rank"], ["distributedInfo"]) and k == "store":
        return "rank field"
    if p == ["traceEvents"] and k == "store" and any("only_show_critical_events" in g for g in site["guards"]):
        return "replace events (only_show_critical_events)"
    return None


def _ob_absent(chk, *a, **k):
    return chk.ob(*a, absent_is_unknown=True, **k)


def run(db, chk) -> None:
    from ..specs.discipline import check_stateless
    check_stateless(db, chk, "C20.R-stateless", ["hta.analyzers.critical_path_analysis"], scope=["CriticalPathAnalysis.overlay_critical_path_analysis"])    # incl. "no generator consumed twice" for the edge stream of the overlay
    from ..specs.discipline import check_facade_stateless
    check_facade_stateless(db, chk, "C20.R-facade-stateless", ['generate_trace_with_counters', 'overlay_critical_path_analysis'])
    ta, cp, tf, tm, tp = (db.mod(x) for x in ("hta.trace_analysis", "hta.analyzers.critical_path_analysis", "hta.common.trace_file", "hta.common.trace", "hta.common.trace_parser"))
    targets = [(ta, "TraceAnalysis.generate_trace_with_counters"), (cp, "CriticalPathAnalysis.overlay_critical_path_analysis"), (tf, "update_trace_rank")]
    total = 0
    for mod, q in targets:
        f = H.inline_helpers(mod, mod.func(q))          # the read / append / write sequence may sit in a private helper
        al = _aliases(f)
        # the nested helper of update_trace_rank receives the dict as its first parameter
        for nf in [x for x in ast.walk(f) if isinstance(x, ast.FunctionDef) and x is not f]:
            for c in ast.walk(f):
                if isinstance(c, ast.Call) and H.name_id(c.func) == nf.name and c.args and H.name_id(c.args[0]) in al:
                    al[nf.args.args[0].arg] = al[H.name_id(c.args[0])]
        chk.analysed_add("functions", f"{mod.name}:{q}")
        chk.analysed_add("raw_trace_aliases", {q: {k: v[1] for k, v in al.items()}})
        _ob_absent(chk, "C20.R1-mutation-whitelist", f"{q}: the raw trace read from the source file is tracked", bool(al), mod.loc(f), found=sorted(al), accepted="a variable bound to get_raw_trace_for_one_rank / read_trace")
        for s in _mutation_sites(mod, f, al):
            total += 1
            why = _allowed(s)
            chk.ob("C20.R1-mutation-whitelist", f"{q}: mutation of raw trace at path {s['path']} ({s['kind']})", why is not None, mod.loc(s["node"]), found=s["src"],
                   accepted="append/extend traceEvents | args.critical marker | distributedInfo rank | replace traceEvents under only_show_critical_events",
                   why="any other write changes, removes or reorders a source event")
        # object written == object read
        wr = [c for c in ast.walk(f) if isinstance(c, ast.Call) and call_name(c).split(".")[-1] in ("write_raw_trace", "write_trace")]
        okw = bool(wr)
        for c in wr:
            args = [H.name_id(a) for a in c.args]
            data = args[1] if call_name(c).endswith("write_raw_trace") else args[0]
            okw = okw and data in al and al[data][1] == []
        if not okw and any(not all(isinstance(a, ast.Name) for a in c.args) for c in wr):
            okw = None          # the data argument is an expression (a helper applied to the object that was read): not followed by this rule
        chk.ob("C20.R1-mutation-whitelist", f"{q}: the object serialised is the whole object that was read", okw, mod.loc(f), found=[ast.unparse(c) for c in wr], accepted="write(<the dict returned by the reader>)")
    chk.floor("C20.R1-mutation-whitelist", 9)
    # reader hands out a fresh object
    g = tm.func("Trace.get_raw_trace_for_one_rank")
    rets = [n for n in walk_no_nested(g) if isinstance(n, ast.Return)]
    stores = H.attr_store_names(g, "self")
    fresh = len(rets) == 1 and isinstance(rets[0].value, ast.Call) and call_name(rets[0].value).endswith("parse_trace_dict") and not stores and \
        not [n for n in ast.walk(g) if isinstance(n, ast.Subscript) and isinstance(n.ctx, ast.Store)]
    chk.ob("C20.R1-fresh-read", "get_raw_trace_for_one_rank parses the file anew on every call and keeps no reference (writers mutate what it returns)", fresh, tm.loc(g),
           found={"returns": [ast.unparse(r.value)[:80] for r in rets], "stores_on_self": sorted(stores)}, accepted="return parse_trace_dict(trace_filepath)",
           why="a cached dict carries the critical markers / flow events / counters of an earlier output into every later file")
    # the readers hand out what the JSON decoder returned: no event is removed, replaced or re-ordered between json.load(s) and the return
    for mod_, q_ in ((tf, "read_trace"), (tp, "parse_trace_dict")):
        rf = H.inline_helpers(mod_, mod_.func(q_))
        al_ = _aliases(rf, readers=("loads", "load"))
        chk.ob("C20.R1-fresh-read", f"{mod_.name}:{q_}: the decoded JSON object is tracked", True if al_ else None, mod_.loc(rf), found=sorted(al_), accepted="a variable bound to json.loads / json.load")
        for s_ in _mutation_sites(mod_, rf, al_):
            chk.ob("C20.R1-fresh-read", f"{mod_.name}:{q_}: the reader returns the decoded file unmodified (mutation at path {s_['path']})", False, mod_.loc(s_["node"]), found=s_["src"], accepted="no store into the decoded object",
                   why="a reader that drops or rewrites records (e.g. empty {} events) makes every rewrite of the file (update_trace_rank, counters, overlay) lose them")
    pdict = tp.func("parse_trace_dict")
    chk.ob("C20.R1-fresh-read", "parse_trace_dict builds its result from json.loads of the file contents (no module-level cache)", "json.loads" in ast.unparse(pdict) and not [n for n in ast.walk(pdict) if isinstance(n, ast.Global)],
           tp.loc(pdict), found="json.loads" in ast.unparse(pdict), accepted="json.loads(fh.read())")

    _overlay(db, chk, cp)
    _compression(db, chk, tf, tm, tp)
    _rank_regex(db, chk, tf, tm, ta)


def _overlay(db, chk, cp):
    rule = "C20.R2-marker-and-flow"
    f = cp.func("CriticalPathAnalysis.overlay_critical_path_analysis")
    where = cp.loc(f)
    al = _aliases(f)
    class _Rec:          # (records the verdicts of the abstract run: when it decides everything positively, the shape rules below only speak where they agree)
        def __init__(self):
            self.v = []

        def ob(self, rule_, text_, verdict_, where_, **kw_):
            self.v.append(verdict_)
            return chk.ob(rule_, text_, verdict_, where_, **kw_)

        def __getattr__(self, n_):
            return getattr(chk, n_)
    rec = _Rec()
    decided = _overlay_eval(db, rec, cp, rule)          # the flow pairs and markers decided on the file that is written for a small abstract graph
    sem_ok = bool(decided) and bool(rec.v) and all(v_ is True for v_ in rec.v)
    _chk = chk

    class _Shape:
        def ob(self, rule_, text_, verdict_, where_, **kw_):
            covered = text_.startswith(("marker loop:", "per drawn edge:", "edges drawn when not showing all edges", "every drawn edge gets its flow pair", "flow events are appended after the source events"))
            if sem_ok and covered and verdict_ is not True:
                return None          # (what these shape rules look for is decided by the abstract run: default options, critical edges only)
            return _chk.ob(rule_, text_, verdict_, where_, **kw_)

        def __getattr__(self, n_):
            return getattr(_chk, n_)
    chk = _Shape()
    # marker loop
    loops = [n for n in walk_no_nested(f) if isinstance(n, ast.For) and isinstance(n.iter, ast.Call) and H.name_id(n.iter.func) == "enumerate"]
    okm = False
    det = []
    for lp in loops:
        det.append(ast.unparse(lp)[:200])
        src_ok = len(lp.iter.args) == 1 and not lp.iter.keywords and isinstance(lp.target, ast.Tuple) and len(lp.target.elts) == 2 and \
            _root_chain(lp.iter.args[0])[0] in al and al[_root_chain(lp.iter.args[0])[0]][1] + _root_chain(lp.iter.args[0])[1] == ["traceEvents"]
        if src_ok:
            i, ev = (H.name_id(x) for x in lp.target.elts)
            body = lp.body
            if len(body) == 1 and isinstance(body[0], ast.If) and not body[0].orelse and len(body[0].body) == 1:
                okm = H.match(f"{i} in critical_path_graph.critical_path_events_set", H.expand(f, body[0].test)) is not None and H.match(f"{ev}['args']['critical'] = 1", body[0].body[0]) is not None
    # (the marking itself is decided by the abstract run below; this shape rule only speaks when it recognises the loop over the file's event list)
    recognised = any(len(lp.iter.args) == 1 and isinstance(lp.target, ast.Tuple) and len(lp.target.elts) == 2 and _root_chain(lp.iter.args[0])[0] in al for lp in loops)
    chk.ob(rule, "marker loop: event number i (position in traceEvents, from 0) is marked critical iff i is in the critical path's event set", okm if recognised else (True if decided else None), where, found=det or "marking moved out of the method",
           accepted="for ev_idx, event in enumerate(raw_events): if ev_idx in critical_path_graph.critical_path_events_set: event['args']['critical'] = 1",
           why="event ids are positions in the file's event list (C01): another start offset marks the neighbours")
    # edge source
    iff = [n for n in walk_no_nested(f) if isinstance(n, ast.If) and ast.unparse(H.norm_if(n)[0]) == "show_all_edges" and n.orelse]
    ok_src = False
    det2 = []
    if len(iff) == 1:
        _t, show_all_body, els = H.norm_if(iff[0])
        det2 = [ast.unparse(s)[:160] for s in els]
        ok_src = len(els) == 1 and (H.match("$edges = ($e for $e in critical_path_graph.critical_path_edges_set)", els[0]) is not None or
                                    H.match("$edges = critical_path_graph.critical_path_edges_set", els[0]) is not None or
                                    H.match("$edges = list(critical_path_graph.critical_path_edges_set)", els[0]) is not None)
        edges_var = H.name_id(els[0].targets[0]) if ok_src else None
        zero_filters = [n for n in walk_no_nested(f) if isinstance(n, ast.Call) and "_is_zero_weight_launch_edge" in ast.unparse(n.func)]
        inside = all(any(z is x for b in show_all_body for x in ast.walk(b)) for z in zero_filters)
        ok_src = ok_src and inside
        det2.append(f"zero-weight filter inside the show_all_edges branch: {inside}")
    crit_forms = ("($e for $e in critical_path_graph.critical_path_edges_set)", "critical_path_graph.critical_path_edges_set", "list(critical_path_graph.critical_path_edges_set)",
                  "iter(critical_path_graph.critical_path_edges_set)", "tuple(critical_path_graph.critical_path_edges_set)")
    edge_src_verdict = ok_src if len(iff) == 1 else None
    if len(iff) != 1:
        # the same choice inside a nested edge-source function:  if not show_all_edges: return <critical edges> ... (filters only after it)
        for q_, g_ in cp.functions.items():
            if q_.startswith("CriticalPathAnalysis.overlay_critical_path_analysis.") and any("critical_path_edges_set" in ast.unparse(r_) for r_ in ast.walk(g_) if isinstance(r_, ast.Return)):
                first = next((st_ for st_ in g_.body if isinstance(st_, ast.If)), None)
                core = first.test.operand if first is not None and isinstance(first.test, ast.UnaryOp) and isinstance(first.test.op, ast.Not) else (first.test if first is not None else None)
                if first is not None and isinstance(core, ast.Name) and core.id == "show_all_edges":
                    neg = core is not first.test
                    crit_branch = first.body if neg else first.orelse
                    rets = [r_ for st_ in crit_branch for r_ in ast.walk(st_) if isinstance(r_, ast.Return)]
                    zero_filters = [n for n in ast.walk(g_) if isinstance(n, ast.Call) and "_is_zero_weight_launch_edge" in ast.unparse(n.func)]
                    in_crit = any(any(z is x for st_ in crit_branch for x in ast.walk(st_)) for z in zero_filters)
                    okr = len(rets) == 1 and any(H.match(p_, rets[0].value) is not None for p_ in crit_forms)
                    det2 = [" ".join(ast.unparse(first).split())[:160], f"zero-weight filter on the critical branch: {in_crit}"]
                    edge_src_verdict = (okr and not in_crit) if rets else None
    chk.ob(rule, "edges drawn when not showing all edges = exactly the critical path's edges (the zero-weight launch filter applies to the show-all view only)", edge_src_verdict, where,
           found=det2, accepted="edges = (e for e in critical_path_graph.critical_path_edges_set)", why="filtering the critical edges leaves a critical launch edge of weight 0 without its flow pair")
    # flow pair per edge
    lp = [n for n in walk_no_nested(f) if isinstance(n, ast.For) and any(isinstance(c, ast.Call) and H.name_id(c.func) == "get_flow_event" for c in ast.walk(n))]
    okp = False
    det3 = []
    enum_fid = None
    if len(lp) == 1 and isinstance(lp[0].target, ast.Tuple) and isinstance(lp[0].iter, ast.Call) and H.name_id(lp[0].iter.func) == "enumerate" and len(lp[0].target.elts) == 2 \
            and all(isinstance(x, ast.Name) for x in lp[0].target.elts) and not (len(lp[0].iter.args) > 1 or lp[0].iter.keywords):
        enum_fid, ev = lp[0].target.elts[0].id, lp[0].target.elts[1].id        # `for flow_id, e in enumerate(<edges>)`: the id advances once per edge by construction
    elif len(lp) == 1 and isinstance(lp[0].target, ast.Name):
        ev = lp[0].target.id
    elif len(lp) == 1:
        lp = []
    if len(lp) == 1:
        body = [s_ for s_ in lp[0].body if not isinstance(s_, ast.If)]
        det3 = [ast.unparse(s_)[:110] for s_ in body]
        r = H.match_seq([f"$u, $v = ({ev}.begin, {ev}.end)", f"$s, $t = critical_path_graph.get_events_for_edge({ev})", "$se, $te = (raw_events[$s], raw_events[$t])".replace("raw_events", "$raw"),
                         f"$fl.append(get_flow_event($u, $se, {ev}, $fid, is_start=True))", f"$fl.append(get_flow_event($v, $te, {ev}, $fid, is_start=False))", "$fid += 1"], body)
        n_inc = H.self_updates(lp[0])
        if r is None and enum_fid is not None:
            r = H.match_seq([f"$u, $v = ({ev}.begin, {ev}.end)", f"$s, $t = critical_path_graph.get_events_for_edge({ev})", "$se, $te = ($raw[$s], $raw[$t])",
                             f"$fl.append(get_flow_event($u, $se, {ev}, {enum_fid}, is_start=True))", f"$fl.append(get_flow_event($v, $te, {ev}, {enum_fid}, is_start=False))"], body)
            okp = r is not None and not n_inc and r["__mv_raw"] in al and al[r["__mv_raw"]][1] == ["traceEvents"]
        else:
            okp = r is not None and len(n_inc) == 1 and r["__mv_raw"] in al and al[r["__mv_raw"]][1] == ["traceEvents"]
    if len(lp) == 1:
        jumps = [type(x).__name__ for x in ast.walk(lp[0]) if isinstance(x, (ast.Continue, ast.Break))]
        skips = [" ".join(ast.unparse(n_).split())[:100] for n_ in ast.walk(lp[0]) if isinstance(n_, ast.If) and any(isinstance(x, (ast.Continue, ast.Break)) for x in ast.walk(n_))]
        chk.ob(rule, "every drawn edge gets its flow pair (no edge is skipped inside the loop)", not jumps, where, found=skips or "no continue / break", accepted="no continue / break in the flow loop",
               why="skipping e.g. edges whose two nodes belong to the same event leaves the span edges of leaf operators and kernels without arrows")
    if len(lp) == 1 or not decided:
        chk.ob(rule, "per drawn edge: one start and one end flow event with the same id, built from (begin node, event of begin node) and (end node, event of end node); id advanced once per edge", okp if len(lp) == 1 else None, where,
               found=det3, accepted="u, v = e.begin, e.end; ids = get_events_for_edge(e); append(get_flow_event(u, start_ev, ..., True)); append(get_flow_event(v, end_ev, ..., False)); flow_id += 1")
    gf = cp.functions.get("CriticalPathAnalysis.overlay_critical_path_analysis.get_flow_event")
    if gf is not None:
        call = [c for c in ast.walk(gf) if isinstance(c, ast.Call) and call_name(c).endswith("flow_event")]
        kws = {k_: ast.unparse(v_).replace(" ", "") for c in call for k_, v_ in H.bound_args(c).items()}
        chk.ob(rule, "a flow event sits on the process and thread of the event it is attached to", kws.get("pid") == "event['pid']" and kws.get("tid") == "event['tid']" and kws.get("id") == "flow_id" and kws.get("is_start") == "is_start",
               cp.loc(gf), found={k: kws.get(k) for k in ("id", "pid", "tid", "is_start")}, accepted={"id": "flow_id", "pid": "event['pid']", "tid": "event['tid']", "is_start": "is_start"})
    elif not decided:
        chk.ob(rule, "the construction of a flow event is found", None, where, found="no nested get_flow_event and the overlay could not be evaluated")
    gev = cp.func("CPGraph.get_events_for_edge")
    r1 = H.match_seq(["$a, $b = (edge.begin, edge.end)", "return (int(self.node_list[$a].ev_idx), int(self.node_list[$b].ev_idx))"], [x for x in gev.body if not isinstance(x, ast.Expr)])
    r2 = [n for n, b_ in H.find_match("return (int(self.node_list[edge.begin].ev_idx), int(self.node_list[edge.end].ev_idx))", gev)]
    chk.ob(rule, "get_events_for_edge maps (begin, end) node ids to the events owning those nodes", r1 is not None or bool(r2),
           cp.loc(gev), found=[ast.unparse(s)[:100] for s in gev.body if not isinstance(s, ast.Expr)], accepted="(node_list[edge.begin].ev_idx, node_list[edge.end].ev_idx)")
    ext = [c for c in walk_no_nested(f) if isinstance(c, ast.Call) and isinstance(c.func, ast.Attribute) and c.func.attr == "extend" and "traceEvents" in ast.unparse(c.func.value)]
    fl_var = None
    if len(lp) == 1:
        rr = H.find_match("$fl.append(get_flow_event($$a, $$b, $$c, $$d, is_start=True))", lp[0])
        fl_var = rr[0][1]["__mv_fl"] if rr else None
    if fl_var is not None or not decided:
        chk.ob(rule, "flow events are appended after the source events", len(ext) == 1 and fl_var is not None and H.name_id(ext[0].args[0]) == fl_var and _root_chain(ext[0].func.value)[0] in al, where,
               found=[ast.unparse(c) for c in ext], accepted="overlaid_trace['traceEvents'].extend(flow_events)")
    chk.floor(rule, 6)


def _overlay_eval(db, chk, cp, rule) -> bool:
    """overlay_critical_path_analysis evaluated on a small abstract graph (4 source events on 3 threads, a critical path of 2 edges through events 1 and 2), with the
    reader, the writer and Trace.flow_event hooked.  Decided on the object handed to the writer: the source events come first, unchanged and in order (the
    critical ones marked), then one (start, end) pair of flow events per critical edge, pair k carrying id k and sitting on the process / thread of the events
    that own the edge's begin and end node.  Returns False when the evaluation did not reach the writer (the AST rules then stand alone)."""
    from ..core.interp import Interp
    from ..core.values import Obj, PyTuple, to_term
    f = cp.func("CriticalPathAnalysis.overlay_critical_path_analysis")
    where = cp.loc(f)
    params = H.param_names(f)
    need = {"t", "rank", "critical_path_graph", "output_dir", "only_show_critical_events", "show_all_edges"}
    if not need <= set(params):
        return False
    SRC = [(1, 1), (1, 2), (0, 7), (0, 7)]          # (pid, tid) of the four source events

    def scenario(only_crit, show_all=False):
        written = []

        def mk():
            events = [{"ph": "X", "name": f"ev{i}", "pid": p_, "tid": t_, "ts": T.P(f"ts{i}"), "dur": T.P(f"dur{i}"), "args": {"device": -1}} for i, (p_, t_) in enumerate(SRC)]
            events.append({"ph": "M", "name": "ev4", "pid": 0, "tid": 0, "args": {"name": "a metadata record (kept by every option)"}})
            raw = {"traceEvents": events, "distributedInfo": {"rank": 0}}
            E1 = Obj("E1", attrs={"begin": 10, "end": 11, "weight": 5, "type": ("enum", "CPEdgeType", "OPERATOR_KERNEL")})
            E2 = Obj("E2", attrs={"begin": 11, "end": 20, "weight": 0, "type": ("enum", "CPEdgeType", "KERNEL_LAUNCH_DELAY")})          # (a zero-weight launch edge ON the critical path: drawn by the default view, hidden by the show-all view)
            nodes = {10: Obj("n10", attrs={"ev_idx": 1, "is_start": True}), 11: Obj("n11", attrs={"ev_idx": 1, "is_start": False}), 20: Obj("n20", attrs={"ev_idx": 2, "is_start": True})}
            # a third edge that is NOT on the critical path (drawn by the show-all view only): from event 2's start node to event 3
            E3 = Obj("E3", attrs={"begin": 20, "end": 30, "weight": 3, "type": ("enum", "CPEdgeType", "DEPENDENCY")})
            nodes[30] = Obj("n30", attrs={"ev_idx": 3, "is_start": True})
            all_edges = {to_term(PyTuple([10, 11])): {"object": E1, "weight": E1.attrs["weight"]}, to_term(PyTuple([11, 20])): {"object": E2, "weight": E2.attrs["weight"]},
                         to_term(PyTuple([20, 30])): {"object": E3, "weight": 3}}
            g = Obj("cpg", cls=(cp, "CPGraph"), attrs={"critical_path_events_set": {1, 2}, "critical_path_edges_set": [E1, E2], "node_list": nodes, "edges": all_edges})
            return raw, g
        state = {}

        def hook(I, name, pos, kw, node):
            last = name.split(".")[-1]
            if last == "get_raw_trace_for_one_rank":
                return state["raw"]
            if last == "write_raw_trace":
                written.append(pos[1] if len(pos) > 1 else kw.get("trace_contents"))
                return None
            if last == "flow_event" and name != "get_flow_event":
                return {"__flow__": True, **kw}
            if last in ("is_dir", "exists", "isdir"):
                return True
            if last == "critical_path_show_zero_weight_launch_edges":
                return False
            if last in ("edges", "data") and name.split(".")[0] == "critical_path_graph" and "edges" in name and isinstance(state.get("g"), Obj):
                # networkx' other spellings of the edge view over the same graph: G.edges(data=True | key), G.edges.data(key)
                key_ = kw.get("data", pos[0] if pos else None)
                out_ = []
                for kt_, d_ in state["g"].attrs["edges"].items():
                    uv = [x[1] for x in kt_[1]]
                    out_.append(PyTuple(uv + ([d_] if key_ is True else [d_.get(key_, kw.get("default"))] if isinstance(key_, str) else [])))
                return out_
            if name.startswith(("Path", "os.")) or last in ("mkdir", "expanduser", "makedirs"):
                return Obj("PATHOBJ")          # (an object: `path is None` is decided)
            return NotImplemented

        def args(I):
            state["raw"], g = mk()
            state["g"] = g
            written.clear()
            return {"cls": Obj("cls", cls=(cp, "CriticalPathAnalysis")), "t": Obj("t", attrs={"trace_files": {T.P("RANK"): "/x/trace.json"}}), "rank": T.P("RANK"), "critical_path_graph": g,
                    "output_dir": "/o", "only_show_critical_events": only_crit, "show_all_edges": show_all}
        I = Interp(db, call_hook=hook)
        try:
            runs = [r for r in I.explore(f"{CPM}:CriticalPathAnalysis.overlay_critical_path_analysis", args) if r.raised is None]
        except Exception:          # noqa
            return None
        if len(runs) != 1 or len(written) != 1 or not isinstance(written[0], dict) or not isinstance(written[0].get("traceEvents"), list):
            return None
        return written[0]["traceEvents"]
    te = scenario(False)
    if te is None or not all(isinstance(x, dict) for x in te):
        return False
    chk.analysed_add("functions", f"{CPM}:CriticalPathAnalysis.overlay_critical_path_analysis (abstract run)")
    src, flows = [x for x in te if not x.get("__flow__")], [x for x in te if x.get("__flow__")]
    ok_src = [x.get("name") for x in src] == [f"ev{i}" for i in range(5)] and te[:len(src)] == src and \
        all((x["pid"], x["tid"]) == SRC[i] and x["ts"] == T.P(f"ts{i}") and x["dur"] == T.P(f"dur{i}") and x["ph"] == "X" for i, x in enumerate(src[:4])) and src[4].get("ph") == "M"
    chk.ob(rule, "[abstract run] the written file starts with every source event, unchanged and in the source order; flow events follow", ok_src, where,
           found=[x.get("name") if not x.get("__flow__") else "flow" for x in te], accepted=["ev0", "ev1", "ev2", "ev3", "ev4", "flow x 4"])
    marks = [x.get("args", {}).get("critical") for x in src] if ok_src else None
    chk.ob(rule, "[abstract run] exactly the events of the critical path are marked critical", marks == [None, 1, 1, None, None] if marks is not None else None, where, found=marks, accepted=[None, 1, 1, None, None])
    want = [(0, (1, 2), True), (0, (1, 2), False), (1, (1, 2), True), (1, (0, 7), False)]
    got = [(x.get("id"), (x.get("pid"), x.get("tid")), x.get("is_start")) for x in flows]
    _conc = lambda g_: all(isinstance(i_, int) and isinstance(pt_, tuple) and all(isinstance(z_, int) for z_ in pt_) and isinstance(s_, bool) for i_, pt_, s_ in g_)
    _v = lambda g_, w_: (g_ == w_) if (_conc(g_) or g_ == w_) else None          # (flow ids / owners that did not evaluate to numbers: not understood)
    chk.ob(rule, "[abstract run] per critical edge one (start, end) flow pair with the edge's own id, on the process / thread of the events owning the begin and the end node", _v(got, want), where,
           found=[str(x) for x in got], accepted=[str(x) for x in want], why="a pair that reuses the start event's pid/tid, skips an edge or shares an id draws the arrows of the critical path somewhere else")
    te2 = scenario(True)
    if te2 is not None and all(isinstance(x, dict) for x in te2):
        kept = [x.get("name") for x in te2 if not x.get("__flow__")]
        chk.ob(rule, "[abstract run] only_show_critical_events keeps the critical events (and drops other duration events only)", kept == ["ev1", "ev2", "ev4"], where, found=kept, accepted=["ev1", "ev2", "ev4 (metadata)"])
        got2 = [(x.get("id"), (x.get("pid"), x.get("tid")), x.get("is_start")) for x in te2 if x.get("__flow__")]
        chk.ob(rule, "[abstract run] only_show_critical_events: the flow pairs are the same as without it (events are addressed by their position in the COMPLETE source list)", _v(got2, want), where,
               found=[str(x) for x in got2], accepted=[str(x) for x in want], why="dropping the other events before the flow events are built shifts every position: the arrows land on other events")
    else:
        chk.ob(rule, "[abstract run] only_show_critical_events=True evaluated to the written file", None, where, found="the run did not reach the writer with a concrete event list")
    # the option table: show_all_edges draws every edge of the graph unless only the critical events are shown (then the critical edges only)
    want3 = want[:2] + [(1, (0, 7), True), (1, (0, 7), False)]          # E1 and E3; the zero-weight launch edge E2 is hidden in the show-all view (option off)
    for only_, all_, exp_ in ((False, True, want3), (True, True, want)):
        te3 = scenario(only_, all_)
        if te3 is not None and all(isinstance(x, dict) for x in te3):
            got3 = [(x.get("id"), (x.get("pid"), x.get("tid")), x.get("is_start")) for x in te3 if x.get("__flow__")]
            chk.ob(rule, f"[abstract run] only_show_critical_events={only_}, show_all_edges={all_}: " + ("every edge of the graph except zero-weight launch edges gets its flow pair" if not only_ else "only the critical edges are drawn (the other events are not in the file)"),
                   _v(got3, exp_), where, found=[str(x) for x in got3], accepted=[str(x) for x in exp_],
                   why="`show_all_edges and only_show_critical_events` (a lost `not`) draws the critical edges only when all were asked for, and all edges on events that were removed")
        else:
            chk.ob(rule, f"[abstract run] only_show_critical_events={only_}, show_all_edges={all_} evaluated to the written file", None, where, found="the run did not reach the writer with a concrete event list")
    return True


def _opener_eval(db, mod, q):
    """which opener a reader / writer of trace files calls for a '.json' and for a '.json.gz' path - decided by abstract runs with open / gzip.open hooked.
    True: plain open for .json and gzip.open for .json.gz (exactly one opener call each); False: another choice; None: not decided"""
    from ..core.interp import Interp
    from ..core.values import Obj
    f = mod.func(q)
    verdicts = []
    for path, want in (("/d/rank0.json", "open"), ("/d/rank0.json.gz", "gzip.open")):
        opened = []

        def hook(I, name, pos, kw, node):
            short = name.replace("builtins.", "")
            if short in ("open", "gzip.open"):
                opened.append((short, pos[0] if pos else kw.get("filename", kw.get("file"))))
                return Obj("file", attrs={"__lines__": []})
            last = name.split(".")[-1]
            if last in ("load", "loads"):
                return {"traceEvents": [], "distributedInfo": {"rank": 0}}
            if last in ("dump", "dumps", "write", "read", "close", "seek", "truncate"):
                return "" if last in ("dumps", "read") else None
            return NotImplemented
        args = {}
        for p_ in H.param_names(f):
            if p_ in ("self", "cls"):
                args[p_] = Obj(p_, cls=(mod, q.split(".")[0]) if "." in q else None)
            elif p_ == "file_list" or p_.endswith("_list") or p_ == "files":
                args[p_] = [path]
            elif "path" in p_ or "file" in p_ or "name" in p_:
                args[p_] = path
            else:
                args[p_] = {"traceEvents": [], "distributedInfo": {"rank": 0}}
        try:
            runs = [r for r in Interp(db, call_hook=hook).explore(f"{mod.name}:{q}", lambda I, a=args: dict(a))]
        except Exception:          # noqa
            return None
        if len(runs) != 1 or runs[0].path or len(opened) != 1 or opened[0][1] != path:
            return None
        verdicts.append(opened[0][0] == want)
    return all(verdicts)


def _compression(db, chk, tf, tm, tp):
    rule = "C20.R3-compression-convention"
    sites = [(tp, "parse_trace_dict", "reader"), (tf, "read_trace", "reader"), (tf, "create_rank_to_trace_dict", "reader"), (tf, "write_trace", "writer"), (tm, "Trace.write_raw_trace", "writer")]
    for mod, q, kind in sites:
        f = mod.func(q)
        sem = _opener_eval(db, mod, q)
        if sem is not None:
            chk.ob(rule, f"[abstract run] {kind} {mod.name}:{q} opens a .json path with open and a .json.gz path with gzip.open", sem, mod.loc(f), found="as expected" if sem else "another opener for one of the two paths",
                   accepted="open for .json, gzip.open for .json.gz", why="a writer that always compresses produces a gzip stream under a .json name that none of the readers can load (F4)", key=f"{mod.name}:{q}|opener-by-suffix")
        unit = H.with_private_callees(mod, f)          # the opener may be chosen in a private helper
        walk_unit = lambda: (n for g_ in unit for n in ast.walk(g_))
        # uses of the two openers, called directly or selected by reference (`opener = gzip.open if ... else open`)
        gz = [c for c in walk_unit() if isinstance(c, ast.Attribute) and isinstance(c.ctx, ast.Load) and ast.unparse(c) == "gzip.open"]
        plain = [c for c in walk_unit() if isinstance(c, ast.Name) and isinstance(c.ctx, ast.Load) and c.id == "open"]
        tests = [n for n in walk_unit() if isinstance(n, ast.Call) and isinstance(n.func, ast.Attribute) and n.func.attr == "endswith" and n.args and lit(n.args[0]) in (".gz", "gz")]
        # each gzip.open must be selected by a suffix test: enclosing If / IfExp whose test is one of `tests`
        guarded = True
        for c in gz:
            cur = mod.parent.get(id(c))
            found = False
            while cur is not None and not any(cur is g_ for g_ in unit):
                if isinstance(cur, (ast.If, ast.IfExp)) and any(t is x for t in tests for x in ast.walk(cur.test)):
                    neg = 0
                    tt = cur.test
                    while isinstance(tt, ast.UnaryOp) and isinstance(tt.op, ast.Not):
                        neg += 1
                        tt = tt.operand
                    body_nodes = list(ast.walk(cur.body)) if isinstance(cur, ast.IfExp) else [y for b in cur.body for y in ast.walk(b)]
                    else_nodes = list(ast.walk(cur.orelse)) if isinstance(cur, ast.IfExp) else [y for b in cur.orelse for y in ast.walk(b)]
                    found = any(c is x for x in (body_nodes if neg % 2 == 0 else else_nodes))
                    break
                cur = mod.parent.get(id(cur))
            guarded = guarded and found
        ok = bool(gz) and bool(plain) and bool(tests) and guarded
        if not (sem is True and not ok):          # (the shape rule defers to the abstract run where it does not recognise the selection)
          chk.ob(rule, f"{kind} {mod.name}:{q} chooses gzip exactly when the file name ends with .gz, and plain text otherwise", ok if (ok or gz or plain or tests) else None, mod.loc(f),          # (no opener at all in this function: the selection lives elsewhere)
               found={"gzip.open": len(gz), "open": len(plain), "suffix tests": [ast.unparse(t) for t in tests]}, accepted="gzip.open(...) if path.endswith('.gz') else open(...)",
               why="a writer that always compresses produces a gzip stream under a .json name that none of the readers can load (F4)", key=f"{mod.name}:{q}|always-gzip")
    g = H.inline_helpers(db.mod("hta.trace_analysis"), db.mod("hta.trace_analysis").func("TraceAnalysis.generate_trace_with_counters"))
    rep = [c for c in ast.walk(g) if isinstance(c, ast.Call) and isinstance(c.func, ast.Attribute) and c.func.attr == "replace" and c.args and lit(c.args[0]) == ".json"]
    okn = len(rep) == 1 and isinstance(rep[0].args[1], ast.JoinedStr) and ast.unparse(rep[0].args[1]).endswith(".json'")
    chk.ob(rule, "the counters file keeps the source's suffix (.json stays .json, .json.gz stays .json.gz)", okn, db.mod("hta.trace_analysis").loc(g), found=[ast.unparse(c) for c in rep], accepted=".replace('.json', f'{suffix}.json')")
    o = db.mod("hta.analyzers.critical_path_analysis").func("CriticalPathAnalysis.overlay_critical_path_analysis")
    wcall = [c for c in ast.walk(o) if isinstance(c, ast.Call) and call_name(c).endswith("write_raw_trace")]
    ofv = H.name_id(wcall[0].args[0]) if len(wcall) == 1 and wcall[0].args else None
    on = [ast.unparse(v) for t, v, s in H.assignments(o) if H.name_id(t) == ofv]
    chk.ob(rule, "the overlay file keeps the source's file name (and suffix) behind its prefix", len(on) == 1 and "t.trace_files[rank].split('/')[-1]" in on[0] and "overlaid_critical_path_" in on[0], "hta/analyzers/critical_path_analysis.py",
           found=on, accepted="'overlaid_critical_path_' + <source file name>")
    chk.floor(rule, 5)


def _rank_regex(db, chk, tf, tm, ta):
    rule = "C20.R4-rank-discovery"
    f = tf.func("create_rank_to_trace_dict")
    pats = [lit(c.args[0]) for c in H.compiled_patterns(tf, [f]) if c.args]
    ok = pats == ['"rank":\\s+(\\d+)']
    _ob_absent(chk, rule, "rank discovery reads the number following '\"rank\":' and at least one whitespace", ok, tf.loc(f), found=pats, accepted=['"rank":\\s+(\\d+)'])
    reads = [c for c in ast.walk(f) if isinstance(c, ast.Call) and isinstance(c.func, ast.Attribute) and c.func.attr in ("read", "readline", "readlines") and (c.args or c.keywords)]
    line_loops = [n for n in ast.walk(f) if isinstance(n, ast.For) and isinstance(n.iter, ast.Name) and any(isinstance(c, ast.Call) and isinstance(c.func, ast.Attribute) and c.func.attr == "search" for c in ast.walk(n))]
    whole = [c for c in ast.walk(f) if isinstance(c, ast.Call) and isinstance(c.func, ast.Attribute) and c.func.attr == "read" and not c.args and not c.keywords]
    chk.ob(rule, "rank discovery searches the WHOLE file (line by line or a full read), not a bounded prefix", ((bool(line_loops) or bool(whole)) and not reads) if (line_loops or whole or reads) else None, tf.loc(f),
           found={"bounded reads": [ast.unparse(c) for c in reads], "line loops": len(line_loops)}, accepted="for line in f: ... rank_re.search(line)",
           why="the rank field written by update_trace_rank / found after a large traceEvents array lies beyond any fixed prefix: the file silently falls back to rank 0")
    needs_space = bool(pats) and "\\s+" in pats[0]
    # every json.dump / json.dumps on the write path must use separators that put a space after ':'
    dumps = []
    for mod, q in ((tf, "write_trace"), (tm, "Trace.write_raw_trace")):
        g = mod.func(q)
        for c in ast.walk(g):
            if isinstance(c, ast.Call) and call_name(c) in ("json.dump", "json.dumps"):
                sep = [k.value for k in c.keywords if k.arg == "separators"]
                good = True
                if sep:
                    v = lit(sep[0])
                    good = isinstance(v, (tuple, list)) and len(v) == 2 and str(v[1]).endswith((" ", "\t", "\n")) if v is not None else None
                dumps.append((f"{mod.name}:{q}", ast.unparse(c)[:80], good))
    for w, src, good in dumps:
        chk.ob(rule, f"{w}: serialisation leaves whitespace after ':' (default separators), so the written rank is found again", good if not needs_space or good is not None else None, w, found=src,
               accepted="json.dump(s) with the default key separator ': '", why="compact separators write \"rank\":3, which the reader's regular expression does not match: the file falls back to rank 0")
    chk.ob(rule, "json serialisation sites on the write path", True if len(dumps) >= 3 else None, "hta", found=len(dumps), accepted=">= 3", nontrivial=False)
    u0 = tf.func("update_trace_rank")
    falsy = []
    for n in walk_no_nested(u0):
        if isinstance(n, (ast.If, ast.IfExp, ast.While)):
            for x in ast.walk(n.test):
                if isinstance(x, ast.UnaryOp) and isinstance(x.op, ast.Not) and H.name_id(x.operand) == "rank":
                    falsy.append(ast.unparse(n.test))
            if H.name_id(n.test) == "rank":
                falsy.append(ast.unparse(n.test))
        if isinstance(n, ast.BoolOp) and any(H.name_id(v) == "rank" for v in n.values[:-1]):
            falsy.append(ast.unparse(n))
    early = [r for r in walk_no_nested(u0) if isinstance(r, ast.Return)]
    chk.ob(rule, "update_trace_rank rewrites the file for EVERY rank value (rank 0 included): no truthiness test on rank, no early return", not falsy and not early, tf.loc(u0),
           found={"truthiness tests": falsy, "returns": len(early)}, accepted="read -> set rank -> write, unconditionally", why="`if not rank: return` makes re-numbering a file to rank 0 a no-op")
    # stores into the metadata block, wherever they are written (helper or inline): the rank FIELD is set; the whole block is created only when absent
    field, block = [], []
    for n in ast.walk(u0):
        if isinstance(n, ast.Assign) and len(n.targets) == 1:
            mf = H.match("$d['distributedInfo']['rank'] = $$v", n)
            mb = H.match("$d['distributedInfo'] = $$v", n)
            if mf is not None:
                field.append((n, mf))
            elif mb is not None:
                block.append((n, mb))

    def absent_guard(n):
        """is n inside the branch taken only when the block is absent?"""
        cur, child = tf.parent.get(id(n)), n
        while cur is not None and cur is not u0:
            if isinstance(cur, ast.If):
                inb = any(child is x or any(child is y for y in ast.walk(x)) for x in cur.body)
                if H.match("'distributedInfo' in $d", cur.test) is not None and not inb:
                    return True
                if H.match("'distributedInfo' not in $d", cur.test) is not None and inb:
                    return True
                if isinstance(cur.test, ast.UnaryOp) and isinstance(cur.test.op, ast.Not) and H.match("'distributedInfo' in $d", cur.test.operand) is not None and inb:
                    return True
            child, cur = cur, tf.parent.get(id(cur))
        return False
    unguarded = [ast.unparse(n) for n, _ in block if not absent_guard(n)]
    okblock = all(isinstance(m["__mvx_v"], ast.Dict) and [H.str_const(k) for k in m["__mvx_v"].keys] == ["rank"] for _, m in block)
    setdef = [n for n in ast.walk(u0) if isinstance(n, ast.Call) and isinstance(n.func, ast.Attribute) and n.func.attr == "setdefault" and n.args and H.str_const(n.args[0]) == "distributedInfo"]
    # names that hold the trace dict (the value read from the file and parameters it is passed to) must not be re-bound: a new dict bound to the local name never reaches the writer
    dict_names = {m_["__mv_d"] for _, m_ in field + block}
    rebinds = [" ".join(ast.unparse(n).split())[:90] for n in ast.walk(u0) if isinstance(n, ast.Assign) and len(n.targets) == 1 and isinstance(n.targets[0], ast.Name) and n.targets[0].id in dict_names
               and isinstance(n.value, (ast.Dict, ast.DictComp)) ]
    creates = bool(block) or bool(setdef)
    verdict = bool(field) and not unguarded and okblock and creates and not rebinds
    if not field and not block:
        verdict = None
    chk.ob(rule, "update_trace_rank sets distributedInfo.rank (the key the reader searches) and creates the block only when the file has none", verdict, tf.loc(u0),
           found={"field stores": [ast.unparse(n) for n, _ in field], "block stores": [ast.unparse(n) for n, _ in block], "block stores outside an 'absent' branch": unguarded, "local re-binding of the dict": rebinds, "absent case creates the block": creates},
           accepted=["d['distributedInfo']['rank'] = rank  (block present)", "d['distributedInfo'] = {'rank': rank}  (only when 'distributedInfo' not in d)"],
           why="overwriting an existing block drops backend, world_size and the other entries the profiler recorded")
