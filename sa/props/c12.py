"""C12 - iteration numbers follow profiler steps; loading trims only the trailing step (structural clauses)."""
from __future__ import annotations

import ast

from ..core import terms as T
from ..core import asthelp as H
from ..core.interp import Interp, assume
from ..core.progdb import AnalysisError, lit, call_name
from ..core.values import Frame, Obj, PyTuple, to_term
from ..specs.merge import check_term
from ..specs.endcoherence import check_end_coherence

EXPLANATION = (
    "Symbolic evaluation of trace.add_iteration, Trace._filter_irrelevant_gpu_kernels (and its per-rank nested function, with the side filters inlined), "
    "Trace._align_all_ranks / parse_trace_file (end = ts + dur typestate) and Trace.load_traces. Decides: host rows (stream < 0) get the step whose half-open "
    "span [step.ts, step.ts + step.dur) contains ts, read from the right positions of the step array, default -1; device rows (stream > 0) inherit the host "
    "value of the row addressed by index_correlation iff index_correlation > 0 (strict: 0 = partner absent), else -1, after the host store; trimming keeps host "
    "rows with ts < max(ts of step rows) or, for include_last, ts <= max(end of step rows), plus device rows inner-joined on the kept host rows' correlation; no "
    "trimming below two steps; the end column read by the inclusive cut-off is coherent (end = ts + dur after the shift)."
    " Later additions: side complement and no device-side time cut in the trim, value-preserving rewrites of the iteration column, step-name set agreement decided by regex-language comparison."
)
TM = "hta.common.trace"


def _tt(pred, base, col, vals):
    try:
        return {v: bool(T.evaluate(pred, lambda leaf, v=v: v if leaf == T.col(base, col) else (_ for _ in ()).throw(T.Unknown(leaf)))) for v in vals}
    except T.Unknown:
        return None


def _called_names(db, mod, d, depth=2):
    """names of the callables a function calls, following functions of hta reached by a bare name (also across modules) up to `depth`"""
    out, todo, seen = set(), [(mod, d, 0)], set()
    while todo:
        mm, f, k = todo.pop()
        for x in ast.walk(f):
            if not isinstance(x, ast.Call):
                continue
            nm = H.name_id(x.func)
            if nm is None:
                continue
            out.add(nm)
            if k < depth and db is not None:
                res = db.resolve_name(mm, nm)
                if res is not None and res[1] in res[0].functions and (res[0].name, res[1]) not in seen:
                    seen.add((res[0].name, res[1]))
                    todo.append((res[0], res[0].functions[res[1]], k + 1))
    return out


def find_per_rank_trim(m, db=None):
    """qualified name of the per-rank trim: the callee of Trace._filter_irrelevant_gpu_kernels (nested closure or method) that applies both side filters
    (itself or through a helper of hta it calls)"""
    outer = m.func("Trace._filter_irrelevant_gpu_kernels")
    q2 = None
    for c_ in H.calls(outer, nested=False):
        nm_ = call_name(c_).split(".")[-1]
        for q_ in (f"Trace._filter_irrelevant_gpu_kernels.{nm_}", f"Trace.{nm_}", nm_):
            d_ = m.functions.get(q_)
            if d_ is not None and d_ is not outer and {"CPUOperatorFilter", "GPUKernelFilter"} <= _called_names(db, m, d_):
                q2 = q_
    if q2 is None:
        raise AnalysisError("_filter_irrelevant_gpu_kernels: no per-rank callee applying CPUOperatorFilter and GPUKernelFilter was found")
    return q2


def _per_rank_or_none(m, db):
    try:
        return find_per_rank_trim(m, db)
    except AnalysisError:
        return None


def check_trim(db, chk, rule: str) -> None:
    """per-rank trimming of the trailing profiler step (also C02: the links written at parse time survive the trim -
    a device activity is kept iff its launch call is kept)"""
    m = db.mod(TM)
    st = db.mod("hta.common.trace_symbol_table")
    # ------------------------------------------------------------------ trimming, per rank
    TR = ("param", "TR")
    # the per-rank trim is found by ROLE: the callee of _filter_irrelevant_gpu_kernels (nested closure or method) that applies both side filters
    try:
        q2 = find_per_rank_trim(m, db)
    except AnalysisError:
        q2 = None          # the per-rank work is written out inside the loop over the ranks: the whole method is evaluated for one rank instead
    whole = q2 is None
    if whole:
        q2 = "Trace._filter_irrelevant_gpu_kernels"
    ref2 = f"{TM}:{q2}"
    f2 = m.func(q2)
    where2 = m.loc(f2)
    chk.analysed_add("functions", ref2)
    STEPS = T.P("STEPS")
    for inc in (False, True):
        I = Interp(db, decide=assume(("hascol", TR, "stream")))
        self_obj = lambda: Obj("self", cls=(m, "Trace"), attrs={"symbol_table": Obj("symtab", cls=(st, "TraceSymbolTable"))})
        if whole:
            # one rank, a symbol table with at least two step names (the guard is a rule of its own): the trimmed frame is what is stored back under the rank
            RK = T.P("RANK")
            I = Interp(db, decide=lambda c, _a=assume(("hascol", TR, "stream")): (_a(c) if _a(c) is not None else (False if (isinstance(c, tuple) and c and c[0] == "cmp" and c[1] in ("<", "<=") and "len(" in T.show(c)) else
                                                                                                     True if (isinstance(c, tuple) and c and c[0] == "cmp" and c[1] in (">", ">=") and "len(" in T.show(c)) else None)))
            def fresh_self():          # (one object per explored path: the method stores its result in it)
                so = self_obj()
                so.attrs["traces"] = {RK: Frame(TR)}
                return so
            incp = next((p_ for p_ in H.param_names(f2) if "include" in p_ or "last" in p_), None)
            wr = [r for r in I.explore(ref2, lambda I: {"self": fresh_self(), **({incp: inc} if incp else {})}) if r.raised is None]
            outs = []
            for r in wr:
                tr_ = r.env["self"].attrs.get("traces") if isinstance(r.env.get("self"), Obj) else None
                fr_ = tr_.get(RK) if isinstance(tr_, dict) else None
                if isinstance(fr_, Frame) and isinstance(fr_.base, tuple) and fr_.base and fr_.base[0] == "concat":
                    outs.append(fr_)
            tag = f"[include_last={inc}]"
            if len(outs) != 1:
                chk.ob(rule, f"{tag} trim written out in the method: one path storing concat(device part, host part) under the rank", None, where2, found=len(outs))
                continue
            R = outs[0]
            ins = [x for x in T.subterms(R.base) if isinstance(x, tuple) and len(x) == 3 and x[0] == "in" and x[1] == T.col(TR, "name")]
            stepsets = {x[2] for x in ins if "ProfilerStep" in T.show(x[2])}
            if len(stepsets) != 1:
                chk.ob(rule, f"{tag} the step rows are selected by one name set", None, where2, found=[T.show(x)[:120] for x in stepsets])
                continue
            STEPS = next(iter(stepsets))

        def role_args(I, inc=inc):
            out = {}
            for p_ in H.param_names(f2):
                if p_ == "self":
                    out[p_] = self_obj()
                elif "step" in p_ and "include" not in p_:
                    out[p_] = STEPS
                elif "include" in p_ or "last" in p_:
                    out[p_] = inc
                elif "df" in p_ or "trace" in p_:
                    out[p_] = Frame(TR)
                else:
                    raise AnalysisError(f"{q2}: role of parameter {p_} not recognised")
            return out
        if not whole:
            def closure(I, inc=inc):
                base = {"self": self_obj(), "profiler_steps": STEPS, "include_last_profiler_step": inc}
                outer_q = "Trace._filter_irrelevant_gpu_kernels"
                if q2.startswith(outer_q + "."):
                    # the closure sees everything the enclosing method computed in front of it (its parameters by role, the step set as the parameter STEPS)
                    outer_f = m.func(outer_q)
                    env0 = {"self": self_obj()}
                    for p_ in H.param_names(outer_f)[1:]:
                        env0[p_] = inc
                    try:
                        env = I.prefix_closure(m, outer_q, q2.split(".")[-1], env0)
                        env.update({k: v for k, v in base.items() if k != "self"} if "profiler_steps" in env else {"include_last_profiler_step": inc})
                        return env
                    except AnalysisError:
                        pass
                return base
            runs = I.explore(ref2, role_args, closure)
            runs = [r for r in runs if r.raised is None and isinstance(r.ret, Frame)]
            tag = f"[include_last={inc}]"
            untouched = [r_ for r_ in runs if r_.path and r_.ret.base == TR and r_.ret.rows == T.TRUE]
            if untouched and len(runs) > 1:
                # a path of the per-rank trim that hands the rank's frame back as it came: this rank keeps its trailing step (the guard for fewer than two steps sits in front of the per-rank function)
                chk.ob(rule, f"{tag} per-rank trim: every rank is trimmed (no path returns the rank's frame untouched)", False, where2, found=[T.show(r_.cond())[:160] for r_ in untouched], accepted="no data-dependent way out of the trim",
                       why="a rank that did not record the step some OTHER rank ends with (or whose own last step has a lower number) keeps its trailing step and everything after it")
                continue
            if len(runs) != 1 or runs[0].ret.base[0] != "concat":
                chk.ob(rule, f"{tag} per-rank trim: one path returning concat(device part, host part)", None, where2, found=len(runs))
                continue
            R = runs[0].ret
        parts = [p for k, p in R.base[2]]
        joins = [p for p in parts if isinstance(p, tuple) and isinstance(p[0], tuple) and p[0] and p[0][0] == "join"]
        hosts = [p for p in parts if isinstance(p, tuple) and p[0] == TR]
        if len(parts) != 2 or len(joins) != 1 or len(hosts) != 1:
            chk.ob(rule, f"{tag} output = kept device rows + kept host rows, each once", False if not T.has_opaque(R.base) else None, where2, found=[T._ctx(p)[:100] if isinstance(p, tuple) else p for p in parts],
                   accepted="[device rows joined on kept host correlations, kept host rows]")
            continue
        hrows = hosts[0][1]
        conj = list(hrows[1]) if hrows[0] == "and" else [hrows]
        TSc = T.col(TR, "ts")
        cut_atoms = [c for c in conj if T.find(c, lambda s: s[0] == "agg")]
        side = [c for c in conj if c not in cut_atoms]
        # host side predicate = CPUOperatorFilter rows (checked as a table in C02/C18); here: it must be false for a plain device row and true for a plain host row
        def leaf(vals):
            def f(t):
                if t == T.col(TR, "stream"):
                    return vals[0]
                if t == T.col(TR, "correlation"):
                    return vals[1]
                if t == T.col(TR, "name"):
                    return vals[2] if len(vals) > 2 else 5
                if t[0] == "call" and str(t[1]).endswith(".get"):
                    return 1001 if "Event" in T.show(t) else 1002
                if t[0] == "in" and t[1] == T.col(TR, "name"):
                    from ..specs.symset import class_in_symbol_set, NEAR_MISSES
                    nv = vals[2] if len(vals) > 2 else 5
                    r_ = class_in_symbol_set(t[2], {1001: ["Event Sync"], 1002: ["Context Sync"]}.get(nv, NEAR_MISSES))
                    if r_ is not None:
                        return r_
                raise T.Unknown(t)
            return f
        try:
            sv = {(-1, 9): bool(T.evaluate(T.and_(*side), leaf((-1, 9)))), (7, 9): bool(T.evaluate(T.and_(*side), leaf((7, 9)))), (-1, -1): bool(T.evaluate(T.and_(*side), leaf((-1, -1))))}
            chk.ob(rule, f"{tag} host part = host-side rows (host launch kept, device activity excluded, plain host op kept)", sv == {(-1, 9): True, (7, 9): False, (-1, -1): True}, where2,
                   found={str(k): v for k, v in sv.items()}, accepted="host side of CPUOperatorFilter")
        except T.Unknown as u:
            chk.ob(rule, f"{tag} host part predicate understood", None, where2, found=T.show(u.args[0])[:120])
        step_rows_ok = lambda ctx: ctx[0] == TR and ("in", T.col(TR, "name"), STEPS) in (ctx[1][1] if ctx[1][0] == "and" else (ctx[1],))
        if len(cut_atoms) != 1:
            chk.ob(rule, f"{tag} one cut-off comparison on ts", False if not T.has_opaque(hrows) else None, where2, found=[T.show(c)[:160] for c in cut_atoms], accepted="one")
            continue
        cut = cut_atoms[0]
        aggs = T.find(cut, lambda s: s[0] == "agg")
        a = aggs[0]
        if inc:
            exp = T.cmp("<=", TSc, T.agg("max", T.col(TR, "end"), a[3]))
            txt = "ts <= max(end of the step rows)  (inclusive: the last step is requested)"
        else:
            exp = T.cmp("<", TSc, T.agg("max", TSc, a[3]))
            txt = "ts < max(ts of the step rows)  (strict: events of the last step are dropped)"
        chk.ob(rule, f"{tag} kept host rows: {txt}", cut == exp and step_rows_ok(a[3]), where2, found=T.show(cut)[:200], accepted=T.show(exp)[:200],
               why="comparing the event's end instead of its start drops events that straddle the cut-off; a wrong strictness keeps/drops the boundary events")
        # device part
        jb = joins[0][0]
        _, how, Lc, Rc, lk, rk, sfx = jb
        CORR = T.col(TR, "correlation")
        okj = how == "inner" and lk == (CORR,) and rk == (CORR,) and Rc[0] == TR and Rc[1] == hrows and joins[0][1] == T.TRUE
        chk.ob(rule, f"{tag} kept device rows = device-side rows inner-joined on the correlation ids of the KEPT host rows", okj, where2,
               found=[how, T.show(lk), T._ctx(Rc)[:160]], accepted="inner join on correlation with the kept host rows",
               why="a left join keeps every activity; joining on all host rows keeps the trailing step's activities")
        # the device side is cut by the kept launch calls ALONE: no time condition of its own (the GPU runs asynchronously)
        dconj = list(Lc[1][1]) if Lc[1][0] == "and" else [Lc[1]]
        timed = [c_ for c_ in dconj if any(T.col(TR, x_) in T.find(c_, lambda s_: s_[0] == "col") for x_ in ("ts", "dur", "end"))]
        chk.ob(rule, f"{tag} device rows are selected by their launch call alone (no time cut on the device side)", not timed, where2, found=[T.show(c_)[:160] for c_ in timed] or "none", accepted="no ts/dur/end condition on the device part",
               why="an activity that starts after the cut-off while its launch call is kept would vanish and leave the call with a link to a missing row")
        if timed:
            Lc = (Lc[0], T.and_(*[c_ for c_ in dconj if c_ not in timed]), Lc[2])
        try:
            grid = [(sv_, cv_, nv_) for sv_ in (-1, 0, 7) for cv_ in (-1, 0, 9) for nv_ in (5, 1001, 1002)]
            both = [g for g in grid if bool(T.evaluate(T.and_(*side), leaf(g))) == bool(T.evaluate(Lc[1], leaf(g)))]
            chk.ob(rule, f"{tag} host side and device side of the trim are complementary on the {len(grid)} abstract rows (stream x correlation x {{plain, Event Sync, Context Sync}})", not both, where2,
                   found=[f"stream={g[0]} corr={g[1]} name={'plain' if g[2] == 5 else 'sync'}: on {'both' if bool(T.evaluate(Lc[1], leaf(g))) else 'neither'} side(s)" for g in both][:6], accepted="every row on exactly one side",
                   why="a row on neither side vanishes from the loaded trace while its partner keeps a link to it; a row on both sides is duplicated")
        except T.Unknown as u:
            chk.ob(rule, f"{tag} side predicates understood", None, where2, found=T.show(u.args[0])[:120])
        try:
            dvv = {(-1, 9): bool(T.evaluate(Lc[1], leaf((-1, 9)))), (7, 9): bool(T.evaluate(Lc[1], leaf((7, 9))))}
            chk.ob(rule, f"{tag} device part is taken from the device-side rows", dvv == {(-1, 9): False, (7, 9): True} and Lc[0] == TR, where2, found={str(k): v for k, v in dvv.items()},
                   accepted="device side of GPUKernelFilter")
        except T.Unknown as u:
            chk.ob(rule, f"{tag} device part predicate understood", None, where2, found=T.show(u.args[0])[:120])
    chk.floor(rule, 8)


def check_trim_guard(db, chk, rule: str) -> None:
    """nothing is trimmed unless the trace has at least two profiler steps (also C01: no other row removal on the load path)"""
    m = db.mod(TM)
    st = db.mod("hta.common.trace_symbol_table")
    TR = ("param", "TR")
    # ------------------------------------------------------------------ guard: fewer than two steps -> nothing dropped
    ref3 = f"{TM}:Trace._filter_irrelevant_gpu_kernels"
    f3 = m.func("Trace._filter_irrelevant_gpu_kernels")
    calls = []

    per_rank = _per_rank_or_none(m, db)          # None: the trim is written out inside the loop over the ranks

    def hook(I, name, pos, kw, node):
        if per_rank is not None and name.split(".")[-1] == per_rank.split(".")[-1]:
            calls.append(I.run)
            return Frame(("trimmed",))
        return NotImplemented

    I = Interp(db, call_hook=hook, decide=assume(("hascol", TR, "stream")))
    RK = T.P("RANK")
    runs = I.explore(ref3, lambda I: {"self": Obj("self", cls=(m, "Trace"), attrs={"traces": {RK: Frame(TR)}, "symbol_table": Obj("symtab", cls=(st, "TraceSymbolTable"))}),
                                      "include_last_profiler_step": T.P("include_last_profiler_step")})
    runs = [r for r in runs if r.raised is None]
    summary = []
    for r in runs:
        tr = r.env["self"].attrs["traces"].get(RK)
        trimmed = isinstance(tr, Frame) and (tr.base == ("trimmed",) or (per_rank is None and isinstance(tr.base, tuple) and tr.base and tr.base[0] == "concat"))
        summary.append((T.show(r.cond())[:200], trimmed))
    lens = [c for c, t in summary]
    ok = len(summary) == 3 and sum(1 for c, t in summary if t) == 1
    # the trimming path must be the one with neither "no steps" nor "exactly one step"
    trim_conds = [r.path for r, (c, t) in zip(runs, summary) if t]
    strict = bool(trim_conds) and any(p[0] == "not" and T.find(p, lambda s: s[0] == "cmp" and s[1] == "==") for p in trim_conds[0]) or \
        (bool(trim_conds) and any(p[0] == "cmp" and p[1] in ("!=", ">", ">=") for p in trim_conds[0]))
    # evaluate the path conditions on representative step counts 0..3: trimming must happen exactly for counts >= 2
    table = {}
    try:
        for n in (0, 1, 2, 3):
            def leaf(t, n=n):
                if t[0] == "len":
                    return n
                if t[0] == "truthy":
                    return n > 0
                if t[0] == "hascol":
                    return True
                raise T.Unknown(t)
            hits = [tr for r, (c, tr) in zip(runs, summary) if all(T.evaluate(p_, leaf) for p_ in r.path)]
            table[n] = hits
        okt = table == {0: [False], 1: [False], 2: [True], 3: [True]}
    except T.Unknown as u:
        okt, table = None, {"unknown": T.show(u.args[0])[:100]}
    chk.ob(rule, "nothing is trimmed when the symbol table holds no or exactly one ProfilerStep name; otherwise every rank is trimmed", okt, m.loc(f3),
           found={str(k): v for k, v in table.items()}, accepted={"0": [False], "1": [False], "2": [True], "3": [True]}, why="with two or more steps the trailing (incomplete) step must be trimmed")


def check_step_set(db, chk, rule: str) -> None:
    """the set of 'profiler step' name ids the trim cuts by is the set add_iteration assigns iterations from: every symbol that starts with
    (or contains) 'ProfilerStep'.  A narrower definition (e.g. the anchored regex ^ProfilerStep#(\\d+)) leaves steps spelled 'ProfilerStep #5' -
    which the iteration parser accepts - out of the cut-off, and nothing is trimmed."""
    from ..core import regexeq
    m = db.mod(TM)
    f = m.func("Trace._filter_irrelevant_gpu_kernels")
    where = m.loc(f)
    inner = m.func(_per_rank_or_none(m, db) or "Trace._filter_irrelevant_gpu_kernels")
    # the closure variable (or parameter) the per-rank helper tests names against
    cand = set()
    for n in ast.walk(H.inline_helpers(m, inner)):          # (private helpers written out: a helper's parameter becomes the caller's argument)
        if isinstance(n, ast.Call) and isinstance(n.func, ast.Attribute) and n.func.attr == "isin" and n.args and isinstance(n.args[0], ast.Name):
            cand.add(n.args[0].id)
    # a parameter of the helper: follow it to the argument passed by the caller
    inner_params = H.param_names(inner)
    if cand & set(inner_params):
        for c_ in H.calls(f, nested=False):
            if call_name(c_).split(".")[-1] == inner.name:
                b_ = H.bind_call(inner, c_)
                cand = {(H.name_id(b_.get(x)) or x) if x in inner_params else x for x in cand}
    defs = [(t, v) for t, v, s_ in H.assignments(f, nested=False) if H.name_id(t) in cand]
    if len(defs) != 1:
        # the set is not a local of the method (e.g. handed to a filter object): decided on the evaluated method instead - the name set the trimmed frame
        # of one rank was selected by, as a term over the symbol table
        st = db.mod("hta.common.trace_symbol_table")
        TR, RK = ("param", "TR"), T.P("RANK")
        _a = assume(("hascol", TR, "stream"))
        dec = lambda c: (_a(c) if _a(c) is not None else (False if (isinstance(c, tuple) and c and c[0] == "cmp" and c[1] in ("<", "<=") and "len(" in T.show(c)) else
                                                           True if (isinstance(c, tuple) and c and c[0] == "cmp" and c[1] in (">", ">=") and "len(" in T.show(c)) else None))

        def fresh():
            so = Obj("self", cls=(m, "Trace"), attrs={"symbol_table": Obj("symtab", cls=(st, "TraceSymbolTable"))})
            so.attrs["traces"] = {RK: Frame(TR)}
            return so
        sets = set()
        try:
            for r in Interp(db, decide=dec).explore(f"{TM}:Trace._filter_irrelevant_gpu_kernels", lambda I: {"self": fresh()}):
                tr_ = r.env["self"].attrs.get("traces") if r.raised is None and isinstance(r.env.get("self"), Obj) else None
                fr_ = tr_.get(RK) if isinstance(tr_, dict) else None
                if isinstance(fr_, Frame) and isinstance(fr_.base, tuple) and fr_.base and fr_.base[0] == "concat":
                    sets |= {x[2] for x in T.subterms(fr_.base) if isinstance(x, tuple) and len(x) == 3 and x[0] == "in" and x[1] == T.col(TR, "name") and "ProfilerStep" in T.show(x[2])}
        except AnalysisError:
            sets = set()
        verdict = None
        if len(sets) == 1:
            S = next(iter(sets))
            S = S[1] if isinstance(S, tuple) and len(S) == 2 and S[0] in ("list", "set") else S
            if isinstance(S, tuple) and len(S) == 5 and S[0] == "comp" and isinstance(S[3], tuple) and S[3] and "items" in T.show(S[3]) and S[2] == ("item", ("elem", S[3]), 1):
                key = ("item", ("elem", S[3]), 0)
                if S[4] == ("in", T.C("ProfilerStep"), key) or (isinstance(S[4], tuple) and S[4] and S[4][0] == "strmatch" and S[4][1] == "startswith" and S[4][2] == key and S[4][3] == T.C("ProfilerStep")):
                    verdict = True
        chk.ob(rule, "the trim's step-name set = the names add_iteration numbers (every symbol starting with / containing 'ProfilerStep')", verdict, where,
               found=[T.show(x)[:200] for x in sets] or {"candidates": sorted(cand), "definitions": len(defs)}, accepted="[v for k, v in sym_index.items() if 'ProfilerStep' in k]",
               why="a narrower set makes the trim blind to steps the iteration column knows: with 'ProfilerStep #N' annotations nothing is trimmed although iterations are assigned")
        return
    v = H.expand(f, defs[0][1])
    verdict, det = None, " ".join(ast.unparse(v).split())[:140]
    for pat in ("[$v for $k, $v in $$m.items() if 'ProfilerStep' in $k]", "[$v for $k, $v in $$m.items() if $k.startswith('ProfilerStep')]"):
        if H.match(pat, v) is not None:
            verdict = True
    if verdict is None and isinstance(v, ast.Call) and isinstance(v.func, ast.Attribute) and v.func.attr == "get_profiler_step_ids":
        ty = db.mod("hta.common.types")
        cv = ty.constants.get("ProfilerStepGroupingPattern")
        rx = None
        if isinstance(cv, ast.Call):
            pk = H.kwarg(cv, "pattern")
            if isinstance(pk, ast.Call) and pk.args:
                rx = lit(pk.args[0])
            inv = lit(H.kwarg(cv, "inverse_match"), False)
        if isinstance(rx, str) and not inv:
            try:
                same, wit = regexeq.match_equivalent(rx, "ProfilerStep")
                verdict = True if same else False
                det += f"  [pattern {rx!r}: " + ("same names as the prefix test" if same else f"differs from 'starts with ProfilerStep', e.g. on {('ProfilerStep' + ' #5')!r}") + "]"
            except regexeq.Unsupported:
                verdict = None
    chk.ob(rule, "the trim's step-name set = the names add_iteration numbers (every symbol starting with / containing 'ProfilerStep')", verdict, where, found=det,
           accepted="[v for k, v in sym_index.items() if 'ProfilerStep' in k]",
           why="a narrower set makes the trim blind to steps the iteration column knows: with 'ProfilerStep #N' annotations nothing is trimmed although iterations are assigned")


def run(db, chk) -> None:
    m = db.mod(TM)
    st = db.mod("hta.common.trace_symbol_table")
    DF = ("param", "DF")
    # ------------------------------------------------------------------ add_iteration
    ref = f"{TM}:add_iteration"
    fn = m.func("add_iteration")
    where = m.loc(fn)
    I = Interp(db)
    runs = [r for r in I.explore(ref, lambda I: {"df": Frame(DF), "symbol_table": Obj("symtab", cls=(st, "TraceSymbolTable"))}) if r.raised is None]
    chk.analysed_add("functions", ref)
    if len(runs) != 1:
        chk.ob("C12.R1-host-rule", "add_iteration: one path", None, where, found=len(runs))
    else:
        r = runs[0]
        stores = [e for e in r.events if e["kind"] == "frame-mutation" and e.get("column") == "iteration" and e["what"] == "loc-store"]
        if len(stores) != 2:
            chk.ob("C12.R1-host-rule", "two masked stores into iteration (host rows, then device rows)", None if len(stores) == 0 else False, where, found=len(stores), accepted=2)
        else:
            host, dev = stores
            hm, dm = host["rowsel"], dev["rowsel"]
            chk.ob("C12.R1-host-rule", "host store addresses exactly the rows on stream -1 (negative stream)", _tt(hm, DF, "stream", (-1, 1, 7)) == {-1: True, 1: False, 7: False}, where,
                   found=T.show(hm), accepted="stream < 0")
            chk.ob("C12.R2-device-rule", "device store addresses exactly the rows with a positive stream", _tt(dm, DF, "stream", (-1, 1, 7)) == {-1: False, 1: True, 7: True}, where,
                   found=T.show(dm), accepted="stream > 0")
            hv = host["value"]
            cases = hv[2] if hv[0] == "mapf" and len(hv) == 3 else hv
            TS = T.col(DF, "ts")
            if T.as_cases(cases) is not None:
                cases = ("cases", tuple(T.as_cases(cases)))
            if cases[0] != "cases" or len(cases[1]) != 2:
                chk.ob("C12.R1-host-rule", "host value is a two-way decision (inside a step / not)", None, where, found=T.show(hv)[:300])          # another algorithm (e.g. vectorised masks): not understood
            else:
                steps = T.find(cases, lambda s: s[0] == "elem" and isinstance(s[1], tuple) and s[1] and s[1][0] == "to_numpy")
                step = steps[0] if steps else None
                ok_shape = step is not None
                if ok_shape:
                    s0, s1, s3 = ("getitem", step, T.C(0)), ("getitem", step, T.C(1)), ("getitem", step, T.C(3))
                    inside = T.and_(T.cmp("<=", s0, TS), T.cmp("<", TS, T.add(s0, s1)))
                    rows = dict(cases[1])
                    got_in = rows.get(inside)
                    chk.ob("C12.R1-host-rule", "inside test is the half-open span step.ts <= ts < step.ts + step.dur", inside in rows, where,
                           found=[T.show(c)[:200] for c in rows], accepted=T.show(inside)[:200],
                           why="a closed right end assigns an event starting exactly at the next step's start to the previous step; an open left end loses events starting with the step")
                    chk.ob("C12.R1-host-rule", "value inside a step = the step's number (4th field of the step array)", got_in == s3, where, found=T.show(got_in)[:120] if got_in else None, accepted="step[3]")
                    other = [v for c, v in rows.items() if c != inside]
                    chk.ob("C12.R1-host-rule", "default when no step contains the event is -1", other == [T.C(-1)], where, found=[T.show(v)[:60] for v in other], accepted="-1")
                    cols = step[1][2]
                    names = [c for c, _ in cols]
                    num = dict(cols).get(names[3]) if len(names) > 3 else None
                    okpos = names[:2] == ["ts", "dur"] and cols[0][1] == T.col(DF, "ts") and cols[1][1] == T.col(DF, "dur") and num is not None and \
                        (T.find(num, lambda s: s[0] == "re" or (s[0] == "call" and "re.match" in str(s[1]))) != [] or "re('match'" in T.show(num)) and "ProfilerStep" in T.show(num)
                    chk.ob("C12.R1-host-rule", "step array layout: [0]=ts, [1]=dur of the step annotation, [3]=the number parsed from its ProfilerStep#<n> name", okpos, where,
                           found=names + [T.show(num)[:160] if num is not None else None], accepted=["ts", "dur", "<name>", "<parsed number>", "..."], why="positional reads of the numpy rows must agree with the column order of the step frame")
                    srows = step[1][1][1]
                    chk.ob("C12.R1-host-rule", "step rows = events whose name id belongs to the symbols starting with 'ProfilerStep'", srows[0] == "in" and srows[1] == T.col(DF, "name")
                           and "sym_index" in T.show(srows[2]), where, found=T.show(srows)[:200], accepted="name in ids(ProfilerStep*)")
                elif any(isinstance(x, tuple) and len(x) == 3 and x[0] == "at" and x[1] == ("row",) for x in T.subterms(cases)):
                    # the same decision with the step read column-wise (one vectorised pass per step: zip over the step frame's ts / end / number columns)
                    walks = [e for e in r.events if e["kind"] == "row-walk"]
                    rowat = lambda t_: ("at", ("row",), t_)
                    DUR = T.col(DF, "dur")
                    inside = T.and_(T.cmp("<=", rowat(TS), TS), T.cmp("<", TS, rowat(T.add(TS, DUR))))
                    rows = dict(cases[1])
                    chk.ob("C12.R1-host-rule", "inside test is the half-open span step.ts <= ts < step.ts + step.dur", inside in rows, where,
                           found=[T.show(c)[:200] for c in rows], accepted=T.show(inside)[:200],
                           why="a closed right end assigns an event starting exactly at the next step's start to the previous step; an open left end loses events starting with the step")
                    got_in = rows.get(inside)
                    num_ok = isinstance(got_in, tuple) and len(got_in) == 3 and got_in[0] == "at" and got_in[1] == ("row",) and "ProfilerStep" in T.show(got_in[2]) and \
                        ("re.match" in T.show(got_in[2]) or "re('match'" in T.show(got_in[2]))
                    chk.ob("C12.R1-host-rule", "value inside a step = the step's number (parsed from its ProfilerStep#<n> name)", num_ok if got_in is not None else False, where,
                           found=T.show(got_in)[:160] if got_in else None, accepted="number of that step")
                    other = [v for c, v in rows.items() if c != inside]
                    chk.ob("C12.R1-host-rule", "default when no step contains the event is -1", other == [T.C(-1)], where, found=[T.show(v)[:60] for v in other], accepted="-1")
                    okw = len(walks) == 1 and walks[0]["ctx"][0] == DF and isinstance(walks[0]["ctx"][1], tuple) and walks[0]["ctx"][1][0] == "in" and walks[0]["ctx"][1][1] == T.col(DF, "name") \
                        and "sym_index" in T.show(walks[0]["ctx"][1][2]) and walks[0]["ctx"][2] is None
                    chk.ob("C12.R1-host-rule", "step rows = events whose name id belongs to the symbols starting with 'ProfilerStep' (visited in row order: a later step wins where spans overlap)", okw if walks else None, where,
                           found=[T._ctx(w_["ctx"])[:200] for w_ in walks], accepted="name in ids(ProfilerStep*)")
                    chk.ob("C12.R1-host-rule", "the column-wise reads of a step are its ts, its ts + dur and its number", len(walks) == 1 and len(walks[0]["columns"]) == 3 and walks[0]["columns"][0] == TS
                           and walks[0]["columns"][1] == T.add(TS, DUR), where, found=[T.show(c_)[:80] for w_ in walks for c_ in w_["columns"]], accepted=["ts", "ts + dur", "number"])
                else:
                    chk.ob("C12.R1-host-rule", "host value iterates the step array", None, where, found=T.show(hv)[:200])
            # device rule
            dv = dev["value"]
            IC = T.col(DF, "index_correlation")
            host_col = host["term"]
            exp = T.ite(T.cmp(">", IC, T.C(0)), ("at", ("loc", (DF, T.TRUE, None), IC), host_col), T.C(-1))
            got = dv[2] if dv[0] == "mapf" else dv
            check_term(chk, "C12.R2-device-rule", "device value = iteration of the row whose id is index_correlation if index_correlation > 0 else -1 (read after the host store)", where, got, [exp],
                       ">= 0 makes an activity whose partner is absent (sentinel 0) inherit the iteration of event 0")
            chk.ob("C12.R2-device-rule", "host store precedes the device store", host["line"] < dev["line"], where, found=[host["line"], dev["line"]], accepted="host first")
            # later rewrites of the column keep every value: no narrow fixed-width cast (step numbers are unbounded counters)
            from ..specs.discipline import narrowing_casts, strip_wide_casts
            later = [e for e in r.events if e["kind"] == "frame-mutation" and e.get("column") == "iteration" and e["what"] == "setcol" and e.get("line", 0) > dev["line"]]
            fin = r.env["df"].col("iteration") if isinstance(r.env.get("df"), Frame) else None
            for e in later:
                t_ = e.get("term")
                nc = narrowing_casts(t_)
                base = strip_wide_casts(t_)
                while isinstance(base, tuple) and base and base[0] == "fillna" and base[2] == T.C(-1):
                    base = base[1]                   # rule 3 of the docstring: undetermined rows are -1
                same = base == dev["term"]
                chk.ob("C12.R2-device-rule", "a later rewrite of the iteration column keeps every value (dtype normalisation only: to_numeric / 64-bit cast / fillna(-1))", False if nc else (True if same else None), where,
                       found={"narrow casts": nc} if nc else T.show(t_)[:200], accepted="pd.to_numeric(..., downcast='integer') or astype(int64)",
                       why="profiler step numbers are counters without an upper bound: int16 wraps at 32768 and the iteration no longer equals the step's number")
    chk.floor("C12.R1-host-rule", 6)
    chk.floor("C12.R2-device-rule", 3)

    check_trim(db, chk, "C12.R3-trim")
    TR = ("param", "TR")
    STEPS = T.P("STEPS")

    check_trim_guard(db, chk, "C12.R3-guard")
    # the device rule reads index_correlation: the links are the mutual links decided for C02 (correlation id 0 included)
    from .c02 import check_links
    from .c09 import _Prefixed
    check_links(db, _Prefixed(chk, "C12.R2-links"))
    chk.floor("C12.R2-links", 6)
    check_step_set(db, chk, "C12.R3-guard")
    # ------------------------------------------------------------------ R4 end coherence + load order
    check_end_coherence(db, chk, "C12.R4-end-coherence")
    lt = m.func("Trace.load_traces")
    af = m.func("Trace.align_and_filter_trace")
    order = [c.func.attr for c in H.calls(af) if isinstance(c.func, ast.Attribute) and H.is_self_attr(c.func)]
    chk.ob("C12.R4-end-coherence", "align (time shift) runs before the trim that reads ts/end", order[:2] == ["_align_all_ranks", "_filter_irrelevant_gpu_kernels"], m.loc(af), found=order, accepted=["_align_all_ranks", "_filter_irrelevant_gpu_kernels"])
    b = [c for c in H.calls(lt) if isinstance(c.func, ast.Attribute) and c.func.attr == "align_and_filter_trace"]
    chk.ob("C12.R4-end-coherence", "load_traces forwards include_last_profiler_step to the trim", len(b) == 1 and [H.name_id(a) for a in b[0].args] == ["include_last_profiler_step"], m.loc(lt),
           found=[ast.unparse(x) for x in b], accepted="self.align_and_filter_trace(include_last_profiler_step)")
    call2 = [c for c in H.calls(af) if isinstance(c.func, ast.Attribute) and c.func.attr == "_filter_irrelevant_gpu_kernels"]
    chk.ob("C12.R4-end-coherence", "align_and_filter_trace forwards include_last_profiler_step", len(call2) == 1 and [H.name_id(a) for a in call2[0].args] == ["include_last_profiler_step"], m.loc(af),
           found=[ast.unparse(x) for x in call2], accepted="self._filter_irrelevant_gpu_kernels(include_last_profiler_step)")
