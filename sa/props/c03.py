"""C03 - call stack: parent is the innermost enclosing event on the thread (structural clauses)."""
from __future__ import annotations

import ast

from ..core import terms as T
from ..core import asthelp as H
from ..core.progdb import walk_no_nested, AnalysisError, lit, call_name
from ..specs import comparators as CMP

EXPLANATION = (
    "Finite-domain abstract interpretation of the two endpoint comparators (trace_call_stack._less_than with _cmp_events_with_zero_duration, "
    "call_stack.compare_events): every path of each function is enumerated symbolically, the observation discipline is checked (inputs are touched only through "
    "comparisons of like fields or with module constants, so a table cell holds for every concrete input with the same ordering pattern), and the extracted path "
    "conditions are evaluated on canonical representatives of all equal-time endpoint pairs and triples (three events, durations 0..3, both kinds, all id orders) "
    "plus mixed-time pairs. Laws: total and antisymmetric (CLOSE/CLOSE may tie), no 3-cycles (strict weak order), the property's tie rules, agreement of the two "
    "comparators; plus the push-on-open / pop-on-close discipline of both builders and the agreement of the endpoint encodings. With these, sorted() yields a "
    "well-formed bracket sequence of the nesting, so the scan assigns the innermost enclosing parent (paper argument in DESIGN.md). The cyclic triple class "
    "(zero-duration endpoint, positive CLOSE, positive OPEN) is a recorded known finding."
    " Later additions: no size-dependent early exit in front of the scan, published parent column (device rows only, by stream), threads split by (pid, tid)."
)
NEW = "hta.common.trace_call_stack"
OLD = "hta.common.call_stack"


def _const(mod, name):
    v = lit(mod.const_value(name))
    if v is None:
        raise AnalysisError(f"constant {mod.name}:{name} is not a literal")
    return v


def _lit_const(mod, e):
    """literal value of an expression in which module-level literal constants may be named (OPEN_END for -1)"""
    import copy

    class Sub(ast.NodeTransformer):
        def visit_Name(self, n):
            try:
                c = mod.const_value(n.id)
            except Exception:
                c = None
            return copy.deepcopy(c) if c is not None and lit(c) is not None else n
    return lit(Sub().visit(copy.deepcopy(e)))


def run(db, chk, quad: bool = False) -> None:
    quad = quad or chk.tier == "thorough"   # thorough tier: also all endpoint quadruples of four events
    new, old = db.mod(NEW), db.mod(OLD)
    OPEN_N, CLOSE_N = _const(new, "OPEN_END"), _const(new, "CLOSE_END")
    START_O, END_O = _const(old, "EVENT_START"), _const(old, "EVENT_END")
    idxs = {n: _const(new, n) for n in ("_I_INDEX", "_I_DUR", "_I_KIND", "_I_TIME")}
    chk.ob("C03.R4-encoding", "array layout constants: index, dur, kind, time at positions 0..3", idxs == {"_I_INDEX": 0, "_I_DUR": 1, "_I_KIND": 2, "_I_TIME": 3}, NEW, found=idxs,
           accepted={"_I_INDEX": 0, "_I_DUR": 1, "_I_KIND": 2, "_I_TIME": 3})
    tabs = {}
    for key, ref, args, ok_, ck_, boolean, mod in (("new", f"{NEW}:_less_than", CMP.array_args, OPEN_N, CLOSE_N, True, new),
                                                   ("old", f"{OLD}:compare_events", CMP.event_args, START_O, END_O, False, old)):
        tab = CMP.extract(db, ref, args, ok_, ck_, boolean)
        tabs[key] = tab
        where = mod.loc(mod.func(ref.split(":")[1]))
        chk.analysed_add("functions", ref)
        chk.analysed_add("paths", {ref: len(tab.paths)})
        bad = CMP.observation_discipline(tab.paths)
        chk.ob("C03.R1-decision-table", f"{ref}: inputs are observed only through comparisons of like fields / with constants ({len(tab.paths)} paths)", None if bad else True, where, found=bad[:5],
               accepted="x.f op y.f | x.f op const", why="otherwise a table cell computed on representatives does not generalise")
        if bad:
            continue
        stats = CMP.check_laws(tab, chk, "C03", where, ref, quad=quad)
        ts = CMP.check_tree_semantics(tab, chk, "C03.R5-tree-semantics", where, ref, max_events=4 if quad else 3, grid=3)
        stats["tree_semantics"] = ts
        # mixed time: earlier endpoint first, whatever the rest
        badt = []
        for p in CMP.endpoints(1, t=5):
            for q in [(2, 9, d, k) for d in (0, 1, 3) for k in ("O", "C")]:
                if tab.less(p, q) is not True or tab.less(q, p) is not False:
                    badt.append((p, q))
        chk.ob("C03.O4-tie-rules", f"{ref}: endpoints at different instants are ordered by time alone", not badt, where, found=badt[:3], accepted="earlier first")
        chk.analysed_add("table_stats", {ref: {**stats, "evaluations": tab.evals}})
    # ---- O5 agreement of the two comparators (sibling cross-check) on every pair where both are decisive
    if len(tabs) == 2 and all(not CMP.observation_discipline(t.paths) for t in tabs.values()):
        dis = []
        n = 0
        eps = CMP.endpoints(2)
        for p in eps:
            for q in eps:
                if p == q or (p[0] == q[0] and not (p[2] == 0 and q[2] == 0)):
                    continue
                a, b = tabs["new"].less(p, q), tabs["old"].cmp(p, q)
                n += 1
                if a is None or b in ("TOP", "RAISE"):
                    continue
                if b == "EQ":
                    continue          # the deprecated comparator ties (CLOSE/CLOSE): order irrelevant for the tree
                if a != (b == "LT"):
                    dis.append((p, q, a, b))
        # disagreements are only tolerated between two CLOSE endpoints (anonymous pops)
        # and between two zero-duration events (the property allows either nesting or siblings for them)
        real = [d for d in dis if not (d[0][3] == "C" and d[1][3] == "C") and not (d[0][2] == 0 and d[1][2] == 0)]
        chk.analysed_add("comparator_disagreements_tolerated", [str(d) for d in dis if d not in real][:6])
        chk.ob("C03.O5-siblings-agree", f"both comparators order every tree-relevant pair the same way ({n} pairs)", not real, f"{NEW} / {OLD}", found=real[:4], accepted="same order (CLOSE/CLOSE and zero/zero pairs excepted)",
               why="the two builders must produce the same tree for the same thread")
    _builders(db, chk, new, old, OPEN_N, CLOSE_N, START_O, END_O)
    _published_parent(db, chk, old)
    _thread_identity(db, chk, new, old)
    _host_thread_recognition(db, chk, new, old)
    _no_default_filter(db, chk, old)
    # the parents published into a rank's frame come from that rank's stacks: no offset / counter into the list of stacks that is advanced only after its loop
    n_fun = 0
    for mn_ in (OLD, NEW, "hta.common.trace_call_graph"):
        md_ = db.mod(mn_)
        for q_, f_ in md_.functions.items():
            n_fun += 1
            du_ = H.dead_updates_after_loop(f_)
            if du_:
                chk.ob("C03.R10-loop-carried-offsets", f"{mn_}:{q_}: the offset into the per-rank / per-thread stacks advances inside its loop", False, md_.loc(f_), found=du_, accepted="update inside the loop",
                       why="with the update after the loop every rank is given the first rank's stacks: parents and depths of rank 0 are published into the other ranks' frames")
    chk.ob("C03.R10-loop-carried-offsets", "functions of the call-stack builders scanned for loop-carried values that are advanced after their loop", True if n_fun >= 60 else None, OLD, found=n_fun, accepted=">= 60", nontrivial=False)
    chk.floor("C03.O4-tie-rules", 12)
    chk.floor("C03.O3-strict-weak-order", 2)
    chk.floor("C03.R3-builder", 8)


def _scan_loop(f):
    """the scan: the one for-loop (outside nested functions) in whose body _add_edge is called"""
    loops = [n for n in walk_no_nested(f) if isinstance(n, ast.For) and any(isinstance(c, ast.Call) and isinstance(c.func, ast.Attribute) and c.func.attr == "_add_edge" for c in ast.walk(n))]
    # (an outer loop containing the scan is not the scan)
    inner = [lp for lp in loops if not any(o is not lp and any(x is lp for x in ast.walk(o)) for o in loops) or True]
    inner = [lp for lp in loops if not any(x is not lp and isinstance(x, ast.For) and x in loops for x in ast.walk(lp))]
    return inner[0] if len(inner) == 1 else None


def _stack_loop(f):
    """(loop, stack variable) : the for-loop in which one local list is both appended to and popped from"""
    for lp in [n for n in ast.walk(f) if isinstance(n, ast.For)]:
        app = {H.name_id(c.func.value) for c in ast.walk(lp) if isinstance(c, ast.Call) and isinstance(c.func, ast.Attribute) and c.func.attr == "append" and isinstance(c.func.value, ast.Name)}
        pop = {H.name_id(c.func.value) for c in ast.walk(lp) if isinstance(c, ast.Call) and isinstance(c.func, ast.Attribute) and c.func.attr == "pop" and isinstance(c.func.value, ast.Name)}
        both = app & pop
        if len(both) == 1:
            return lp, both.pop()
    return None, None


def _dyck(n):
    """all well-nested open/close sequences of n events (ids in opening order): [('o'|'c', id), ...]"""
    out = []

    def rec(seq, stack, nxt):
        if nxt == n and not stack:
            out.append(list(seq))
            return
        if nxt < n:
            rec(seq + [("o", nxt)], stack + [nxt], nxt + 1)
        if stack:
            rec(seq + [("c", stack[-1])], stack[:-1], nxt)
    rec([], [], 0)
    return out


def _scan_semantics(db, chk, mod, f, make_events, root_of, upto=None):
    """the stack scan of a builder decided by ABSTRACT RUNS: the statements from the stack's initialisation to the end of the scan loop are evaluated
    on every well-nested endpoint sequence of up to `upto` events (one of them of zero duration), with _add_edge hooked; the edges must be
    (innermost event open at that moment | root, event) in opening order.  Returns True / False / None (not understood); reports one obligation."""
    import copy
    from ..core.interp import Interp
    from ..core.values import Obj
    if upto is None:
        upto = 6 if chk.tier == "thorough" else 4          # thorough tier: all 196 well-nested sequences of up to six events
    lp = _stack_loop(f)[0] or _scan_loop(f)          # the loop that pushes and pops a local stack; else the one loop that adds edges (the stack may live in a helper object)
    where = mod.loc(f)
    if lp is None:
        return None
    if not isinstance(lp.iter, ast.Name):
        # the loop may walk the result of a helper of this module that hands back the sorted endpoints (`for e in self._sorted_events(df)`): the abstract runs then stand in for
        # that result.  Any other iterable (rows zipped from columns, itertuples, ...) is NOT a sequence of endpoints: another algorithm, not understood
        cal = lp.iter if isinstance(lp.iter, ast.Call) else None
        nm = (cal.func.attr if isinstance(cal.func, ast.Attribute) and isinstance(cal.func.value, ast.Name) and cal.func.value.id in ("self", "cls") else H.name_id(cal.func)) if cal is not None else None
        known_helper = nm is not None and any(q_ == nm or q_.endswith("." + nm) for q_ in mod.functions)
        if not known_helper:
            return None

    def find(block):
        for i, st in enumerate(block):
            if st is lp:
                return block, i
            if isinstance(st, (ast.FunctionDef, ast.AsyncFunctionDef, ast.ClassDef)):
                continue
            for fld in ("body", "orelse", "finalbody"):
                b = getattr(st, fld, None)
                if isinstance(b, list):
                    r = find(b)
                    if r:
                        return r
        return None
    hit = find(f.body)
    if hit is None:
        return None
    blk, i = hit
    evname = lp.iter.id if isinstance(lp.iter, ast.Name) else "__scan_events__"          # (the loop may walk the result of a helper call: the abstract runs hand it the endpoint sequence directly)
    # the scan's own state: the local containers / constants initialised in front of the loop (the stack among them); everything else there - timers, sorting,
    # checks of the array - belongs to other rules
    def fresh(v):
        return isinstance(v, ast.Constant) or (isinstance(v, ast.Name) and v.id in getattr(mod, "constants", {})) or (isinstance(v, (ast.List, ast.Set, ast.Tuple)) and not v.elts) or (isinstance(v, ast.Dict) and not v.keys) or \
            (isinstance(v, ast.Call) and H.name_id(v.func) in ("set", "list", "dict", "deque") and not v.args and not v.keywords) or \
            (isinstance(v, ast.Call) and H.name_id(v.func) in mod.classes and all(isinstance(a_, ast.Constant) for a_ in v.args) and all(isinstance(k_.value, ast.Constant) for k_ in v.keywords))          # a small state object
    stmts = [copy.deepcopy(s_) for s_ in blk[:i] if isinstance(s_, (ast.Assign, ast.AnnAssign)) and s_.value is not None and fresh(s_.value)
             and all(isinstance(t, ast.Name) and t.id != evname for t in (s_.targets if isinstance(s_, ast.Assign) else [s_.target]))] + [copy.deepcopy(lp)]
    if not isinstance(lp.iter, ast.Name):
        stmts[-1].iter = ast.copy_location(ast.Name(id=evname, ctx=ast.Load()), lp.iter)
    fn = ast.FunctionDef(name="__scan__", args=ast.arguments(posonlyargs=[], args=[ast.arg(arg="self"), ast.arg(arg=evname)], kwonlyargs=[], kw_defaults=[], defaults=[]),
                         body=stmts, decorator_list=[], returns=None, type_params=[])
    ast.copy_location(fn, lp)
    ast.fix_missing_locations(fn)
    q = "CallStackGraph.__scan__"
    mod.functions[q] = fn
    bad, unknown, n = [], 0, 0
    try:
        seqs = [s_ for k in range(1, upto + 1) for s_ in _dyck(k)]
        # identical spans: the comparators may leave their two CLOSE endpoints in either order (a tie the order laws allow because the scan pops anonymously) - the scan
        # is therefore also run with the closes of every pair of directly nested, adjacent-opening events exchanged, and must add the same edges
        extra = []
        for s_ in seqs:
            for i_ in range(len(s_) - 1):
                if s_[i_][0] == "c" and s_[i_ + 1][0] == "c":
                    a_, b_ = s_[i_][1], s_[i_ + 1][1]
                    oa, ob = s_.index(("o", a_)), s_.index(("o", b_))
                    if ob + 1 == oa:          # b opened right before a: candidates for identical spans
                        extra.append(s_[:i_] + [("c", b_), ("c", a_)] + s_[i_ + 2:])
        for seq in seqs + extra:
            edges = []

            def hook(I, name, pos, kw, node):
                if name.endswith("_add_edge"):
                    edges.append(tuple(pos[:2]))
                    # what _add_edge leaves behind in the node map (a scan that reads parent links back from it instead of keeping a stack sees them)
                    try:
                        recv = I.eval(node.func.value) if isinstance(node.func, ast.Attribute) else None
                    except Exception:
                        recv = None
                    nd = recv.attrs.get("nodes") if isinstance(recv, Obj) else None
                    if isinstance(nd, dict) and len(pos) >= 2 and all(isinstance(x_, int) for x_ in pos[:2]):
                        nd.setdefault(pos[0], Obj(f"node{pos[0]}", attrs={"parent": root_of, "children": [], "depth": 0}))
                        nd[pos[1]] = Obj(f"node{pos[1]}", attrs={"parent": pos[0], "children": [], "depth": 0})
                        nd[pos[0]].attrs["children"].append(pos[1])
                    return None
                return NotImplemented
            try:
                runs = Interp(db, call_hook=hook).explore(f"{mod.name}:{q}", lambda I, seq=seq: {"self": Obj("self", cls=(mod, "CallStackGraph"), attrs={"root_index": -7, "nodes": {}}), evname: make_events(seq)})
            except AnalysisError:
                runs = []
            n += 1
            st, exp = [], []
            for k, e_ in seq:
                if k == "o":
                    exp.append((st[-1] if st else root_of, e_))
                    st.append(e_)
                else:
                    st.pop()
            if len(runs) != 1 or runs[0].raised is not None or runs[0].path or not all(isinstance(a, int) and isinstance(b, int) for a, b in edges):
                unknown += 1
            elif edges != exp:
                bad.append({"endpoints": "".join("(" if k == "o" else ")" for k, _ in seq), "edges": edges, "expected": exp})
    finally:
        mod.functions.pop(q, None)
    verdict = False if bad else (None if unknown else True)
    chk.ob("C03.R3-builder", f"{mod.name}: [abstract runs] on every well-nested endpoint sequence of up to {upto} events the scan adds exactly the edges (innermost open event | root) -> event",
           verdict, where, found=bad[:3] or (f"{unknown} of {n} sequences not evaluated to concrete edges" if unknown else f"{n} sequences"), accepted="parent = top of the stack when the event opens (root when empty); every open pushed, every close pops",
           why="any other discipline (bottom of the stack, events not pushed, conditional pops) gives some event a wrong parent")
    return verdict


def _sort_on_every_path(chk, mod, f, srt, lp_pos, label, is_sort=None):
    """the comparator sort reaches the scan on EVERY path: it does not sit in one branch of a conditional (or in a handler) whose other branch falls through to the scan
    without it - an array ordered by anything else (np.lexsort, sort_values by several keys, the file order) is not the order the comparator tables were decided for"""
    if len(srt) != 1 or lp_pos is None:
        return
    par = {}
    for n_ in ast.walk(f):
        for c_ in ast.iter_child_nodes(n_):
            par[id(c_)] = n_
    is_sort = is_sort or (lambda c: isinstance(c, ast.Call) and H.name_id(c.func) == "sort_events")
    cur, child, bad = par.get(id(srt[0])), srt[0], []
    while cur is not None and cur is not f:
        if isinstance(cur, ast.If) and not any(n_ is lp_pos for n_ in ast.walk(cur)):
            mine = cur.body if any(child is n_ or any(child is d_ for d_ in ast.walk(n_)) for n_ in cur.body) else cur.orelse
            other = cur.orelse if mine is cur.body else cur.body
            leaves = bool(other) and isinstance(other[-1], (ast.Return, ast.Raise, ast.Continue))
            if not leaves and not any(is_sort(n_) for st_ in other for n_ in ast.walk(st_)):
                bad.append(f"if {ast.unparse(cur.test)[:80]}: the {'else' if mine is cur.body else 'if'} branch reaches the scan without the comparator sort")
        elif isinstance(cur, (ast.Try, ast.ExceptHandler, ast.While, ast.For)) and not any(n_ is lp_pos for n_ in ast.walk(cur)):
            bad.append(f"the sort sits inside a {type(cur).__name__.lower()} statement in front of the scan")
        child, cur = cur, par.get(id(cur))
    chk.ob("C03.R3-builder", f"{label}: the comparator sort is on EVERY path to the scan (no branch hands the scan an array ordered some other way)", None if bad else True, mod.loc(f), found=bad or "unconditional",
           accepted="sort_events(events) not under a condition, or in every branch", why="another ordering of the endpoints (a lexicographic fast path, the file order) is not the order whose tie rules were decided: identical spans, shared instants may nest differently")


def _loop_discipline(chk, mod, f, open_test_ok, sem=None):
    where = mod.loc(f)
    lp, stack_name = _stack_loop(f)
    if lp is None and sem is True:
        return _scan_loop(f)          # the stack lives in a helper object: decided by the abstract runs alone
    if lp is None:
        chk.ob("C03.R3-builder", f"{mod.name}: one scan loop pushing on and popping from a stack", None, where, found="no such loop")
        return None
    # every event of the thread reaches the scan: no exit in front of the loop that depends on HOW MANY events there are (other than "none")
    for r_ in [n for n in walk_no_nested(f) if isinstance(n, ast.Return) and n.lineno < lp.lineno]:
        guard = mod.parent.get(id(r_))
        gtest = ast.unparse(guard.test) if isinstance(guard, ast.If) else "<unconditional>"
        sizey = isinstance(guard, ast.If) and any((isinstance(x, ast.Call) and H.name_id(x.func) == "len") or (isinstance(x, ast.Attribute) and x.attr in ("empty", "shape", "size")) for x in ast.walk(guard.test))
        if sizey:
            empt = any(H.match(p_, guard.test) is not None for p_ in ("$d.empty", "len($d) == 0", "$d.shape[0] == 0", "not len($d)", "len($d) < 1", "$d.size == 0", "len($$d) == 0", "$$d.empty"))
            verdict = True if empt else False
        else:
            verdict = True if isinstance(guard, ast.If) and H.match("self.device_type == DeviceType.GPU", guard.test) is not None else None
        chk.ob("C03.R3-builder", f"{mod.name}: early exit in front of the scan (`if {gtest}: return`) does not skip a thread that has events", verdict, mod.loc(r_), found=gtest,
               accepted="device stacks (no call stack is built for a GPU stream) or an EMPTY event list", why="`len(df) < 2` returns before the single event of a one-event thread is added: it never appears in the tree")
    top = [s for s in lp.body if isinstance(s, ast.If)]
    if (len(top) != 1 or len(lp.body) != 1) and sem is True:
        return lp
    if len(top) != 1 or len(lp.body) != 1:
        chk.ob("C03.R3-builder", f"{mod.name}: loop body is one open/close decision", None, where, found=[type(s).__name__ for s in lp.body], accepted="if <open>: ... else: ...")
        return None
    iff = top[0]
    itest, ob, cb = H.norm_if(iff)
    chk.ob("C03.R3-builder", f"{mod.name}: the branch test distinguishes OPEN endpoints with the encoding's constant", open_test_ok(itest, lp), where, found=ast.unparse(iff.test), accepted="kind == OPEN")
    # A-normal form of the open branch: f(<a if c else b>, x)  ==  p = a if c else b; f(p, x)   (the first argument is evaluated first)
    ob2 = []
    for st_ in ob:
        if isinstance(st_, ast.Expr) and isinstance(st_.value, ast.Call) and st_.value.args and isinstance(st_.value.args[0], ast.IfExp) and not any(isinstance(x, ast.NamedExpr) for x in ast.walk(st_)):
            tmp = ast.Name(id="__hoisted_arg0", ctx=ast.Load())
            asg = ast.copy_location(ast.Assign(targets=[ast.Name(id="__hoisted_arg0", ctx=ast.Store())], value=st_.value.args[0]), st_)
            call = ast.copy_location(ast.Call(func=st_.value.func, args=[tmp] + list(st_.value.args[1:]), keywords=st_.value.keywords), st_.value)
            ob2 += [asg, ast.copy_location(ast.Expr(value=call), st_)]
        else:
            ob2.append(st_)
    ob = ob2
    is_stack_call = lambda c, names: isinstance(c, ast.Call) and isinstance(c.func, ast.Attribute) and c.func.attr in names and H.name_id(c.func.value) == stack_name
    pushes = [c for s in ob for c in ast.walk(s) if is_stack_call(c, ("append",))]
    edges = [c for s in ob for c in ast.walk(s) if isinstance(c, ast.Call) and isinstance(c.func, ast.Attribute) and c.func.attr == "_add_edge"]
    pops_open = [c for s in ob for c in ast.walk(s) if is_stack_call(c, ("pop", "clear", "remove", "insert"))]
    # parent definition: if <stack non-empty>: parent = stack[-1](.idx)  else: parent = <root>
    pd_ok, parent_var = False, None
    for pi in [s for s in ob if isinstance(s, ast.If)]:
        b = None
        ptest, pbody, porelse = H.norm_if(pi)
        for gpat in (f"len({stack_name}) > 0", f"{stack_name}", f"len({stack_name}) != 0", f"len({stack_name}) >= 1"):
            if H.match(gpat, ptest) is not None:
                b = H.Bindings()
                break
        if b is None or len(pbody) != 1 or len(porelse) != 1:
            continue
        for vpat in (f"$p = {stack_name}[-1]", f"$p = {stack_name}[-1].idx"):
            r = H.match(vpat, pbody[0])
            if r is not None and isinstance(porelse[0], ast.Assign) and H.name_id(porelse[0].targets[0]) == r["__mv_p"]:
                pd_ok, parent_var = True, r["__mv_p"]
    # the same decision written as a conditional expression
    if not pd_ok:
        for st_ in ob:
            if isinstance(st_, ast.Assign) and len(st_.targets) == 1 and isinstance(st_.targets[0], ast.Name) and isinstance(st_.value, ast.IfExp):
                ie = st_.value
                t_, b_, o_ = ie.test, ie.body, ie.orelse
                if isinstance(t_, ast.UnaryOp) and isinstance(t_.op, ast.Not):
                    t_, b_, o_ = t_.operand, o_, b_
                nonempty = any(H.match(gp, t_) is not None for gp in (f"len({stack_name}) > 0", f"{stack_name}", f"len({stack_name}) != 0", f"len({stack_name}) >= 1"))
                top = any(H.match(vp, b_) is not None for vp in (f"{stack_name}[-1]", f"{stack_name}[-1].idx"))
                if nonempty and top:
                    pd_ok, parent_var = True, st_.targets[0].id
    parent_defs = [ast.unparse(p)[:120] for p in ob if isinstance(p, ast.If) or (isinstance(p, ast.Assign) and isinstance(p.value, ast.IfExp))]
    # positively wrong: the parent is read from another position of the stack than its top
    wrong_pos = [ast.unparse(x)[:40] for st_ in ob for x in ast.walk(st_) if isinstance(x, ast.Subscript) and isinstance(x.ctx, ast.Load) and H.name_id(x.value) == stack_name
                 and not (isinstance(x.slice, ast.UnaryOp) and isinstance(x.slice.op, ast.USub) and isinstance(x.slice.operand, ast.Constant) and x.slice.operand.value == 1)]
    ob3 = lambda rule_, text_, verdict_, where_, **kw_: None if (verdict_ is None and sem is True) else chk.ob(rule_, text_, verdict_, where_, **kw_)          # (shape not recognised, semantics decided by the abstract runs)
    ob3("C03.R3-builder", f"{mod.name}: OPEN: parent = top of the stack (root when empty)", True if pd_ok and not wrong_pos else (False if wrong_pos else None), where, found=parent_defs + wrong_pos, accepted="parent = stack[-1] if stack else root",
           why="any other position (e.g. the bottom of the stack) makes the outermost open event the parent of everything")
    direct = lambda c: any(isinstance(st, ast.Expr) and st.value is c for st in ob)
    uncond = bool(pushes) and bool(edges) and direct(pushes[0]) and direct(edges[0])
    push_ok = len(pushes) == 1 and len(edges) == 1 and not pops_open and uncond
    ob3("C03.R3-builder", f"{mod.name}: OPEN: exactly one edge parent->event and exactly one push (both unconditional), no pop",
           (push_ok and [H.name_id(a) for a in edges[0].args[:1]] == [parent_var]) if (pd_ok or not push_ok) else None, where, found={"pushes": len(pushes), "edges": [ast.unparse(e) for e in edges], "pops": len(pops_open)}, accepted="_add_edge(parent, ev); stack.append(ev)  - every OPEN is pushed, because every CLOSE pops",
           why="not pushing some events (e.g. zero-duration ones) lets their CLOSE pop the enclosing event")
    pops = [c for s in cb for c in ast.walk(s) if is_stack_call(c, ("pop",))]
    other = [c for s in cb for c in ast.walk(s) if is_stack_call(c, ("append", "clear", "remove", "insert", "extend"))]
    guards = [s for s in cb if isinstance(s, ast.If)]
    guard_ok = True
    gtxt = []
    for g in guards:
        names = {n.id for n in ast.walk(g.test) if isinstance(n, ast.Name)}
        gtxt.append(ast.unparse(g.test))
        if not names <= {stack_name, "len"}:
            guard_ok = False
    pop_arg_ok = all((not p.args) or ast.unparse(p.args[0]) == "-1" for p in pops)
    ob3("C03.R3-builder", f"{mod.name}: CLOSE: exactly one pop of the top, conditional on nothing but the stack being non-empty", (len(pops) == 1 and not other and guard_ok and pop_arg_ok) if (pops or other) else None, where,
           found={"pops": [ast.unparse(p) for p in pops], "guards": gtxt, "other": len(other)}, accepted="if len(stack) > 0: stack.pop(-1)",
           why="a pop that depends on which event is on top leaves finished events on the stack (every later event gets them as parent)")
    return lp


def _builders(db, chk, new, old, OPEN_N, CLOSE_N, START_O, END_O):
    # ---------------- new builder
    f = H.inline_helpers(new, new.func("CallStackGraph._construct_call_stack_graph"))

    def open_new(test, lp):
        names = [H.name_id(e) for e in lp.target.elts] if isinstance(lp.target, ast.Tuple) else []
        kind_var = names[2] if len(names) == 4 else None
        return kind_var is not None and (H.match(f"{kind_var} == {OPEN_N}", test) is not None or H.match(f"{kind_var} == OPEN_END", test) is not None)
    sem_new = _scan_semantics(db, chk, new, f, lambda seq: [[i_, 0 if i_ == 1 else 5, OPEN_N if k_ == "o" else CLOSE_N, 10 * t_] for t_, (k_, i_) in enumerate(seq)], -7)
    lp = _loop_discipline(chk, new, f, open_new, sem_new)
    srt = [c for c in H.calls(f) if H.name_id(c.func) == "sort_events"]
    lp_pos = lp if lp is not None else _stack_loop(f)[0]          # (the loop's position is known even when its body was not recognised)
    chk.ob("C03.R3-builder", f"{NEW}: the analysed comparator sorts the endpoints before the scan", (len(srt) == 1 and srt[0].lineno < lp_pos.lineno) if lp_pos is not None else None, new.loc(f), found=[ast.unparse(s) for s in srt],
           accepted="sort_events(events) before the loop")
    _sort_on_every_path(chk, new, f, srt, lp_pos, NEW)
    se = new.func("sort_events")
    # the cmp function handed to cmp_to_key: nested in sort_events or a module-level helper
    scope = [se]
    for c_ in ast.walk(se):
        if isinstance(c_, ast.Call) and call_name(c_).endswith("cmp_to_key") and c_.args and isinstance(c_.args[0], ast.Name):
            ext = new.functions.get(c_.args[0].id)
            if ext is not None and ext is not se:
                scope.append(ext)
    uses = [n for sc in scope for n in ast.walk(sc) if isinstance(n, ast.Call) and H.name_id(n.func) == "_less_than"]
    cmpf = [n for sc in scope for n in ast.walk(sc) if isinstance(n, ast.IfExp)]
    ok = len(uses) == 1 and len(cmpf) == 1 and lit(cmpf[0].body) == -1 and lit(cmpf[0].orelse) == 1 and "cmp_to_key" in ast.unparse(se) and "sorted" in ast.unparse(se)
    # ... applied ONCE to the whole array: a[:] = sorted(a.tolist(), key=cmp_to_key(cmp)) is the only statement that writes the array
    arr = next((p_ for p_ in H.param_names(se)), None)
    writes = [n for n in walk_no_nested(se) if isinstance(n, (ast.Assign, ast.AugAssign)) and any(isinstance(t_, ast.Subscript) and H.name_id(t_.value) == arr for t_ in (n.targets if isinstance(n, ast.Assign) else [n.target]))]
    whole = [w for w in writes if H.match(f"{arr}[:] = sorted({arr}.tolist(), key=cmp_to_key($c))", w) is not None or H.match(f"{arr}[:] = sorted({arr}, key=cmp_to_key($c))", w) is not None]
    if ok and not (len(writes) == 1 and len(whole) == 1):
        ok = None          # another sorting scheme (e.g. per run of equal times): not understood
    if not ok and ok is not None and not (len(uses) == 1 and len(cmpf) == 1 and "cmp_to_key" in ast.unparse(se)):
        ok = None          # the key function is built some other way (a key class, functools helpers): not recognised - not wrong
    chk.ob("C03.R3-builder", f"{NEW}: sort_events = sorted(..., key=cmp_to_key(-1 if _less_than(x, y) else 1))", ok, new.loc(se), found=[ast.unparse(c) for c in cmpf], accepted="-1 if _less_than(x, y) else 1")
    melt = [c for c in H.calls(f) if isinstance(c.func, ast.Attribute) and c.func.attr == "melt"]
    rep = [c for c in H.calls(f) if isinstance(c.func, ast.Attribute) and c.func.attr == "replace"]
    if len(melt) == 1 and len(rep) == 1:
        kw = {k.arg: lit(k.value) for k in melt[0].keywords}
        ok = kw.get("id_vars") == ["index", "dur"] and kw.get("value_vars") == ["ts", "end"] and kw.get("var_name") == "kind" and kw.get("value_name") == "time"
        chk.ob("C03.R4-encoding", f"{NEW}: melt produces columns (index, dur, kind, time) = positions (_I_INDEX, _I_DUR, _I_KIND, _I_TIME)", ok, new.loc(melt[0]), found=kw,
               accepted={"id_vars": ["index", "dur"], "value_vars": ["ts", "end"], "var_name": "kind", "value_name": "time"})
        mp = _lit_const(new, rep[0].args[0]) if rep[0].args else None
        chk.ob("C03.R4-encoding", f"{NEW}: start endpoints are marked OPEN_END and end endpoints CLOSE_END", (mp == {"ts": OPEN_N, "end": CLOSE_N}) if isinstance(mp, dict) else None, new.loc(rep[0]), found=mp, accepted={"ts": OPEN_N, "end": CLOSE_N})
    else:
        chk.ob("C03.R4-encoding", f"{NEW}: endpoint array built by melt + replace", None, new.loc(f), found={"melt": len(melt), "replace": len(rep)})
    ends = [s for s in ast.walk(f) if isinstance(s, ast.Assign) and isinstance(s.targets[0], ast.Subscript) and lit(s.targets[0].slice) == "end"]
    ends_x = [H.expand(f, e) for e in ends]
    chk.ob("C03.R4-encoding", f"{NEW}: end = ts + dur", None if not ends else len(ends) == 1 and (H.match("$d['end'] = $d['ts'] + $d['dur']", ends_x[0]) or H.match("$d['end'] = $d['dur'] + $d['ts']", ends_x[0])) is not None, new.loc(f),
           found=[ast.unparse(e) for e in ends], accepted="_df['end'] = _df['ts'] + _df['dur']")
    if lp is not None and isinstance(lp.target, ast.Tuple):
        chk.ob("C03.R4-encoding", f"{NEW}: the scan unpacks rows in the array's column order", len(lp.target.elts) == 4, new.loc(lp), found=ast.unparse(lp.target), accepted="idx, dur, kind, time")
    sel = [n for n, b in H.find_match("$d['stream'].eq(-1)", f) + H.find_match("$d['stream'] == -1", f) + H.find_match("$d.stream.eq(-1)", f) + H.find_match("$d.stream == -1", f)]
    chk.ob("C03.R4-encoding", f"{NEW}: only host events (stream == -1) of the thread enter the stack", (len(sel) == 1) if sel else None, new.loc(f), found=[ast.unparse(s) for s in sel], accepted="df['stream'].eq(-1)")
    host_rows_complete(db, chk, "C03.R4-encoding")
    # ---------------- deprecated builder (used by critical-path analysis)
    g = H.inline_helpers(old, old.func("CallStackGraph._construct_call_stack_graph"))

    def open_old(test, lp):
        return H.match(f"{H.name_id(lp.target)}.type == EVENT_START", test) is not None
    from ..core.values import Obj as _Obj

    def old_events(seq):
        out = []
        for t_, (k_, i_) in enumerate(seq):
            o = _Obj("event", attrs={"idx": i_, "time": 10 * t_, "dur": 0 if i_ == 1 else 5, "type": START_O if k_ == "o" else END_O})
            o.attrs["__fields__"] = ["idx", "time", "dur", "type"]
            out.append(o)
        return out
    sem_old = _scan_semantics(db, chk, old, g, old_events, _const(old, "NULL_NODE_INDEX"))
    lp2 = _loop_discipline(chk, old, g, open_old, sem_old)
    # events.sort(key=cmp_to_key(compare_events))  |  events = sorted(<all events>, key=cmp_to_key(compare_events))
    srt2 = [c for c in H.calls(g) if ((isinstance(c.func, ast.Attribute) and c.func.attr == "sort") or H.name_id(c.func) == "sorted") and "compare_events" in ast.unparse(c)]
    lp2_pos = lp2 if lp2 is not None else _stack_loop(g)[0]
    ok_srt = len(srt2) == 1 and lp2_pos is not None and H.before(srt2[0], lp2_pos) and "cmp_to_key(compare_events)" in ast.unparse(srt2[0]) and not any(k.arg == "reverse" for k in srt2[0].keywords)
    sorts_any = [c for c in H.calls(g) if (isinstance(c.func, ast.Attribute) and c.func.attr == "sort") or H.name_id(c.func) == "sorted"]
    _sort_on_every_path(chk, old, g, srt2, lp2_pos, OLD, is_sort=lambda c: isinstance(c, ast.Call) and "compare_events" in ast.unparse(c))
    chk.ob("C03.R3-builder", f"{OLD}: the analysed comparator sorts the endpoints before the scan", (ok_srt if lp2_pos is not None else None) if srt2 else (False if sorts_any else None),
           old.loc(g), found=[ast.unparse(s)[:120] for s in (srt2 or sorts_any)], accepted="events.sort(key=cmp_to_key(compare_events))",
           why="another sort key is another order of the endpoints: the tie rules decided for compare_events no longer describe the stack that is built")
    ev_fields = None
    for st in old.tree.body:
        if isinstance(st, ast.Assign) and H.name_id(st.targets[0]) == "Event" and isinstance(st.value, ast.Call):
            ev_fields = lit(st.value.args[1])
    chk.ob("C03.R4-encoding", f"{OLD}: Event fields", ev_fields == ["idx", "time", "dur", "type"], OLD, found=ev_fields, accepted=["idx", "time", "dur", "type"])
    unit_g = [g] + [x for x in H.with_private_callees(old, old.func("CallStackGraph._construct_call_stack_graph")) if x is not old.func("CallStackGraph._construct_call_stack_graph")]
    evs = [c for c in H.calls(g) if H.name_id(c.func) == "Event"]
    if not evs:          # not written out in (the inlined) builder: look into the private helpers it calls (e.g. a generator of the boundary events)
        evs = [c for u_ in unit_g[1:] for c in H.calls(u_) if H.name_id(c.func) == "Event"]
    # loop variables that stand for a column of the row: `for a, b in zip(df["x"], df["y"])` (a -> x), `for row in df.itertuples()` (row.x -> x)
    colvar = {}
    for u_ in unit_g:
        for lp_ in [n for n in ast.walk(u_) if isinstance(n, ast.For)]:
            if isinstance(lp_.iter, ast.Call) and H.name_id(lp_.iter.func) == "zip" and isinstance(lp_.target, ast.Tuple) and len(lp_.target.elts) == len(lp_.iter.args):
                for tv, src in zip(lp_.target.elts, lp_.iter.args):
                    cn = lit(src.slice) if isinstance(src, ast.Subscript) else (src.attr if isinstance(src, ast.Attribute) else None)
                    if isinstance(src, ast.Call) and isinstance(src.func, ast.Attribute) and src.func.attr in ("tolist", "to_list", "to_numpy") and isinstance(src.func.value, ast.Subscript):
                        cn = lit(src.func.value.slice)
                    if isinstance(tv, ast.Name) and isinstance(cn, str):
                        colvar[tv.id] = cn

    def colname(a):
        if isinstance(a, ast.Attribute) and isinstance(a.value, ast.Name):
            return a.attr
        if isinstance(a, ast.Name):
            return colvar.get(a.id, a.id)
        return ast.unparse(a)
    if len(evs) == 1:
        # one constructor inside `for <a>, <b> in ((x1, y1), (x2, y2))`: unroll the literal pairs
        import copy as _copy
        gens = [gen for n in ast.walk(g) if isinstance(n, (ast.ListComp, ast.GeneratorExp)) and any(x is evs[0] for x in ast.walk(n)) for gen in n.generators] + \
               [n for n in ast.walk(g) if isinstance(n, ast.For) and any(x is evs[0] for x in ast.walk(n))]
        for gen in gens:
            it, tg = gen.iter, gen.target
            if isinstance(it, (ast.Tuple, ast.List)) and it.elts and all(isinstance(e_, (ast.Tuple, ast.List)) for e_ in it.elts) and isinstance(tg, (ast.Tuple, ast.List)) and all(isinstance(x, ast.Name) for x in tg.elts):
                unrolled = []
                for e_ in it.elts:
                    sub = dict(zip([x.id for x in tg.elts], e_.elts))

                    class _S(ast.NodeTransformer):
                        def visit_Name(self, n):
                            return _copy.deepcopy(sub[n.id]) if n.id in sub and isinstance(n.ctx, ast.Load) else n
                    unrolled.append(_S().visit(_copy.deepcopy(evs[0])))
                evs = unrolled
                break
    got = sorted(tuple(ast.unparse(a) for a in c.args) for c in evs)
    want = sorted([("row.index", "row.ts", "row.dur", "EVENT_START"), ("row.index", "row.end", "row.dur", "EVENT_END")])
    cols_got = sorted(tuple(colname(a) for a in c.args) for c in evs)
    oke = len(evs) == 2 and cols_got == sorted([("index", "ts", "dur", "EVENT_START"), ("index", "end", "dur", "EVENT_END")])
    recognised = len(evs) == 2 and all(c_ in ("index", "ts", "end", "dur") for row_ in cols_got for c_ in row_[:3])          # (every data argument read as a column of the row; plain locals from a zip over arrays are not followed by this rule)
    chk.ob("C03.R4-encoding", f"{OLD}: every row yields Event(id, ts, dur, START) and Event(id, end, dur, END)", True if oke else (False if recognised else None), old.loc(g), found=got, accepted=want,
           why="positional construction must agree with the field order the comparator reads")
    endo = [s for s in ast.walk(g) if isinstance(s, ast.Assign) and isinstance(s.targets[0], ast.Subscript) and lit(s.targets[0].slice) == "end"]
    duro = [s for s in ast.walk(g) if isinstance(s, ast.Assign) and isinstance(s.targets[0], ast.Subscript) and lit(s.targets[0].slice) == "dur"]
    endo = [H.expand(g, e) for e in endo]
    okend = len(endo) == 1 and any(H.match(p_, endo[0]) is not None for p_ in ("$d['end'] = $d['ts'] + $d['dur'].astype(int)", "$d['end'] = $d['ts'] + $d['dur']", "$d['end'] = $d['dur'].astype(int) + $d['ts']", "$d['end'] = $d['dur'] + $d['ts']"))
    okdur = len(duro) == 1 and any(H.match(p_, duro[0]) is not None for p_ in ("$d['dur'] = np.maximum($d['dur'], 0)", "$d['dur'] = np.maximum(0, $d['dur'])", "$d['dur'] = $d['dur'].clip(lower=0)"))
    chk.ob("C03.R4-encoding", f"{OLD}: end = ts + max(dur, 0)", True if (okend and okdur) else (False if (endo or duro) else None), old.loc(g), found=[ast.unparse(x) for x in duro + endo], accepted=["df['dur'] = np.maximum(df['dur'], 0)", "df['end'] = df['ts'] + df['dur']"])
    chk.ob("C03.R4-encoding", f"{OLD}: START/END constants differ", START_O != END_O, OLD, found=[START_O, END_O], accepted="distinct")


def _published_parent(db, chk, old):
    """CallGraph._construct_call_graph (builder behind critical-path analysis) publishes the parents into the frame: the stack parent for host
    events, the launch call (correlation link) for DEVICE rows only."""
    from ..core.specrun import run_spec
    from ..core import terms as T
    from ..core.values import Frame, to_term
    rule = "C03.R6-published-parent"
    f0 = old.func("CallGraph._construct_call_graph")
    where = old.loc(f0)
    f = H.inline_helpers(old, f0, qual="CallGraph._construct_call_graph")
    ups = [c for c in ast.walk(f) if isinstance(c, ast.Call) and isinstance(c.func, ast.Attribute) and c.func.attr == "update" and c.args]
    link_updates = []
    for c in ups:
        arg = H.expand(f, c.args[0])
        if isinstance(arg, ast.Call) and isinstance(arg.func, ast.Attribute) and arg.func.attr == "to_dict":
            src = arg.func.value
            if isinstance(src, ast.Name):
                ds = H.defs_of(f, src.id)
                src = ds[0] if len(ds) == 1 else src
            m_ = H.match("$d[$$pred]['index_correlation']", src) or H.match("$d.loc[$$pred, 'index_correlation']", src) or H.match("$d.loc[$$pred]['index_correlation']", src)
            if m_ is not None:
                link_updates.append((c, m_["__mv_d"], m_["__mvx_pred"]))
    if len(link_updates) != 1:
        chk.ob(rule, "one overwrite of the parents map from the correlation links of selected rows", None, where, found=[ast.unparse(c)[:100] for c in ups])
        return
    c, dname, pred = link_updates[0]
    srcf = f"def pred({dname}):\n    return {ast.unparse(pred)}\n"
    DF = ("param", "DF")
    runs = run_spec(db, srcf, "pred", lambda I: {dname: Frame(DF)})
    t = to_term(runs[0].ret) if len(runs) == 1 else None
    if t is None or T.has_opaque(t):
        chk.ob(rule, "row selection of the link overwrite understood", None, where, found=ast.unparse(pred))
        return
    t = t[1] if isinstance(t, tuple) and t and t[0] == "ser" else t
    tt, other = {}, None
    for sv in (-1, 0, 7):
        try:
            tt[sv] = bool(T.evaluate(t, lambda leaf, sv=sv: sv if leaf == T.col(DF, "stream") else (_ for _ in ()).throw(T.Unknown(leaf))))
        except T.Unknown as u:
            other = T.show(u.args[0])[:80]
            break
    chk.ob(rule, "the parent is taken from the correlation link for device rows only (selection reads the stream alone: false on -1, true on every other stream)", other is None and tt == {-1: False, 0: True, 7: True}, where,
           found={"predicate": ast.unparse(pred), "table": {str(k): v for k, v in tt.items()}, "also reads": other}, accepted="df['stream'].ne(-1)",
           why="links are mutual: a host launch call has a positive index_correlation too, and its published parent would become its own kernel instead of the enclosing operator")
    # the stack parents are published first and cover every node of every thread of the rank
    # (written as parents.update({...}) per stack, or as one comprehension over all stacks that initialises the map)
    recv = H.name_id(c.func.value)
    pos = {}

    def dfs(n):
        pos[id(n)] = len(pos)
        for ch in ast.iter_child_nodes(n):
            dfs(ch)
    dfs(f)
    first = [u.args[0] for u in ups if pos[id(u)] < pos[id(c)] and H.name_id(u.func.value) == recv and isinstance(u.args[0], ast.DictComp)]
    first += [a.value for a in ast.walk(f) if isinstance(a, (ast.Assign, ast.AnnAssign)) and isinstance(a.value, ast.DictComp) and pos[id(a)] < pos[id(c)]
              and any(H.name_id(t_) == recv for t_ in (a.targets if isinstance(a, ast.Assign) else [a.target]))]

    def host_parents(dc):
        g = dc.generators[-1]
        if not (isinstance(dc.key, ast.Name) and isinstance(dc.value, ast.Attribute) and dc.value.attr == "parent" and isinstance(dc.value.value, ast.Name)):
            return False
        if not (isinstance(g.target, ast.Tuple) and [H.name_id(e) for e in g.target.elts] == [dc.key.id, dc.value.value.id]):
            return False
        if not (isinstance(g.iter, ast.Call) and isinstance(g.iter.func, ast.Attribute) and g.iter.func.attr == "items" and "get_nodes()" in ast.unparse(g.iter.func.value)):
            return False
        if any(og.ifs for og in dc.generators[:-1]):
            return False
        return len(g.ifs) == 1 and (H.match(f"{dc.key.id} >= 0", g.ifs[0]) is not None or H.match(f"0 <= {dc.key.id}", g.ifs[0]) is not None)
    okf = len(first) == 1 and host_parents(first[0])
    chk.ob(rule, "host parents: every node id >= 0 of every stack of the rank maps to its stack parent, before the link overwrite", okf, where, found=[ast.unparse(u)[:140] for u in first],
           accepted="parents.update({node_id: node.parent for node_id, node in stack.get_nodes().items() if node_id >= 0})")
    # the parent column is published for every rank, under every option: the store is reached on every path of the per-rank iteration
    pstores = [n for n in ast.walk(f) if isinstance(n, ast.Assign) and any(isinstance(t_, ast.Subscript) and lit(t_.slice) == "parent" for t_ in n.targets)]
    if len(pstores) == 1:
        st_ = pstores[0]
        chain, cur = [], mod_parent(f, st_)
        while cur is not None and cur is not f:
            chain.append(cur)
            cur = mod_parent(f, cur)
        loop = next((x for x in chain if isinstance(x, (ast.For, ast.While))), None)
        conds = [" ".join(ast.unparse(x.test).split())[:80] for x in chain[:chain.index(loop)] if isinstance(x, ast.If)] if loop is not None else [" ".join(ast.unparse(x.test).split())[:80] for x in chain if isinstance(x, ast.If)]
        scope = loop.body if loop is not None else f.body
        jumps = []
        for x in (y for b_ in scope for y in ast.walk(b_)):
            if isinstance(x, (ast.Continue, ast.Break, ast.Return)) and pos[id(x)] < pos[id(st_)]:
                inner = any(isinstance(lp_, (ast.For, ast.While)) and lp_ is not loop and any(x is y for y in ast.walk(lp_)) for b_ in scope for lp_ in ast.walk(b_)) and not isinstance(x, ast.Return)
                if not inner:
                    g_ = mod_parent(f, x)
                    jumps.append(f"{type(x).__name__.lower()} under `{' '.join(ast.unparse(g_.test).split())[:60]}`" if isinstance(g_, ast.If) else type(x).__name__.lower())
        chk.ob(rule, "the parent column is stored for every rank on every path (no option or early exit stands between the stacks and the publication)", not conds and not jumps, where,
               found={"store under": conds, "exits in front of it": jumps} if (conds or jumps) else "unconditional store at the end of the per-rank iteration", accepted="df['parent'] = ... reached by every iteration",
               why="a guard clause for the optional depth column (`if disable_call_graph_depth(): continue`) also skips the parent column: the frame disagrees with the stacks")
    else:
        chk.ob(rule, "one store of the parent column", None, where, found=len(pstores))
    chk.floor(rule, 3)


def mod_parent(root, node):
    """parent of a node inside `root` (computed on demand: inlined copies are not in the module's parent map)"""
    for p_ in ast.walk(root):
        for ch in ast.iter_child_nodes(p_):
            if ch is node:
                return p_
    return None


def _thread_identity(db, chk, new, old, rule="C03.R7-thread-identity", only_builder_of_critical_path=False):
    """one call stack per host THREAD: the per-rank frame is split by (pid, tid) - a tid alone does not identify a thread (forked workers,
    pid namespaces, a host tid equal to a device stream id)"""
    cgm = db.mod("hta.common.trace_call_graph")
    for mod, q in ((old, "CallGraph._construct_call_graph"), (cgm, "CallGraph._build_call_stacks"))[:1 if only_builder_of_critical_path else 2]:
        f = H.inline_helpers(mod, mod.func(q), qual=q)
        gbs = [c for c in ast.walk(f) if isinstance(c, ast.Call) and isinstance(c.func, ast.Attribute) and c.func.attr == "groupby"]
        loops = [n for n in ast.walk(f) if isinstance(n, ast.For) and any(g is n.iter or any(g is x for x in ast.walk(n.iter)) for g in gbs)]
        keys = None
        if len(loops) == 1:
            g = next(g for g in gbs if g is loops[0].iter or any(g is x for x in ast.walk(loops[0].iter)))
            by = g.args[0] if g.args else H.kwarg(g, "by")
            keys = lit(by)
        ok = isinstance(keys, list) and sorted(keys) == ["pid", "tid"]
        chk.ob(rule, f"{mod.name}:{q}: the events are split into threads by (pid, tid)", ok if keys is not None else None, mod.loc(f), found=keys, accepted=["pid", "tid"],
               why="two processes of one rank may reuse a tid: their events, each properly nested, would be interleaved in ONE stack and get parents from the other thread")
    chk.floor(rule, 1 if only_builder_of_critical_path else 2)


def _host_thread_recognition(db, chk, new, old):
    """a thread whose rows all carry stream -1 is a HOST thread for both builders, whatever its pid / tid numbers are: the device inference a builder
    calls must decide from the stream column alone"""
    rule = "C03.R8-host-thread-recognition"
    cgm = db.mod("hta.common.trace_call_graph")
    for mod, user in ((old, "hta.common.call_stack"), (new, "hta.common.trace_call_stack / trace_call_graph")):
        res = db.resolve_name(mod, "infer_device_type")
        if res is None:
            chk.ob(rule, f"{user}: infer_device_type resolved", None, mod.name, found="unresolved")
            continue
        dm, q = res
        fdef = dm.functions.get(q)
        if fdef is None:
            chk.ob(rule, f"{user}: infer_device_type resolved to a function", None, mod.name, found=f"{dm.name}:{q}")
            continue
        bad = []
        for r_ in [n for n in ast.walk(fdef) if isinstance(n, ast.Return) and n.value is not None and ast.unparse(n.value).endswith("GPU")]:
            cur = dm.parent.get(id(r_))
            while cur is not None and cur is not fdef:
                if isinstance(cur, ast.If) and any(r_ is x for b in cur.body for x in ast.walk(b)):
                    for x in ast.walk(cur.test):
                        if (isinstance(x, ast.Attribute) and x.attr in ("pid", "tid")) or \
                                (isinstance(x, ast.Subscript) and H.str_const(x.slice) in ("pid", "tid")):
                            txt = " ".join(ast.unparse(cur.test).split())[:120]
                            if txt not in bad:
                                bad.append(txt)
                cur = dm.parent.get(id(cur))
        # also: a GPU decision assigned to a variable under such a test
        chk.ob(rule, f"builder in {user}: a thread is classified as a device stream by its stream ids alone (a host thread with pid 0 or tid 0 stays a host thread)", not bad, dm.loc(fdef),
               found=bad or "stream column only", accepted="GPU iff every stream id is positive; CPU iff every stream id is -1",
               why="`pid == 0 or tid == 0 -> GPU` skips a host thread numbered 0: none of its events appears in the call stack",
               key=f"{mod.name}->{dm.name}:{q}|gpu-by-pid-or-tid")
    chk.floor(rule, 2)


def _no_default_filter(db, chk, m):
    """'every host event of the thread is a node': the only events left out of a stack are those the CALLER's filter removes.  Along CallGraph.__init__ ->
    _construct_call_graph -> CallStackGraph.__init__ the filter parameter defaults to None, is forwarded unchanged and is applied only when it is not None."""
    rule = "C03.R9-no-default-filter"
    n = 0
    for q, f in sorted(m.functions.items()):
        if not isinstance(f, (ast.FunctionDef,)) or "filter_func" not in H.param_names(f):
            continue
        n += 1
        where = m.loc(f)
        d = H.param_default(f, "filter_func")
        chk.ob(rule, f"{q}: the event filter is optional and absent by default", d is None or (isinstance(d, ast.Constant) and d.value is None), where, found=ast.unparse(d) if d is not None else "required parameter",
               accepted="filter_func=None", why="a default filter silently removes events (e.g. zero-duration calls) from every stack built without an explicit filter")
        rb = [(p_, txt, v) for p_, txt, v in H.rebinds_of_params(f, ["filter_func"])]
        chk.ob(rule, f"{q}: the caller's filter is forwarded as given (never replaced, not even when it is None)", not rb, where, found=[x[1] for x in rb] or "not re-bound", accepted="no assignment to filter_func",
               why="`if filter_func is None: filter_func = ZeroDurationFilter` makes the default graph drop host events the property counts as nodes")
        for t, v, st_ in H.assignments(f):
            if H.is_self_attr(t, "filter_func"):
                chk.ob(rule, f"{q}: the stored filter is the parameter", H.name_id(v) == "filter_func", m.loc(st_), found=ast.unparse(v)[:80], accepted="self.filter_func = filter_func")
    chk.floor(rule, 4)


def host_rows_complete(db, chk, rule: str) -> None:
    """(shared with C13 / C16, whose numbers are read off this tree) ALL host events of the thread enter the stack construction of the builder behind the
    kernel-sequence / counter / timeline analyses: the row selector is the stream test alone (every host event, zero-duration ones included, becomes a node)"""
    new = db.mod(NEW)
    f = H.inline_helpers(new, new.func("CallStackGraph._construct_call_stack_graph"))
    sel = [n for n, b in H.find_match("$d['stream'].eq(-1)", f) + H.find_match("$d['stream'] == -1", f) + H.find_match("$d.stream.eq(-1)", f) + H.find_match("$d.stream == -1", f)]
    if len(sel) != 1:
        chk.ob(rule, f"{NEW}: the host-row selection that feeds the stack is recognised", None, new.loc(f), found=[ast.unparse(s_) for s_ in sel])
        return
    holder = next((n for n in ast.walk(f) if isinstance(n, ast.Subscript) and any(x is sel[0] for x in ast.walk(n.slice))), None)
    if holder is None:
        chk.ob(rule, f"{NEW}: the row selection that feeds the stack is recognised", None, new.loc(f), found=ast.unparse(sel[0]))
        return

    def conj(e):
        return conj(e.left) + conj(e.right) if isinstance(e, ast.BinOp) and isinstance(e.op, ast.BitAnd) else [e]
    parts = conj(holder.slice)
    extra = [ast.unparse(p_)[:80] for p_ in parts if p_ is not sel[0]]
    chk.ob(rule, f"{NEW}: every host event of the thread enters the stack (the selector is the stream test alone)", (not extra) if all(isinstance(p_, (ast.Call, ast.Compare)) for p_ in parts) else None, new.loc(holder),
           found=extra or "stream test only", accepted="df.loc[df['stream'].eq(-1)]", why="a further condition (e.g. dur > 0) leaves host events without a node: a zero-length launch call and the kernel beneath it drop out of the tree")
