"""C13 - call-graph attributes (depth, height, kernel totals) agree with the tree (structural clauses)."""
from __future__ import annotations

import ast

from ..core import terms as T
from ..core import asthelp as H
from ..core.interp import Interp, assume
from ..core.progdb import AnalysisError, walk_no_nested, lit, call_name
from ..core.values import Frame, Obj, PyTuple, to_term
from ..specs.merge import check_term
from ..specs.endcoherence import check_end_coherence

EXPLANATION = (
    "Symbolic evaluation of the three tree recurrences of trace_call_stack.CallStackGraph with their recursive calls abstracted (depth: node.depth = parent_depth + 1, "
    "children visited with node.depth, roots started at -2; height: device node 0, host node fold init 1 / step max(acc, child+1); kernel info: device leaf (1, dur, end-ts, ts, end), "
    "host fold count +, dur +, start min, end max, span = end - start over ALL children), of the defaults written by CallGraph._build_call_stacks / _normalize_stack_columns, of the "
    "backward-thread attachment (exactly-two-stacks guard, candidate order '## backward ##' then 'ProfilerStep#' decided by the events PRESENT on this rank's main thread, re-parenting "
    "iff ts >= parent.ts and end <= parent.end among the root's children), of the launch->activity link direction, and the end = ts + dur typestate for the end reads. The code cannot "
    "be executed under the installed pandas (np.unique on an object array); this analysis does not need to."
    " Later additions: typestate build -> link -> publish -> normalise, recompute before publish, rank-scoped stack selection, complete re-parenting move, kernel-info rows include event id 0."
)
CS = "hta.common.trace_call_stack"
CG = "hta.common.trace_call_graph"


def run(db, chk) -> None:
    cs, cg = db.mod(CS), db.mod(CG)
    _depth(db, chk, cs)
    _height(db, chk, cs)
    _kernel_info(db, chk, cs)
    _defaults(db, chk, cg)
    _link(db, chk, cs)
    _backward(db, chk, cs, cg)
    check_end_coherence(db, chk, "C13.R5-end-coherence")
    check_publish_order(db, chk, "C13.R6-publish-after-build")
    chk.floor("C13.R6-publish-after-build", 3)
    check_recompute_before_publish(db, chk, "C13.R7-recompute-before-publish")
    check_move_is_complete(db, chk, "C13.R8-move-is-complete")
    _roots(db, chk, cs)
    check_stack_labels(db, chk, "C13.R4-backward-attachment")
    _stack_index(db, chk, cg)
    from .c03 import host_rows_complete
    host_rows_complete(db, chk, "C13.R9-tree-complete")          # the attributes are those of the call tree: every host event of the thread must be a node of it


def _stack_index(db, chk, cg, rule="C13.R4-backward-attachment"):
    """the `stack_index` a thread's mapping row carries is the position of that thread's stack in self.call_stacks - the ONE list shared by all ranks that
    _connect_stacks / get_call_stacks subscript with it"""
    init = cg.func("CallGraph.__init__")
    cols = None
    for c in H.calls(init):
        if call_name(c).endswith("DataFrame"):
            for k in c.keywords:
                if k.arg == "columns" and isinstance(k.value, (ast.List, ast.Tuple)) and all(isinstance(e, ast.Constant) for e in k.value.elts) and "stack_index" in [e.value for e in k.value.elts]:
                    cols = [e.value for e in k.value.elts]
    f0 = cg.func("CallGraph._build_call_stacks")
    f = H.inline_helpers(cg, f0)
    where = cg.loc(f0)
    if cols is None:
        chk.ob(rule, "stack_index of a mapping row = position of the thread's stack in self.call_stacks", None, where, found="mapping columns not found")
        return
    pos = cols.index("stack_index")
    rows = [t for t in ast.walk(f) if isinstance(t, (ast.Tuple, ast.List)) and isinstance(t.ctx, ast.Load) and len(t.elts) == len(cols) and not any(isinstance(e, ast.Starred) for e in t.elts)
            and not all(isinstance(e, ast.Constant) for e in t.elts)]
    from_end = len(cols) - pos
    if not rows:          # a display with starred parts (`(*csi, label, index, root, 1)`) stored into the mapping: the column is addressed from the end
        rows = [st_.value for st_ in ast.walk(f) if isinstance(st_, ast.Assign) and isinstance(st_.value, (ast.Tuple, ast.List)) and "self.mapping" in ast.unparse(st_.targets[0])
                and any(isinstance(e_, ast.Starred) for e_ in st_.value.elts) and len(st_.value.elts) >= from_end and not any(isinstance(e_, ast.Starred) for e_ in st_.value.elts[-from_end:])]
    appends = [c for c in H.calls(f) if isinstance(c.func, ast.Attribute) and c.func.attr == "append" and H.is_self_attr(c.func.value, "call_stacks")]
    if len(rows) != 1 or len(appends) != 1:
        chk.ob(rule, "stack_index of a mapping row = position of the thread's stack in self.call_stacks", None, where, found={"row displays": len(rows), "appends to self.call_stacks": len(appends)})
        return
    e = rows[0].elts[-from_end]
    after = H.before(appends[0], rows[0])
    if isinstance(e, ast.Name):          # the position computed into a local first
        ds = H.defs_of(f, e.id)
        if len(ds) == 1:
            holder = next((st_ for st_ in ast.walk(f) if isinstance(st_, (ast.Assign, ast.AnnAssign)) and st_.value is ds[0]), None)
            e = ds[0]
            if holder is not None:
                after = H.before(appends[0], holder)
    txt = ast.unparse(e).replace(" ", "")
    good = ("len(self.call_stacks)-1" if after else "len(self.call_stacks)")
    m_len = H.match("len($$x) - $k", e) or H.match("len($$x)", e)
    other_counter = m_len is not None and "self.call_stacks" not in txt
    chk.ob(rule, "stack_index of a mapping row = position of the thread's stack in self.call_stacks (the list shared by all ranks)", True if txt == good else (False if (other_counter or txt in ("len(self.call_stacks)-1", "len(self.call_stacks)")) else None), where,
           found=ast.unparse(e), accepted=good + (" (row built after the append)" if after else " (row built before the append)"),
           why="a count that restarts with every rank (rows collected so far, threads of this rank) addresses ANOTHER rank's stacks from the second rank on: its autograd thread is never attached and the kernels below it are missing from the step's totals")


def _node(name, **attrs):
    return Obj(name, attrs=attrs)


def _self_recursion(I, name: str) -> bool:
    """the call is the running function calling ITSELF (the recursive descent of a tree walk, written as a nested closure or as a method)"""
    if not I.stack:
        return False
    top = I.stack[-1].qualname.split(".")[-1]
    if top == "__call__" and name.endswith(".__call__"):          # a callable object calling itself: self(child)
        return I.stack[-1].qualname == name or I.stack[-1].qualname.endswith("." + name)
    return top == name.split(".")[-1] and not top.startswith("<") and (name == top or name.startswith(("self.", "cls.")))


def _tree_concrete(db, chk, cs):
    """_compute_depth / _compute_height run (recursion followed) on a small concrete tree with a device activity at the bottom and stale values everywhere:
    root(-1) -> A(0) -> {B(1) -> K(3, GPU), C(2)}.  Afterwards depth = number of ancestors below the root sentinel, height = 0 for the device activity, 1 for a childless host
    node, else 1 + the tallest child."""
    GPU, CPU = ("enum", "DeviceType", "GPU"), ("enum", "DeviceType", "CPU")
    spec = {-1: (-2, [0], CPU), 0: (-1, [1, 2], CPU), 1: (0, [3], CPU), 2: (0, [], CPU), 3: (1, [], GPU)}
    verdicts = {}
    for meth, attr, want, rule in (("_compute_depth", "depth", {-1: -1, 0: 0, 1: 1, 2: 1, 3: 2}, "C13.R1-depth"), ("_compute_height", "height", {0: 2, 1: 1, 2: 1, 3: 0}, "C13.R1-height")):
        fn = cs.func(f"CallStackGraph.{meth}")
        state = {}

        def args(I, fn=fn):
            nodes = {k: _node(f"node{k}", parent=p_, children=list(ch), depth=77, height=77, device=dev) for k, (p_, ch, dev) in spec.items()}
            state["nodes"] = nodes
            out = {"self": Obj("self", cls=(cs, "CallStackGraph"), attrs={"nodes": nodes, "root_index": -1})}
            for p_ in H.param_names(fn)[1:]:
                out[p_] = None if "root" in p_ else False
            return out
        try:
            runs = [r for r in Interp(db).explore(f"{CS}:CallStackGraph.{meth}", args) if r.raised is None]
        except AnalysisError:
            runs = []
        nodes = state.get("nodes") or {}
        got = {k: n.attrs.get(attr) for k, n in nodes.items() if k in want}
        concrete = len(runs) == 1 and not runs[0].path and all(isinstance(v, int) and not isinstance(v, bool) for v in got.values())
        chk.ob(rule, f"[abstract run] {meth} on a small concrete tree (a device activity below two host levels, stale values before): every node gets its {attr}", (got == want) if concrete else None, cs.loc(fn),
               found=got if concrete else f"{len(runs)} path(s), values not concrete", accepted=want,
               why="a walk that does not descend into device activities leaves them with the value they had before the tree was re-linked")
        verdicts[attr] = (got == want) if concrete else None
    return verdicts


_SEM = {}


def _depth(db, chk, cs):
    _SEM.clear()
    _SEM.update(_tree_concrete(db, chk, cs))
    rule = "C13.R1-depth"
    ref = f"{CS}:CallStackGraph._compute_depth"
    fn = cs.func("CallStackGraph._compute_depth")
    where = cs.loc(fn)
    rec = []

    def hook(I, name, pos, kw, node):
        if _self_recursion(I, name):
            rec.append([to_term(p) for p in pos])
            return None
        return NotImplemented

    IDX, KID = T.P("IDX"), T.P("KID")
    nodes = lambda: {IDX: _node("node", depth=T.P("old_depth"), children=[KID]), KID: _node("kid", depth=T.P("kid_depth"), children=[])}
    I = Interp(db, call_hook=hook)
    runs = [r for r in I.explore(ref, lambda I: {"self": Obj("self", cls=(cs, "CallStackGraph"), attrs={"nodes": nodes(), "root_index": IDX}), "root_index": None, "apply_whole_graph": False})
            if r.raised is None]
    chk.analysed_add("functions", ref)
    if not rec and _SEM.get("depth") is True:
        return          # not written as a recursive walk (e.g. an explicit stack): decided by the abstract run alone; the recurrence rules below have nothing to read
    if len(runs) != 1:
        chk.ob(rule, "_compute_depth: one path for a present root", None, where, found=len(runs))
        return
    nd = runs[0].env["self"].attrs["nodes"][IDX]
    if _SEM.get("depth") is True and (to_term(nd.attrs.get("depth")) != T.C(-1) or rec != [[KID, T.C(-1)]]):
        return          # another recursion protocol (e.g. the walker is handed the node's OWN depth): decided by the abstract run; the recurrence below describes the parent-depth protocol only
    # the root is entered with parent depth -2 (the root sentinel gets -1, top-level events 0)
    check_term(chk, rule, "a node's depth = the depth passed down by its parent + 1 (roots are entered with -2, so top-level events get 0)", where, to_term(nd.attrs.get("depth")), [T.C(-1)],
               "depth must equal the number of ancestors")
    chk.ob(rule, "children are visited with the node's own (new) depth", rec == [[KID, T.C(-1)]], where, found=[[T.show(x) for x in r] for r in rec], accepted=[["$KID", "-1"]],
           why="passing parent_depth again gives every descendant the same depth")
    # whole-graph mode: every root returned by _get_all_root_indices is entered the same way (its depth becomes -1)
    rec.clear()

    def hook2(I, name, pos, kw, node):
        if name.endswith("_get_all_root_indices"):
            return [IDX]
        return hook(I, name, pos, kw, node)
    I2 = Interp(db, call_hook=hook2)
    runs2 = [r for r in I2.explore(ref, lambda I: {"self": Obj("self", cls=(cs, "CallStackGraph"), attrs={"nodes": nodes(), "root_index": T.P("OTHER_ROOT")}), "root_index": None, "apply_whole_graph": True})
             if r.raised is None]
    if len(runs2) != 1:
        chk.ob(rule, "whole-graph mode: one path", None, where, found=len(runs2))
    else:
        nd2 = runs2[0].env["self"].attrs["nodes"][IDX]
        check_term(chk, rule, "whole-graph mode: every root is entered with parent depth -2 as well (root depth -1)", where, to_term(nd2.attrs.get("depth")), [T.C(-1)])


def _height(db, chk, cs):
    rule = "C13.R1-height"
    ref = f"{CS}:CallStackGraph._compute_height"
    fn = cs.func("CallStackGraph._compute_height")
    where = cs.loc(fn)
    IDX, K1, K2 = T.P("IDX"), T.P("K1"), T.P("K2")

    seen_rec = []

    def hook(I, name, pos, kw, node):
        if _self_recursion(I, name):
            seen_rec.append(1)
            return ("H", to_term(pos[0]))
        return NotImplemented

    for dev, kids, want in (("GPU", [K1], T.C(0)), ("CPU", [], T.C(1)), ("CPU", [K1, K2], T.max2(T.max2(T.C(1), T.add(("H", K1), T.C(1))), T.add(("H", K2), T.C(1))))):
        nodes = {IDX: _node("node", device=("enum", "DeviceType", dev), children=list(kids), height=T.P("old"))}
        I = Interp(db, call_hook=hook)
        runs = [r for r in I.explore(ref, lambda I: {"self": Obj("self", cls=(cs, "CallStackGraph"), attrs={"nodes": nodes, "root_index": IDX}), "root_index": None, "apply_whole_graph": False})
                if r.raised is None]
        tag = f"{'device' if dev == 'GPU' else 'host'} node with {len(kids)} children"
        if kids and dev == "CPU" and not seen_rec and _SEM.get("height") is True:
            continue          # not a recursive walk: the recurrence with abstracted children has nothing to read; decided by the abstract run
        if len(runs) != 1:
            chk.ob(rule, f"{tag}: single outcome", None, where, found=len(runs))
            continue
        h = to_term(runs[0].env["self"].attrs["nodes"][IDX].attrs.get("height"))
        check_term(chk, rule, f"{tag}: height", where, h, [want], "device activities have height 0, childless host nodes 1, otherwise 1 + the tallest child")
    chk.analysed_add("functions", ref)
    chk.floor(rule, 2)


def _kernel_info(db, chk, cs, rule="C13.R1-kernel-info"):
    ref = f"{CS}:CallStackGraph._add_kernel_info_to_cpu_ops"
    fn = cs.func("CallStackGraph._add_kernel_info_to_cpu_ops")
    where = cs.loc(fn)
    chk.analysed_add("functions", ref)
    IDX, K1, K2 = T.P("IDX"), T.P("K1"), T.P("K2")
    FD = ("param", "FD")
    fields = ["count", "sum_dur", "kernel_span", "first_start", "last_end"]

    def hook(I, name, pos, kw, node):
        if _self_recursion(I, name):
            k = to_term(pos[0])
            return Obj("cinfo", attrs={f: ("KI", k, f) for f in fields})
        if name.endswith("DataFrame.from_dict"):
            return Frame(("kernelinfo",))
        return NotImplemented

    def explore(dev, kids):
        nodes = {IDX: _node("node", device=("enum", "DeviceType", dev), children=list(kids))}
        I = Interp(db, call_hook=hook, decide=assume(("hascol", FD, "num_kernels"), T.cmp(">=", IDX, T.C(0))))
        runs = I.explore(ref, lambda I: {"self": Obj("self", cls=(cs, "CallStackGraph"), attrs={"nodes": nodes, "root_index": IDX, "full_df": Frame(FD), "identity": "id"}),
                                         "root_index": None, "apply_whole_graph": False})
        return [r for r in runs if r.raised is None]

    # host node with two children
    runs = explore("CPU", [K1, K2])
    infos = []
    for r in runs:
        ki = r.env.get("kernel_info")
        if isinstance(ki, dict) and IDX in ki and isinstance(ki[IDX], Obj):
            infos.append(ki[IDX])
    if not infos:
        chk.ob(rule, "host node: kernel info recorded", None, where, found=len(runs))
    else:
        a = infos[0].attrs
        ki = lambda k, f: ("KI", k, f)
        tmax = None
        start = to_term(a.get("first_start"))
        tm = [s for s in T.subterms(start) if isinstance(s, tuple) and s and s[0] in ("lin", "agg", "mul") and "max" in T.show(s)]
        TMAX = T.mul(T.C(2), T.agg("max", T.col(FD, "ts"), (FD, T.TRUE, None)))
        check_term(chk, rule, "host node: num_kernels = sum of the children's counts", where, to_term(a.get("count")), [T.add(ki(K1, "count"), ki(K2, "count"))])
        check_term(chk, rule, "host node: kernel_dur_sum = sum of the children's duration sums", where, to_term(a.get("sum_dur")), [T.add(ki(K1, "sum_dur"), ki(K2, "sum_dur"))])
        exp_start = T.min2(T.min2(TMAX, ki(K1, "first_start")), ki(K2, "first_start"))
        exp_end = T.max2(T.max2(T.C(-1), ki(K1, "last_end")), ki(K2, "last_end"))
        check_term(chk, rule, "host node: first_kernel_start = MIN over all children's first starts", where, start, [exp_start],
                   "taking the first child that owns kernels is wrong when a later-launched kernel on another stream starts earlier")
        check_term(chk, rule, "host node: last_kernel_end = MAX over all children's last ends", where, to_term(a.get("last_end")), [exp_end])
        check_term(chk, rule, "host node: kernel_span = last_kernel_end - first_kernel_start", where, to_term(a.get("kernel_span")), [T.sub(exp_end, exp_start)])
    # every event id (>= 0, id 0 included: the first event of the file) keeps its kernel info on the way into the frame
    KI = ("kernelinfo",)
    for r in runs[:1]:
        flt = [e for e in r.events if e["kind"] == "filter" and e.get("base") == KI]
        for e in flt:
            try:
                tt = {v: bool(T.evaluate(e["pred"], lambda leaf, v=v: v if leaf == ("index", KI) else (_ for _ in ()).throw(T.Unknown(leaf)))) for v in (0, 1, 7)}
                okf = tt == {0: True, 1: True, 7: True}
            except T.Unknown as u:
                tt, okf = {"reads": T.show(u.args[0])[:80]}, None
            chk.ob(rule, "the kernel-info rows written to the frame include every event id >= 0 (id 0 is the first event of the file)", okf, where, found={"predicate": T.show(e["pred"])[:100], "table": {str(k_): v_ for k_, v_ in tt.items()}},
                   accepted="index >= 0 (only the negative per-thread roots are dropped)", why="`index > 0` leaves the first event of the file with num_kernels 0: an operator instance that opens the trace is never counted")
    # device leaf: the whole method evaluated on a graph whose root is one device activity (whatever closure / method / function object does the walk)
    # (a host root with ONE device child K1; the walk's own recursion is followed - it ends at the leaf)
    def leaf_hook(I, name, pos, kw, node):
        if name.endswith("DataFrame.from_dict"):
            return Frame(("kernelinfo",))
        return NotImplemented
    try:
        lruns = [r for r in Interp(db, call_hook=leaf_hook, decide=assume(("hascol", FD, "num_kernels"), T.cmp(">=", IDX, T.C(0)), T.cmp(">=", K1, T.C(0)))).explore(
            ref, lambda I: {"self": Obj("self", cls=(cs, "CallStackGraph"), attrs={"nodes": {IDX: _node("node", device=("enum", "DeviceType", "CPU"), children=[K1]),
                                                                                              K1: _node("leaf", device=("enum", "DeviceType", "GPU"), children=[])},
                                                                                    "root_index": IDX, "full_df": Frame(FD), "identity": "id"}), "root_index": None, "apply_whole_graph": False})
                 if r.raised is None]
    except AnalysisError:
        lruns = []
    leaf_runs = []
    for r in lruns:
        ki_ = r.env.get("kernel_info")
        if isinstance(ki_, dict) and K1 in ki_ and isinstance(ki_[K1], Obj) and to_term(ki_[K1].attrs.get("count")) == T.C(1):
            leaf_runs.append((r, ki_[K1]))
    dctx = None
    # ... under a condition that only asks whether the activity is KNOWN (its id is in the lookup tables), never what its values are
    for r, _o in leaf_runs[:1]:
        conds = [c for c in r.path if T.find(c, lambda s_: s_ == K1) and not (isinstance(c, tuple) and c and c[0] == "cmp")]          # (idx >= 0 is the caller's assumption)
        membership = lambda c: isinstance(c, tuple) and c and c[0] == "in" and c[1] == K1
        value_tests = [c for c in conds if not membership(c) and T.find(c, lambda s_: isinstance(s_, tuple) and len(s_) == 3 and s_[0] == "at")]
        other = [c for c in conds if not membership(c) and c not in value_tests]
        chk.ob(rule, "device leaf: an activity counts as a kernel whenever its id is in the lookup tables (no test on its duration / times)", (not value_tests) if not other else None, where,
               found=[T.show(c)[:120] for c in conds], accepted="idx in s_start",
               why="`if s_dur.get(idx):` treats a zero-length activity as unknown: its ancestors lose a kernel (num_kernels, first/last kernel times, span)")
    if not leaf_runs:
        chk.ob(rule, "device leaf: kernel info returned", None, where, found=len(lruns))
    else:
        a = {k: to_term(v) for k, v in leaf_runs[0][1].attrs.items() if k != "__fields__"}
        fs = a.get("first_start")
        if isinstance(fs, tuple) and len(fs) == 3 and fs[0] == "at" and isinstance(fs[1], tuple) and len(fs[1]) == 3 and fs[1][0] == "loc" and fs[1][2] == K1:
            dctx = fs[1][1]
        at = lambda c: ("at", ("loc", dctx, K1), T.col(FD, c))
        want = {"count": T.C(1), "sum_dur": at("dur"), "kernel_span": T.sub(at("end"), at("ts")), "first_start": at("ts"), "last_end": at("end")}
        chk.ob(rule, "device leaf: (count, dur, span, start, end) = (1, its dur, end - ts, its ts, its end) read at the node's own id", (a == want) if dctx is not None else None, where,
               found={k: T.show(v)[:70] for k, v in a.items()}, accepted={k: T.show(v)[:70] for k, v in want.items()})
    # the lookup tables: rows of this graph's frame on device streams (decided on the row set the leaf's values were read from)
    okt = None
    if dctx is not None and isinstance(dctx, tuple) and len(dctx) == 3 and dctx[0] == FD:
        conj = list(dctx[1][1]) if dctx[1][0] == "and" else [dctx[1]]
        st_only = [c for c in conj if T.find(c, lambda s_: s_ == T.col(FD, "stream"))]
        rest = [c for c in conj if c not in st_only]
        try:
            tt = {sv: bool(T.evaluate(T.and_(*st_only), lambda leaf, sv=sv: sv if leaf == T.col(FD, "stream") else (_ for _ in ()).throw(T.Unknown(leaf)))) for sv in (-1, 0, 7)} if st_only else None
        except T.Unknown:
            tt = None
        okt = tt == {-1: False, 0: True, 7: True} and all(c[0] == "in" and c[1] == T.col(FD, "index") for c in rest if isinstance(c, tuple) and c)
    chk.ob(rule, "the kernel lookup tables hold the device rows of this graph (stream != -1), columns ts / end / dur", okt, where,
           found=T._ctx(dctx)[:200] if dctx is not None else "row set of the lookup tables not identified", accepted="ops.loc[ops.stream.ne(-1)][['ts', 'dur', 'end']]")
    # write-back agreement (names of the stack columns <-> namedtuple fields)
    pairs = {}
    for n in ast.walk(H.unroll_literal_loops(cs, fn)):
        if isinstance(n, ast.Assign):
            for col in ("num_kernels", "kernel_dur_sum", "kernel_span", "first_kernel_start", "last_kernel_end"):
                for fld in ("count", "sum_dur", "kernel_span", "first_start", "last_end"):
                    if H.match(f"self.full_df.loc[$d.index, '{col}'] = $d['{fld}'].astype($$t)", n) is not None or H.match(f"self.full_df.loc[$d.index, '{col}'] = $d['{fld}']", n) is not None:
                        pairs[col] = fld
    want = {"num_kernels": "count", "kernel_dur_sum": "sum_dur", "kernel_span": "kernel_span", "first_kernel_start": "first_start", "last_kernel_end": "last_end"}
    chk.ob(rule, "each stack column is written from the like-meaning field of the kernel info", pairs == want, where, found=pairs, accepted=want, why="a swapped pair reports e.g. the span as the duration sum")
    nt = [c for c in ast.walk(fn) if isinstance(c, ast.Call) and H.name_id(c.func) == "namedtuple"]
    order = [lit(x.args[1]) for x in nt if len(x.args) > 1]
    # ... or a NamedTuple class of the module whose instances the function builds
    units = list(H.with_private_callees(cs, fn, depth=2))
    for cname, cdef in cs.classes.items():          # (function objects the method instantiates: their methods belong to the walk)
        if any(isinstance(c, ast.Call) and H.name_id(c.func) == cname for c in ast.walk(fn)):
            units += [g for q_, g in cs.functions.items() if q_.startswith(cname + ".")]
    for cname, cdef in cs.classes.items():
        if any(isinstance(b, ast.Name) and b.id == "NamedTuple" for b in cdef.bases) and any(isinstance(c, ast.Call) and H.name_id(c.func) == cname for u_ in units for c in ast.walk(u_)):
            order.append(" ".join(st_.target.id for st_ in cdef.body if isinstance(st_, ast.AnnAssign) and isinstance(st_.target, ast.Name)))
    chk.ob(rule, "KernelInfo field order", (order == ["count sum_dur kernel_span first_start last_end"]) if order else None, where, found=order, accepted="count sum_dur kernel_span first_start last_end")
    chk.floor(rule, 7)


def _defaults(db, chk, cg):
    rule = "C13.R2-defaults"
    f = cg.func("CallGraph._build_call_stacks")
    init = {}
    for n in H.unroll_literal_loops(cg, f).body:
        if isinstance(n, ast.Assign) and isinstance(n.targets[0], ast.Subscript) and ast.unparse(n.targets[0].value) == "df.loc":
            key = n.targets[0].slice
            if isinstance(key, ast.Tuple) and ast.unparse(key.elts[0]) == "df.index" and isinstance(key.elts[1], ast.Constant):
                init[key.elts[1].value] = lit(n.value)
    want = {"depth": -1, "height": -1, "parent": -1, "num_kernels": 0, "kernel_dur_sum": 0, "kernel_span": 0, "first_kernel_start": -1, "last_kernel_end": -1}
    chk.ob(rule, "stack columns are initialised on every row before the stacks are built", (init == want) if init else None, cg.loc(f), found=init, accepted=want,
           why="events without kernels must report (0, 0, -1, -1, 0)")
    cols = lit(cg.cls("CallGraph").body[[i for i, s in enumerate(cg.cls("CallGraph").body) if isinstance(s, (ast.Assign, ast.AnnAssign)) and "stack_columns" in ast.unparse(s)][0]].value) \
        if any(isinstance(s, (ast.Assign, ast.AnnAssign)) and "stack_columns" in ast.unparse(s) for s in cg.cls("CallGraph").body) else None
    chk.ob(rule, "CallGraph.stack_columns lists the eight stack columns", cols is not None and set(cols) == set(want), CG, found=cols, accepted=sorted(want))
    ref = f"{CG}:CallGraph._normalize_stack_columns"
    g = cg.func("CallGraph._normalize_stack_columns")
    DF = ("param", "DF")
    I = Interp(db)
    runs = [r for r in I.explore(ref, lambda I: {"df": Frame(DF)}) if r.raised is None]
    done = 0
    for r in runs:
        fr = r.env.get("df")
        if not isinstance(fr, Frame) or "kernel_span" not in fr.cols:
            continue
        done += 1
        nk = ("fillna", T.col(DF, "num_kernels"), T.C(-1))
        labels = ("labels", ("index", DF), (DF, T.cmp("<=", nk, T.C(0)), None))
        for c, v in (("kernel_dur_sum", 0), ("kernel_span", 0), ("first_kernel_start", -1), ("last_kernel_end", -1)):
            check_term(chk, rule, f"rows without kernels (num_kernels <= 0) get {c} = {v}", cg.loc(g), fr.col(c), [("scatter", labels, T.C(v), T.col(DF, c))],
                       "events with no device activity beneath them report (0, 0, -1, -1)")
    chk.ob(rule, "_normalize_stack_columns analysed on the path where the stack columns exist", done == 1, cg.loc(g), found=done, accepted=1)
    chk.analysed_add("functions", ref)
    chk.floor(rule, 6)


def _link(db, chk, cs):
    lk = cs.func("CallStackGraph._link_cpu_and_gpu")
    # decided by evaluating _link_cpu_and_gpu on symbolic link / event frames: which (parent, child, device) triples reach _add_edge, for which link rows
    CORR, DFT = ("param", "CORR"), ("param", "DF")
    edges = []

    def hook(I, name, pos, kw, node):
        if name.endswith("_add_edge"):
            edges.append(([to_term(p_) for p_ in pos], {k: to_term(v) for k, v in kw.items()}))
            return None
        return NotImplemented
    ae_params = [p_ for p_ in H.param_names(cs.func("CallStackGraph._add_edge")) if p_ != "self"]
    try:
        runs = [r for r in Interp(db, call_hook=hook).explore(f"{CS}:CallStackGraph._link_cpu_and_gpu", lambda I: {"self": Obj("self", cls=(cs, "CallStackGraph"), attrs={
            "correlations": Frame(CORR, known=["cpu_index", "gpu_index"]), "df": Frame(DFT)})}) if r.raised is None]
    except AnalysisError:
        runs = []
    ok = okrows = None
    found_e, found_r = f"{len(runs)} path(s), {len(edges)} _add_edge call(s)", None
    if len(runs) == 1 and len(edges) == 1 and len(ae_params) >= 3:
        pos, kw = edges[0]
        b = dict(zip(ae_params, pos))
        b.update(kw)
        par, kid, dev = b.get(ae_params[0]), b.get(ae_params[1]), b.get(ae_params[2])

        def column_of(t):
            """the link column a row field stands for: row[i] of frame.to_numpy() / an itertuples attribute / a zip over column lists"""
            if isinstance(t, tuple) and len(t) == 3 and t[0] == "getitem" and isinstance(t[1], tuple) and t[1][0] == "elem" and t[1][1][0] == "to_numpy" and T.is_const(t[2]):
                cols = t[1][1][2]
                return (cols[t[2][1]][1], t[1][1][1]) if isinstance(t[2][1], int) and 0 <= t[2][1] < len(cols) else None
            if isinstance(t, tuple) and len(t) == 3 and t[0] == "at" and t[1] == ("row",):
                return (t[2], None)
            return None
        cp, ck = column_of(par), column_of(kid)
        found_e = [T.show(x)[:100] for x in (par, kid, dev)]
        if cp is not None and ck is not None:
            if cp[0] == T.col(CORR, "cpu_index") and ck[0] == T.col(CORR, "gpu_index") and dev == ("enum", "DeviceType", "GPU"):
                ok = True
            elif (cp[0] == T.col(CORR, "gpu_index") and ck[0] == T.col(CORR, "cpu_index")) or (isinstance(dev, tuple) and dev and dev[0] == "enum" and dev != ("enum", "DeviceType", "GPU")):
                ok = False
            ctx = cp[1] or ck[1]
            if ctx is None:
                walks = [e for e in runs[0].events if e["kind"] == "row-walk"]
                ctx = walks[0]["ctx"] if len(walks) == 1 else None
            if isinstance(ctx, tuple) and len(ctx) == 3 and ctx[0] == CORR:
                found_r = T.show(ctx[1])[:160]
                want_rows = ("in", T.col(CORR, "cpu_index"), ("valuesof", T.col(DFT, "index"), (DFT, T.TRUE, None)))
                okrows = True if ctx[1] == want_rows else (False if ctx[1] == T.TRUE or ctx[1] == ("in", T.col(CORR, "gpu_index"), want_rows[2]) else None)
    chk.ob("C13.R3-link-direction", "each device activity becomes a child of the host call linked to it, as a GPU node", ok, cs.loc(lk), found=found_e, accepted="self._add_edge(cpu_index, gpu_index, DeviceType.GPU)",
           why="the reverse direction makes the launch call a child of its kernel; a CPU device type gives kernels height 1")
    chk.ob("C13.R3-link-direction", "only links whose launch call belongs to this thread are added", okrows, cs.loc(lk),
           found=found_r or found_e, accepted="self.correlations['cpu_index'].isin(self.df['index'])")
    ae = cs.func("CallStackGraph._add_edge")
    chk.analysed_add("functions", [f"{CS}:CallStackGraph._link_cpu_and_gpu"])


def _backward_parents(db, chk, cg, rule):
    """decision table of CallGraph._link_main_and_bwd_stacks, read off the evaluated paths: which events of THIS rank's main thread become candidate parents.
    L(x) = the ids of the main thread's events whose name starts with x.   L(annotation) non-empty -> L(annotation);  else L('ProfilerStep#') non-empty -> that;  else nothing."""
    ref = f"{CG}:CallGraph._link_main_and_bwd_stacks"
    h = cg.func("CallGraph._link_main_and_bwd_stacks")
    where = cg.loc(h)
    hp = [p_ for p_ in H.param_names(h) if p_ != "self"]
    MD = ("param", "MAIN")
    ANN = T.P("ANN")

    def hook(I, name, pos, kw, node):
        if name.endswith("update_parent_of_first_layer_nodes"):
            I.log("bwd-parent", node, term=to_term(pos[0]) if pos else None)
            return None
        if name.endswith("get_sym_id_map"):
            return T.P("SYMMAP")
        return NotImplemented

    if len(hp) < 3:
        chk.ob(rule, "_link_main_and_bwd_stacks(main, bwd, annotation) recognised", None, where, found=hp)
        return
    I = Interp(db, call_hook=hook)
    env = lambda I: {"self": Obj("self", cls=(cg, "CallGraph"), attrs={"trace_data": Obj("td", attrs={"symbol_table": Obj("symtab", attrs={})})}),
                     hp[0]: Obj("main", attrs={"df": Frame(MD)}), hp[1]: Obj("bwd", attrs={}), hp[2]: ANN}
    runs = [r for r in I.explore(ref, env) if r.raised is None]
    chk.analysed_add("functions", ref)

    def which(L):
        """'ann' / 'ps' when L is  [ids of MAIN rows whose name is a symbol id of a name starting with <x>]"""
        if not (isinstance(L, tuple) and len(L) == 3 and L[0] == "tolist" and L[1] == T.col(MD, "index")):
            return None
        ctx = L[2]
        if not (isinstance(ctx, tuple) and len(ctx) == 3 and ctx[0] == MD and isinstance(ctx[1], tuple) and ctx[1][0] == "in" and ctx[1][1] == T.col(MD, "name")):
            return None
        vs = ctx[1][2]
        if not (isinstance(vs, tuple) and vs[0] == "valuesof" and vs[1] == ("series", T.P("SYMMAP")) and isinstance(vs[2], tuple) and len(vs[2]) == 3):
            return None
        pred = vs[2][1]
        if not (isinstance(pred, tuple) and len(pred) >= 4 and pred[0] == "strmatch" and pred[1] == "startswith" and isinstance(pred[2], tuple) and pred[2][0] == "index"):
            return None
        return "ann" if pred[3] == ANN else "ps" if pred[3] == T.C("ProfilerStep#") else None

    def atom(c):
        """(which list, non-empty?) for an emptiness test of one of the two candidate lists; 'foreign' for an emptiness test of something not derived from this rank's main thread"""
        neg = False
        if isinstance(c, tuple) and c and c[0] == "not":
            neg, c = True, c[1]
        L, val = None, None
        if isinstance(c, tuple) and c and c[0] == "truthy":
            L, val = c[1], True
        elif isinstance(c, tuple) and len(c) == 3 and c[0] == "cmp" and isinstance(c[2], tuple) and c[2] and c[2][0] in ("len", "nrows") and c[1] in (">", "<=", "!=", "=="):
            L, val = c[2][1], c[1] in (">", "!=")
        if L is None:
            return None
        w = which(L)
        if w is None:
            return "foreign" if not T.find(L, lambda x: x == MD) else None
        return (w, val != neg)

    table, verdict, det = {}, True, []
    for r in runs:
        atoms = [atom(c) for c in r.path]
        if any(a_ == "foreign" for a_ in atoms):
            chk.ob(rule, "a candidate annotation is chosen iff THIS rank's main thread has such events", False, where, found=[T.show(c)[:200] for c in r.path],
                   accepted="the test looks at main_stack.df", why="deciding by the all-ranks symbol table leaves a rank without backward annotations unattached when another rank has them")
            return
        if any(a_ is None for a_ in atoms):
            verdict = None
            det.append("condition not understood: " + "; ".join(T.show(c)[:160] for c, a_ in zip(r.path, atoms) if a_ is None))
            continue
        known = dict(atoms)
        if any((w_, not v_) in atoms for w_, v_ in atoms):
            continue          # contradictory conditions: not a feasible path
        used = set()
        for e in r.events:
            if e["kind"] != "bwd-parent":
                continue
            t = e["term"]
            w = which(t[1]) if isinstance(t, tuple) and len(t) == 2 and t[0] == "elem" else None
            if w is None:
                verdict = None
                det.append("parent not understood: " + T.show(t)[:160])
                continue
            if known.get(w) is False:
                continue          # iterating a list known to be empty on this path: no call
            used.add(w)
        for a_ in (True, False):
            for p_ in (True, False):
                if all(known.get(k, v) == v for k, v in (("ann", a_), ("ps", p_))):
                    table.setdefault((a_, p_), []).append(sorted(used))
    want = {(True, True): [["ann"]], (True, False): [["ann"]], (False, True): [["ps"]], (False, False): [[]]}
    if verdict is not None:
        verdict = table == want
    df_default = H.param_default(h, hp[2])
    chk.ob(rule, "candidate annotations are tried in the order '## backward ##' then 'ProfilerStep#', a candidate is chosen iff THIS rank's main thread has such events, and no candidate -> nothing is attached",
           (verdict and lit(df_default) == "## backward ##") if verdict is not None else None, where,
           found={"table (annotation present, ProfilerStep present) -> parents": {str(k): v for k, v in sorted(table.items())}, "default": lit(df_default), "notes": det[:3]},
           accepted={"(True, *)": "main-thread events named <annotation>*", "(False, True)": "main-thread ProfilerStep# events", "(False, False)": "none", "default": "## backward ##"},
           why="deciding by the all-ranks symbol table leaves a rank without backward annotations unattached when another rank has them")


def _backward(db, chk, cs, cg, rule="C13.R4-backward-attachment"):
    f = cg.func("CallGraph._connect_stacks")
    # decided by evaluating _connect_stacks on a symbolic stack mapping: when the link is made and which two stacks it is given
    MAP, RANK = ("param", "MAP"), T.P("RANK")
    links = []

    def hook(I, name, pos, kw, node):
        if name.endswith("_link_main_and_bwd_stacks"):
            links.append((list(I.run.path), [to_term(p_) for p_ in pos], {k: to_term(v) for k, v in kw.items()}))
            return None
        return NotImplemented
    hp_ = [p_ for p_ in H.param_names(cg.func("CallGraph._link_main_and_bwd_stacks")) if p_ != "self"]
    rank_param = next((p_ for p_ in H.param_names(f) if p_ != "self"), None)
    try:
        runs = [r for r in Interp(db, call_hook=hook).explore(f"{CG}:CallGraph._connect_stacks", lambda I: {"self": Obj("self", cls=(cg, "CallGraph"), attrs={"mapping": Frame(MAP), "call_stacks": T.P("STACKS")}), rank_param: RANK})
                if r.raised is None]
    except AnalysisError:
        runs = []
    chk.analysed_add("functions", f"{CG}:CallGraph._connect_stacks")
    okr = ok = None
    found_sel, found_link = None, None
    if len(runs) == 2 and len(links) == 1 and len(links[0][0]) == 1 and len(hp_) >= 2:
        cond, pos, kw = links[0]
        bound = dict(zip(hp_, pos))
        bound.update(kw)
        mainv, bwdv = bound.get(hp_[0]), bound.get(hp_[1])
        # the guard: exactly two selected rows
        c0 = cond[0]
        nr = [x for x in T.subterms(c0) if isinstance(x, tuple) and len(x) == 2 and x[0] == "nrows"]
        ctx = nr[0][1] if len(nr) == 1 else None
        two = ctx is not None and c0 == T.cmp("==", ("nrows", ctx), T.C(2))
        if ctx is not None and ctx[0] == MAP:
            try:
                tt = {(rk, lb): bool(T.evaluate(ctx[1], lambda leaf, rk=rk, lb=lb: rk if leaf == T.col(MAP, "rank") else lb if leaf == T.col(MAP, "label") else 3 if leaf == RANK else (_ for _ in ()).throw(T.Unknown(leaf))))
                      for rk in (3, 4) for lb in ("bwd", "main", "other")}
            except T.Unknown:
                tt = None
            found_sel = T.show(ctx[1])[:200]
            if tt is not None:
                okr = tt == {(rk, lb): (rk == 3 and lb in ("bwd", "main")) for rk in (3, 4) for lb in ("bwd", "main", "other")}
            order = ctx[2]
            by_label = isinstance(order, tuple) and order and order[0] == "sort" and tuple(order[1]) == (T.col(MAP, "label"),) and order[2] in (True, (True,))
            idx = ("tolist", T.col(MAP, "stack_index"), ctx)
            want_main, want_bwd = ("getitem", T.P("STACKS"), ("getitem", idx, T.C(1))), ("getitem", T.P("STACKS"), ("getitem", idx, T.C(0)))
            found_link = {"guard": T.show(c0)[:160], "order": T.show_order(order), "main": T.show(mainv)[:120] if mainv is not None else None, "bwd": T.show(bwdv)[:120] if bwdv is not None else None}
            if mainv == want_main and bwdv == want_bwd and by_label and two:
                ok = True
            elif (mainv == want_bwd and bwdv == want_main) or (isinstance(order, tuple) and order and order[0] == "sort" and tuple(order[1]) == (T.col(MAP, "label"),) and order[2] in (False, (False,))) or \
                    (ctx is not None and not two and c0[0] == "cmp" and ("nrows", ctx) in T.subterms(c0)):
                ok = False          # the two stacks swapped, label order descending, or another row count
    chk.ob(rule, "the two stacks are selected among the stacks of the rank being built (rank == <rank> & label in {bwd, main})", okr, cg.loc(f), found=found_sel or f"{len(runs)} path(s), {len(links)} link call(s)",
           accepted="self.mapping['rank'].eq(rank) & self.mapping['label'].isin(['bwd', 'main'])", why="without the rank condition the selection holds the stacks of all ranks built so far: from the second rank on it never has exactly two rows and nothing is attached")
    chk.ob(rule, "attachment only when the rank has exactly one main and one bwd stack; sorted by label so that index 0 is bwd and 1 is main", ok, cg.loc(f),
           found=found_link or f"{len(runs)} path(s), {len(links)} link call(s)", accepted="label isin [bwd, main] sorted by label ascending; shape[0] == 2; bwd = stack [0], main = stack [1]")
    _backward_parents(db, chk, cg, rule)
    h = cg.func("CallGraph._link_main_and_bwd_stacks")
    calls = [c for c in walk_no_nested(h) if isinstance(c, ast.Call) and isinstance(c.func, ast.Attribute) and c.func.attr == "update_parent_of_first_layer_nodes"]
    hp = [p_ for p_ in H.param_names(h) if p_ != "self"]
    chk.ob(rule, "every chosen annotation event becomes the candidate parent of the autograd thread's top-level operators", (len(calls) == 1 and len(hp) >= 2 and ast.unparse(calls[0].func.value) == hp[1]) if calls else None, cg.loc(h),
           found=[ast.unparse(c) for c in calls], accepted="bwd_stack.update_parent_of_first_layer_nodes(idx)")
    # containment test
    u = cs.func("CallStackGraph.update_parent_of_first_layer_nodes")
    FD = ("param", "FD")
    NP = T.P("new_parent_index")
    seen = []

    def hook(I, name, pos, kw, node):
        if name == "self._update_parent":
            seen.append(pos)
            return None
        if name == "self.get_root":
            return T.P("ROOT2")
        return NotImplemented

    ROOT = T.P("ROOT")
    I = Interp(db, call_hook=hook, decide=assume(("in", NP, ("index", FD))))
    runs = I.explore(f"{CS}:CallStackGraph.update_parent_of_first_layer_nodes",
                     lambda I: {"self": Obj("self", cls=(cs, "CallStackGraph"), attrs={"nodes": {NP: _node("np", children=[]), ROOT: _node("root", children=T.P("ROOT_CHILDREN"))}, "root_index": ROOT, "full_df": Frame(FD)}),
                                "new_parent_index": NP})
    runs = [r for r in runs if r.raised is None]
    okc = None
    det = []
    if seen:
        arg = to_term(seen[0][0])
        masks = T.find(arg, lambda s: s[0] == "tolist")
        if masks and isinstance(masks[0][2], tuple):
            rows = masks[0][2][1]
            conj = set(rows[1]) if rows[0] == "and" else {rows}
            prow = ("loc", None)
            ts_atoms = [c for c in conj if c[0] == "cmp" and T.col(FD, "ts") in T.as_lin(c[2])[0]]
            end_atoms = [c for c in conj if c[0] == "cmp" and T.col(FD, "end") in T.as_lin(c[2])[0]]
            in_atoms = [c for c in conj if c[0] == "in" and c[1] == T.col(FD, "index")]
            det = [T.show(c)[:120] for c in conj]
            okc = len(conj) == 3 and len(ts_atoms) == 1 and ts_atoms[0][1] in (">=", "<=") and len(end_atoms) == 1 and end_atoms[0][1] in ("<=", ">=") and len(in_atoms) == 1 and "ROOT_CHILDREN" in T.show(in_atoms[0]) \
                and _dir_ok(ts_atoms[0], T.col(FD, "ts"), ">=") and _dir_ok(end_atoms[0], T.col(FD, "end"), "<=")
        chk.ob(rule, "re-parented = the root's children whose span lies within the annotation's span (ts >= parent.ts and end <= parent.end)", okc, cs.loc(u), found=det,
               accepted=["index in root.children", "ts >= parent.ts", "end <= parent.end"])
        chk.ob(rule, "the new parent passed on is the annotation event", to_term(seen[0][1]) == NP, cs.loc(u), found=T.show(to_term(seen[0][1])), accepted="new_parent_index")
        # the stack keeps its own root while that root still exists (the method is called once per annotation: later calls take the first layer from the SAME root)
        roots = [to_term(r.env["self"].attrs.get("root_index")) for r in runs if isinstance(r.env.get("self"), Obj)]
        chk.ob(rule, "the stack's root stays its root as long as the root node exists (re-rooting only after the old root was emptied and deleted)", all(x == ROOT for x in roots) if roots else None, cs.loc(u),
               found=sorted({T.show(x) for x in roots}), accepted="$ROOT",
               why="re-rooting at the new parent's root after the first annotation makes the following calls read the main thread's first layer: the operators of later steps are never attached")
    else:
        chk.ob(rule, "update_parent_of_first_layer_nodes reaches _update_parent", None, cs.loc(u), found=len(runs))
    chk.floor(rule, 5)


def _dir_ok(atom, colterm, want) -> bool:
    """atom is ('cmp', op, L): is it `col <want> something` ?  (sign of col's coefficient in L decides the orientation)"""
    L = atom[2]
    d, k = T.as_lin(L)
    c = d.get(colterm)
    if c is None:
        return False
    op = atom[1]
    if c < 0:
        op = {"<": ">", "<=": ">=", ">": "<", ">=": "<="}[op]
    return op == want


def check_publish_order(db, chk, rule: str) -> None:
    """Typestate of the per-rank build: [build every thread's tree] -> [link the threads' trees] -> [publish the node attributes to the
    frame] -> [normalise the published columns].  Publishing before the last tree mutation leaves pre-link depths / kernel totals in the
    columns every consumer reads (C13: attributes agree with the tree; C16: operators are selected by those columns)."""
    cs, cg = db.mod(CS), db.mod(CG)
    owner = None
    for q, f in cg.functions.items():
        if any(isinstance(c.func, ast.Attribute) and c.func.attr == "save_call_stack_to_dataframe" for c in H.calls(f, nested=False)) and q.startswith("CallGraph."):
            owner = (q, f)
    if owner is None:
        raise AnalysisError("no CallGraph method publishes the call-stack columns (save_call_stack_to_dataframe)")
    q, f = owner
    where = cg.loc(f)
    # tree mutators: methods of CallGraph that (transitively, inside the two modules) reach a writer of node.parent / node.children / depth / height
    def reaches_writer(mod, cls, name, seen):
        key = (mod.name, cls, name)
        if key in seen:
            return False
        seen.add(key)
        g = mod.functions.get(f"{cls}.{name}")
        if g is None:
            return False
        for n in ast.walk(g):
            if isinstance(n, (ast.Assign, ast.AugAssign)):
                for t in (n.targets if isinstance(n, ast.Assign) else [n.target]):
                    if isinstance(t, ast.Attribute) and t.attr in ("parent", "depth", "height") and not (isinstance(t.value, ast.Name) and t.value.id == "self"):
                        return True
            if isinstance(n, ast.Call) and isinstance(n.func, ast.Attribute):
                if n.func.attr in ("append", "remove", "extend") and isinstance(n.func.value, ast.Attribute) and n.func.value.attr == "children":
                    return True
                for m2, c2 in ((cg, "CallGraph"), (cs, "CallStackGraph")):
                    if f"{c2}.{n.func.attr}" in m2.functions and reaches_writer(m2, c2, n.func.attr, seen):
                        return True
        return False

    top = list(f.body)

    def pos_of(node):
        for i, s in enumerate(top):
            if any(x is node for x in ast.walk(s)):
                return i
        return None
    events = []      # (top-level statement index, kind, text)
    for c in H.calls(f, nested=False):
        if isinstance(c.func, ast.Attribute) and isinstance(c.func.value, ast.Name) and c.func.value.id in ("self", "cls") and reaches_writer(cg, "CallGraph", c.func.attr, set()):
            events.append((pos_of(c), "mutate", ast.unparse(c)[:60]))
        elif H.name_id(c.func) == "CallStackGraph":
            events.append((pos_of(c), "mutate", "CallStackGraph(...)"))
        elif isinstance(c.func, ast.Attribute) and c.func.attr == "save_call_stack_to_dataframe":
            events.append((pos_of(c), "publish", ast.unparse(c)[:70]))
            recv = H.expand(f, c.func.value)
            if isinstance(recv, ast.Name):
                # the nearest preceding definition in the same block
                st_ = c
                while cg.parent.get(id(st_)) is not None and not isinstance(st_, ast.stmt):
                    st_ = cg.parent.get(id(st_))
                blk = cg.parent.get(id(st_))
                for fld in ("body", "orelse"):
                    seq = getattr(blk, fld, None)
                    if isinstance(seq, list) and st_ in seq:
                        for prev in reversed(seq[:seq.index(st_)]):
                            if isinstance(prev, ast.Assign) and len(prev.targets) == 1 and H.name_id(prev.targets[0]) == recv.id:
                                recv = prev.value
                                break
            chk.ob(rule, "the stack that publishes is the one built LAST in this call (it belongs to the rank being built and shares the rank's node map)",
                   True if H.match("self.call_stacks[-1]", recv) is not None else (False if H.match("self.call_stacks[$$i]", recv) is not None else None), cg.loc(c), found=ast.unparse(recv), accepted="self.call_stacks[-1]",
                   why="self.call_stacks accumulates the stacks of every rank built so far: [0] writes the FIRST rank's frame again and leaves the current rank's columns at their initial values")
            whole = lit(H.kwarg(c, "apply_whole_graph"), None)
            chk.ob(rule, "the publication covers the whole node map (apply_whole_graph=True)", whole is True, cg.loc(c), found=ast.unparse(c), accepted="save_call_stack_to_dataframe(apply_whole_graph=True)",
                   why="a per-thread publication leaves the other threads' rows at their initial values")
        elif isinstance(c.func, ast.Attribute) and c.func.attr == "_normalize_stack_columns":
            events.append((pos_of(c), "normalise", ast.unparse(c)[:60]))
    events.sort(key=lambda e: (e[0] if e[0] is not None else -1))
    kinds = [k for _, k, _ in events]
    muts = [e for e in events if e[1] == "mutate"]
    pubs = [e for e in events if e[1] == "publish"]
    norms = [e for e in events if e[1] == "normalise"]
    if len(muts) < 2 or len(pubs) != 1 or len(norms) != 1 or any(e[0] is None for e in events):
        chk.ob(rule, f"{q}: build / link / publish / normalise steps recognised", None, where, found=events, why="expected >= 2 tree-mutating steps (thread trees, cross-thread link), one publication, one normalisation")
        return
    ok = max(e[0] for e in muts) < pubs[0][0] < norms[0][0]
    chk.ob(rule, f"{q}: every tree mutation (thread trees, cross-thread linking) precedes the publication of node attributes, normalisation follows it", ok, where,
           found=[f"{i}:{k}:{t}" for i, k, t in events], accepted="mutate ... mutate < publish < normalise (top-level statement order)",
           why="columns published before the autograd thread is linked under the main thread keep per-thread depths and exclude that thread's kernels from the annotation's totals")
    chk.analysed_add("typestate_events", [f"{k}:{t}" for _, k, t in events])


def check_recompute_before_publish(db, chk, rule: str) -> None:
    """save_call_stack_to_dataframe: every derived node attribute is recomputed from the (possibly re-parented) tree, with the caller's
    scope flag, before the attributes are copied into the frame."""
    cs = db.mod(CS)
    f = cs.func("CallStackGraph.save_call_stack_to_dataframe")
    where = cs.loc(f)
    want = ["_compute_depth", "_compute_height", "_add_kernel_info_to_cpu_ops"]
    calls = [c for c in H.calls(f, nested=False) if isinstance(c.func, ast.Attribute) and isinstance(c.func.value, ast.Name) and c.func.value.id == "self"]
    by = {c.func.attr: c for c in calls}
    pub = by.get("_save_call_stack_to_df")
    if pub is None:
        raise AnalysisError("save_call_stack_to_dataframe no longer calls _save_call_stack_to_df")
    top = list(f.body)
    uncond = lambda c: any(isinstance(s, ast.Expr) and s.value is c for s in top)
    for w in want:
        c = by.get(w)
        ok = c is not None and uncond(c) and c.lineno < pub.lineno
        chk.ob(rule, f"{w} runs unconditionally before the attributes are copied to the frame", ok, where, found=[ast.unparse(x) for x in calls], accepted=f"self.{w}(apply_whole_graph=apply_whole_graph) ... self._save_call_stack_to_df()",
               why="depth/height/kernel totals set while the thread trees were built are stale once _update_parent re-parents the autograd thread's operators")
        if c is not None:
            g = cs.func(f"CallStackGraph.{w}")
            b = H.bind_call(g, c)
            chk.ob(rule, f"{w} receives the caller's scope flag", H.name_id(b.get("apply_whole_graph")) == "apply_whole_graph", cs.loc(c), found=ast.unparse(c), accepted="apply_whole_graph=apply_whole_graph",
                   why="a constant False recomputes only this thread's nodes while the whole node map is published")
    chk.floor(rule, 6)


def check_move_is_complete(db, chk, rule: str) -> None:
    """CallStackGraph._update_parent moves nodes: (1) child.parent = new parent, (2) new parent's children gain them, (3) each OLD parent's
    children list loses them (written back), so that every node is listed under exactly one parent when depths are recomputed.
    Decided by abstract runs of the method on small concrete node maps: the state of the map afterwards."""
    cs = db.mod(CS)
    f = cs.func("CallStackGraph._update_parent")
    where = cs.loc(f)
    ps = [p_ for p_ in H.param_names(f) if p_ != "self"]
    chk.analysed_add("functions", f"{CS}:CallStackGraph._update_parent (abstract runs)")
    if len(ps) != 2:
        chk.ob(rule, "_update_parent(self, <nodes>, <new parent>)", None, where, found=ps)
        return
    # (node map: index -> (parent, children)), the nodes to move, the new parent
    scenarios = (
        ("two first-layer nodes under a third", {-1: (-2, [1, 2, 5]), 1: (-1, []), 2: (-1, []), 5: (-1, [])}, [1, 2], 5),
        ("nodes of two different parents", {-1: (-2, [1, 2, 5]), 1: (-1, [3, 4]), 2: (-1, []), 5: (-1, []), 3: (1, []), 4: (1, [])}, [2, 3], 5),
        ("a node that is already a child of the new parent, and an unknown index", {-1: (-2, [1, 5]), 1: (-1, []), 5: (-1, [2]), 2: (5, [])}, [1, 2, 99], 5),
    )
    res = {"parent": [], "gain": [], "loss": []}
    for tag, spec, moved, newp in scenarios:
        state = {}

        def args(I, spec=spec, moved=moved, newp=newp):
            nodes = {k: Obj(f"node{k}", attrs={"parent": p_, "children": list(ch), "depth": 0, "height": 0, "device": ("enum", "DeviceType", "CPU")}) for k, (p_, ch) in spec.items()}
            state["nodes"] = nodes
            return {"self": Obj("self", cls=(cs, "CallStackGraph"), attrs={"nodes": nodes, "root_index": -1}), ps[0]: list(moved), ps[1]: newp}
        try:
            runs = [r for r in Interp(db).explore(f"{CS}:CallStackGraph._update_parent", args) if r.raised is None]
        except AnalysisError:
            runs = []
        nodes = state.get("nodes")
        concrete = len(runs) == 1 and not runs[0].path and nodes is not None and all(
            isinstance(n.attrs.get("parent"), int) and isinstance(n.attrs.get("children"), list) and all(isinstance(c, int) and not isinstance(c, bool) for c in n.attrs["children"]) for n in nodes.values())
        if not concrete:
            for k in res:
                res[k].append((tag, None, "the run did not end in one concrete node map"))
            continue
        really = [c for c in moved if c in spec and c not in spec[newp][1]]          # known nodes that are not yet children of the new parent
        after = {k: (n.attrs["parent"], list(n.attrs["children"])) for k, n in nodes.items()}
        bad_p = {c: after[c][0] for c in really if c in after and after[c][0] != newp}
        res["parent"].append((tag, not bad_p and all(c in after for c in really), bad_p or "ok"))
        kids = after[newp][1] if newp in after else []
        want_kids = sorted(spec[newp][1] + really)
        res["gain"].append((tag, sorted(kids) == want_kids, {"children of the new parent": kids, "expected (any order)": want_kids}))
        stale = {k: [c for c in ch if c in really] for k, (_p, ch) in after.items() if k != newp and any(c in really for c in ch)}
        res["loss"].append((tag, not stale, stale or "ok"))
    texts = {"parent": ("a moved node's parent becomes the new parent", None),
             "gain": ("the new parent's children gain the moved nodes (each exactly once; the children it had stay)", None),
             "loss": ("every old parent's children list loses the moved nodes (the list itself is updated)",
                      "a node that stays listed under its old parent is reached twice by the depth recomputation and keeps the depth of the stale path")}
    for k, (txt, why) in texts.items():
        vs = [v for _t, v, _d in res[k]]
        verdict = False if any(v is False for v in vs) else (None if any(v is None for v in vs) else True)
        chk.ob(rule, txt, verdict, where, found=[{"scenario": t_, "state": d_} for t_, v, d_ in res[k] if v is not True] or f"holds in {len(vs)} scenarios", accepted="holds in every scenario", **({"why": why} if why else {}))
    chk.floor(rule, 3)


def check_stack_labels(db, chk, rule: str) -> None:
    """which thread is the MAIN thread and which the autograd (bwd) thread - the decision table of CallGraph._build_call_stacks._infer_stack_label, read off its
    evaluated paths with the enclosing function's prefix as closure: a thread that holds profiler steps is 'main' even when it also runs autograd operators;
    only a thread without steps that runs autograd operators is 'bwd'.  (The backward attachment of C13 and the operator instances of C16 depend on it.)"""
    cg = db.mod(CG)
    outer_q, nested = "CallGraph._build_call_stacks", "_infer_stack_label"
    fdef = cg.functions.get(f"{outer_q}.{nested}")
    where = cg.loc(fdef) if fdef is not None else CG
    if fdef is None:
        chk.ob(rule, "the label inference of the call stacks is found", None, where, found="no nested _infer_stack_label")
        return
    SD, FD = ("param", "SD"), ("param", "FD")

    def hook(I, name, pos, kw, node):
        if name.endswith("get_sym_id_map"):
            return T.P("SYMMAP")
        if name.endswith("get_sym_table"):
            return T.P("SYMTAB")
        return NotImplemented
    I = Interp(db, call_hook=hook)
    outer = cg.func(outer_q)
    env0 = {p_: T.P(p_.upper()) for p_ in H.param_names(outer)}
    env0.update({"self": Obj("self", cls=(cg, "CallGraph"), attrs={"trace_data": Obj("td", attrs={"symbol_table": Obj("symtab")})}), "df": Frame(FD)})
    pn = [p_ for p_ in H.param_names(fdef)]
    try:
        runs = [r for r in I.explore(f"{CG}:{outer_q}.{nested}", lambda I: {pn[0]: Obj("stack", attrs={"df": Frame(SD)})}, lambda I: I.prefix_closure(cg, outer_q, nested, env0)) if r.raised is None]
    except AnalysisError as e:
        chk.ob(rule, "the label inference is analysable", None, where, found=str(e)[:160])
        return
    chk.analysed_add("functions", f"{CG}:{outer_q}.{nested}")

    def which(c):
        """('main' | 'bwd', polarity) for a test 'the thread has an event whose name is a profiler step / an autograd operator'"""
        neg = False
        if isinstance(c, tuple) and c and c[0] == "not":
            neg, c = True, c[1]
        pats = [x for x in T.subterms(c) if isinstance(x, tuple) and len(x) >= 4 and x[0] == "strmatch"]
        names = T.find(c, lambda x: x == T.col(SD, "name"))
        if len(pats) != 1 or not names:
            return None
        kind, pat = pats[0][1], pats[0][3]
        if kind == "startswith" and T.is_const(pat) and str(pat[1]).startswith("ProfilerStep"):
            w = "main"
        elif kind == "contains" and T.is_const(pat) and "autograd::" in str(pat[1]):
            w = "bwd"
        else:
            return None
        if not (isinstance(c, tuple) and c and (c[0] in ("truthy", "overlap") or (c[0] == "cmp" and c[1] in (">", "!=", "<=", "==")))):
            return None
        pos = True if c[0] in ("truthy", "overlap") else c[1] in (">", "!=")
        return (w, pos != neg)
    table, verdict, notes = {}, True, []
    for r in runs:
        atoms = [which(c) for c in r.path]
        label = to_term(r.ret)
        lab = label[1] if T.is_const(label) else "<other>"
        known = dict(a_ for a_ in atoms if a_ is not None)
        if "main" not in known and "bwd" not in known:
            verdict = None
            notes.append("path without a recognised test: " + "; ".join(T.show(c)[:100] for c in r.path))
            continue
        for m_ in (True, False):
            for b_ in (True, False):
                if all(known.get(k, v) == v for k, v in (("main", m_), ("bwd", b_))):
                    table.setdefault((m_, b_), set()).add(lab)
    want_main = table.get((True, True)) == {"main"} and table.get((True, False)) == {"main"}
    want_bwd = table.get((False, True)) == {"bwd"}
    rest = "main" not in table.get((False, False), set()) and "bwd" not in table.get((False, False), set())
    if verdict is not None:
        verdict = bool(want_main and want_bwd and rest) if all(k in table for k in ((True, True), (True, False), (False, True), (False, False))) else None
    chk.ob(rule, "a thread with profiler steps is the main thread (even if it also runs autograd operators); a thread with autograd operators and no steps is the bwd thread", verdict, where,
           found={"(has steps, has autograd) -> label": {str(k): sorted(v) for k, v in sorted(table.items())}, "notes": notes[:2]},
           accepted={"(True, *)": "main", "(False, True)": "bwd", "(False, False)": "neither"},
           why="testing 'bwd' first labels a main thread that carries an autograd:: event as bwd: the real autograd thread is never attached beneath the profiler step and deeper operator instances are counted")


def _roots(db, chk, cs):
    """whole-graph mode starts the depth / height / kernel walks at 'all roots': evaluated on a small node map (thread 1: root -1 with the events 10 > 11; thread 7: root -7 with
    event 20): the roots are the per-thread root nodes and never an event (the root of thread 1 has the index of the dummy parent, so its top-level events have parent -1 too)"""
    rule = "C13.R1-depth"
    fn = cs.functions.get("CallStackGraph._get_all_root_indices")
    if fn is None:
        chk.ob(rule, "_get_all_root_indices found", None, CS, found="absent")
        return
    nodes = {-1: _node("root1", parent=-1, children=[10]), 10: _node("e10", parent=-1, children=[11]), 11: _node("e11", parent=10, children=[]),
             -7: _node("root7", parent=-1, children=[20]), 20: _node("e20", parent=-7, children=[])}
    I = Interp(db)
    runs = [r for r in I.explore(f"{CS}:CallStackGraph._get_all_root_indices", lambda I: {"self": Obj("self", cls=(cs, "CallStackGraph"), attrs={"nodes": dict(nodes)})}) if r.raised is None]
    got = runs[0].ret if len(runs) == 1 else None
    conc = sorted(got) if isinstance(got, list) and all(isinstance(x, int) for x in got) else None
    chk.ob(rule, "whole-graph walks start at the per-thread root nodes only (never at an event)", (conc == [-7, -1]) if conc is not None else None, cs.loc(fn),
           found=conc if conc is not None else T.show(to_term(got))[:120], accepted=[-7, -1],
           why="selecting roots by `parent == NULL_NODE_INDEX` also picks the top-level events of thread 1 (whose root index is -1): every depth on that thread comes out one too small")
