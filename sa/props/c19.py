"""C19 - a saved critical-path graph restores to an identical graph.

Decided statically (agreement rules, engine E5): the set of state fields saved, the set restored
and the set of result-carrying attributes agree; the three artefacts are written and read under the
same names, with the same role, index label and node-link convention; the restoring constructor
installs the unpickled graph.  NOT decided: fidelity of pickle / CSV dtype round trip.
"""
from __future__ import annotations

import ast

from ..core.progdb import ProgramDB, AnalysisError, call_name, kwarg, lit
from ..core import asthelp as H

EXPLANATION = (
    "Static agreement analysis of CPGraph.save / restore_cpgraph / _CPGraphData / CPGraph.__init__ in "
    "hta/analyzers/critical_path_analysis.py: field sets (dataclass fields = constructor keywords = attributes "
    "restored = result-carrying attributes written by graph construction and critical_path), artefact file names "
    "and roles, csv index label, node_link convention, zip members, and the restoring constructor path. "
    "Decides the structural necessary conditions of save/restore identity, not pickle/CSV fidelity."
    " Later additions: default pickling and generated hash/eq of the saved classes, untouched payload between creation and dump / load and installation, edge-set reset on recomputation."
)

MOD = "hta.analyzers.critical_path_analysis"
CP = MOD


def _flows_from(func, expr, pred, depth=0):
    """does `expr` (following single local definitions) derive from a call satisfying pred?"""
    if depth > 6:
        return False
    if isinstance(expr, ast.Call) and pred(expr):
        return True
    if isinstance(expr, ast.Name):
        for d in H.defs_of(func, expr.id):
            if _flows_from(func, d, pred, depth + 1):
                return True
    return False


def _path_name(func, expr):
    """file-name literal of a path expression `os.path.join(<dir>, "<name>")` possibly via a local"""
    if isinstance(expr, ast.Name):
        d = H.defs_of(func, expr.id)
        if len(d) == 1:
            return _path_name(func, d[0])
        return None
    if isinstance(expr, ast.Call) and call_name(expr).endswith("path.join") and expr.args:
        last = expr.args[-1]
        if isinstance(last, ast.Name) and last.id in _MOD_CONSTS and not H.defs_of(func, last.id):
            last = _MOD_CONSTS[last.id]          # a module-level file-name constant
        return H.str_const(last)
    return None


_MOD_CONSTS: dict = {}


def _open_of(func, call, fh):
    """(path expression, mode) of the innermost `with open(p, mode) as <fh>` enclosing `call`"""
    best = None
    for n in ast.walk(func):
        if isinstance(n, ast.With) and any(x is call for x in ast.walk(n)):
            for it in n.items:
                c = it.context_expr
                if isinstance(c, ast.Call) and call_name(c) == "open" and H.name_id(it.optional_vars) == fh:
                    if best is None or n.lineno >= best[0]:
                        best = (n.lineno, c.args[0], lit(c.args[1]) if len(c.args) > 1 else "r")
    return None if best is None else best[1:]


def run(db: ProgramDB, chk) -> None:
    from ..specs.discipline import check_pickle_hooks
    check_pickle_hooks(db, chk, "C19.R4-default-pickling", "hta.analyzers.critical_path_analysis", ["CPNode", "CPEdge", "_CPGraphData"])
    chk.floor("C19.R4-default-pickling", 11)
    for q_ in ("restore_cpgraph", "CPGraph.save"):
        f_ = db.mod(MOD).func(q_)
        memo = [ast.unparse(d_) for d_ in f_.decorator_list if any(k in ast.unparse(d_) for k in ("cache", "memo"))]
        chk.ob("C19.R4-default-pickling", f"{q_} is not memoised (every restore builds a fresh graph from the archive's current content)", not memo, db.mod(MOD).loc(f_), found=memo or "no memoising decorator",
               accepted="no lru_cache / cache", why="a cached restore hands out the SAME mutable graph again (re-weighted by an earlier what-if) and ignores an archive that was saved anew under the same name")
    from .c09 import check_reset_before_accumulate
    check_reset_before_accumulate(db, chk, "C19.R5-recomputation-on-a-restored-graph")
    _decode_always(db, chk)    # restore -> critical_path() again must rebuild, not extend, the restored edge set
    m = db.mod(MOD)
    data_cls = m.cls("_CPGraphData")
    # private helpers are inlined and loops over literal tuples unrolled: the rules read the code as if it were written out
    save = H.unroll_literal_loops(m, H.inline_helpers(m, m.func("CPGraph.save")))
    restore = H.unroll_literal_loops(m, H.inline_helpers(m, m.func("restore_cpgraph")))
    global _MOD_CONSTS
    _MOD_CONSTS = m.constants
    init = m.func("CPGraph.__init__")
    chk.analysed_add("functions", [f"{MOD}:{q}" for q in ("_CPGraphData", "CPGraph.save", "restore_cpgraph", "CPGraph.__init__")])

    # ------------------------------------------------------------- R1 field agreement
    fields = H.dataclass_fields(data_cls)
    ctor = [c for c in H.calls(save) if call_name(c) == "_CPGraphData"]
    if len(ctor) != 1:
        raise AnalysisError(f"expected exactly one construction of _CPGraphData in save, found {len(ctor)}")
    ctor = ctor[0]
    if ctor.args:
        bound = dict(zip(fields, ctor.args))
    else:
        bound = {}
    for k in ctor.keywords:
        if k.arg is not None:
            bound[k.arg] = k.value
            continue
        # the reflective form: _CPGraphData(**{f.name: getattr(self, f.name) for f in dataclasses.fields(_CPGraphData)}) saves every field from the like-named attribute
        dc = k.value
        okr = isinstance(dc, ast.DictComp) and len(dc.generators) == 1 and not dc.generators[0].ifs and isinstance(dc.generators[0].target, ast.Name)
        if okr:
            fv = dc.generators[0].target.id
            it_ = dc.generators[0].iter
            okr = isinstance(it_, ast.Call) and call_name(it_).split(".")[-1] == "fields" and it_.args and H.name_id(it_.args[0]) == "_CPGraphData" \
                and H.match(f"{fv}.name", dc.key) is not None and H.match(f"getattr(self, {fv}.name)", dc.value) is not None
        if not okr:
            raise AnalysisError("save: the keyword expansion in the construction of _CPGraphData is not understood: " + ast.unparse(k.value)[:120])
        for fld_ in fields:
            bound[fld_] = ast.Attribute(value=ast.Name(id="self", ctx=ast.Load()), attr=fld_, ctx=ast.Load())
    saved = {}
    for f, v in bound.items():
        saved[f] = v.attr if H.is_self_attr(v) else ast.unparse(v)
    # restored instance variable = the one bound to CPGraph(...)
    inst = [t.id for t, v, _ in H.assignments(restore) if isinstance(t, ast.Name) and isinstance(v, ast.Call) and call_name(v) == "CPGraph"]
    if len(inst) != 1:
        raise AnalysisError("cannot identify the restored CPGraph instance in restore_cpgraph")
    inst = inst[0]
    inst_call = [v for t, v, _ in H.assignments(restore) if isinstance(t, ast.Name) and t.id == inst][0]
    # variable holding the unpickled _CPGraphData = pickle.load(f) whose attributes are copied
    restored_from = {}
    restored_other = {}
    for a, v, st in H.attr_stores(restore, inst):
        if isinstance(v, ast.Attribute) and isinstance(v.value, ast.Name):
            restored_from[a] = (v.value.id, v.attr)
        else:
            restored_other[a] = v
    # setattr(inst, "name", getattr(src, "name")) with literal names (e.g. an unrolled loop over a tuple of member names)
    for n_ in ast.walk(restore):
        if isinstance(n_, ast.Expr) and isinstance(n_.value, ast.Call) and H.name_id(n_.value.func) == "setattr" and len(n_.value.args) == 3 and H.name_id(n_.value.args[0]) == inst \
                and isinstance(n_.value.args[1], ast.Constant) and isinstance(n_.value.args[1].value, str):
            v_ = n_.value.args[2]
            if isinstance(v_, ast.Call) and H.name_id(v_.func) == "getattr" and len(v_.args) == 2 and isinstance(v_.args[0], ast.Name) and isinstance(v_.args[1], ast.Constant):
                restored_from[n_.value.args[1].value] = (v_.args[0].id, v_.args[1].value)
            else:
                restored_other[n_.value.args[1].value] = v_
    # the reflective form of the same copy: for f in dataclasses.fields(_CPGraphData): setattr(inst, f.name, getattr(src, f.name))
    for lp_ in [n for n in ast.walk(restore) if isinstance(n, ast.For) and isinstance(n.target, ast.Name)]:
        it_ = lp_.iter
        if isinstance(it_, ast.Call) and call_name(it_).split(".")[-1] == "fields" and it_.args and H.name_id(it_.args[0]) == "_CPGraphData" and len(lp_.body) == 1:
            fv = lp_.target.id
            r_ = H.match(f"setattr({inst}, {fv}.name, getattr($src, {fv}.name))", lp_.body[0])
            if r_ is not None:
                for fld_ in fields:
                    restored_from[fld_] = (r_["__mv_src"], fld_)
    pick_vars = {src for src, _ in restored_from.values()}
    if len(pick_vars) != 1:
        raise AnalysisError(f"restored attributes are copied from {sorted(pick_vars)}; expected one unpickled object")
    pick_var = pick_vars.pop()

    fs = set(fields)
    chk.ob("C19.R1-field-agreement", "save constructs every dataclass field", set(saved) == fs, m.loc(ctor),
           found=sorted(saved), accepted=sorted(fs), why="a field missing from the constructor cannot be saved (TypeError) / extra keyword")
    for f in sorted(fs | set(saved)):
        src = saved.get(f)
        chk.ob("C19.R1-field-agreement", f"save {f}=self.{f}", src == f, m.loc(ctor), found=src, accepted=f,
               why="the saved value of a field must be the like-named attribute, else restore installs another attribute's value")
    for f in sorted(fs | set(restored_from)):
        got = restored_from.get(f)
        chk.ob("C19.R1-field-agreement", f"restore {f}", got is not None and got[1] == f, m.loc(restore),
               found=None if got is None else f"{got[0]}.{got[1]}", accepted=f"{pick_var}.{f}",
               why="every saved field must be copied back to the like-named attribute of the restored graph")

    # result-carrying attributes: stored by construction-phase code, read by the post-construction API
    cls_methods = [q.split(".", 1)[1] for q in m.functions if q.startswith("CPGraph.") and q.count(".") == 1]
    construct = H.method_closure(m, "CPGraph", ["_construct_graph", "critical_path"])
    rerun = set(H.method_closure(m, "CPGraph", ["critical_path"])) - set(H.method_closure(m, "CPGraph", ["_construct_graph"]))
    stored = {}
    for meth in construct:
        for a in H.attr_store_names(m.functions[f"CPGraph.{meth}"], "self"):
            stored.setdefault(a, []).append(meth)
    # the part of __init__ after the `if t is None: return` guard runs only for a fresh construction
    guard = None
    for st in init.body:
        if isinstance(st, ast.If) and any(isinstance(x, ast.Return) for x in st.body) and "None" in ast.unparse(st.test):
            guard = st
            break
    if guard is None:
        raise AnalysisError("CPGraph.__init__: the early return for the restoring path (t is None) was not found")
    pre, post = set(), set()
    for st in init.body:
        tgt = pre if st.lineno < guard.lineno else post
        for n in ast.walk(st):
            if isinstance(n, ast.Attribute) and isinstance(n.ctx, ast.Store) and H.is_self_attr(n):
                tgt.add(n.attr)
            # ... and the attributes set by a private method of the class called here (an initialiser split off __init__)
            if isinstance(n, ast.Call) and isinstance(n.func, ast.Attribute) and H.name_id(n.func.value) == "self" and n.func.attr.startswith("_") and f"CPGraph.{n.func.attr}" in m.functions \
                    and n.func.attr not in construct:
                for meth_ in H.method_closure(m, "CPGraph", [n.func.attr]):
                    tgt.update(H.attr_store_names(m.functions[f"CPGraph.{meth_}"], "self"))
    for a in post:
        stored.setdefault(a, []).append("__init__(fresh)")
    # reads outside the construction closure, anywhere in the module (self.X or <graph>.X)
    reads = set()
    for q, f in m.functions.items():
        meth = q.split(".", 1)[1] if q.startswith("CPGraph.") else None
        for n in ast.walk(f):
            if isinstance(n, ast.Attribute) and isinstance(n.ctx, ast.Load) and n.attr in stored:
                if q in ("CPGraph.save", "restore_cpgraph"):
                    continue
                # (critical_path() is re-run on a restored graph - the what-if workflow - so what IT and its helpers read must be there after a restore)
                if meth is not None and meth.split(".")[0] in construct and meth.split(".")[0] not in rerun:
                    continue
                reads.add(n.attr)
    result_attrs = {a for a in stored if a in reads}
    covered = set(restored_from) | set(restored_other) | pre
    chk.analysed_add("construction_closure", sorted(construct))
    chk.analysed_add("result_carrying_attributes", sorted(result_attrs))
    for a in sorted(result_attrs):
        chk.ob("C19.R1-state-covered", f"attribute {a}", a in covered, f"{m.loc(restore)}",
               found=f"written by {stored[a]}, read by the post-construction API, restored: {a in covered}",
               accepted="restored by restore_cpgraph (from the pickled data, another artefact, or the constructor)",
               why="a result-carrying attribute that is not restored makes the restored graph differ from the saved one")
    chk.floor("C19.R1-field-agreement", 15)
    chk.floor("C19.R1-state-covered", 6)

    # ------------------------------------------------------------- R3 constructor installs the graph
    sup = [c for c in H.calls(init) if isinstance(c.func, ast.Attribute) and c.func.attr == "__init__" and "super" in ast.unparse(c.func)]
    gparam = H.param_names(init)[-1]
    b = H.bind_call(init, inst_call)
    ok = (len(sup) == 1 and sup[0].lineno < guard.lineno and len(sup[0].args) == 1 and H.name_id(sup[0].args[0]) == gparam)
    chk.ob("C19.R3-graph-installed", "super().__init__(G) precedes the restoring early return", ok, m.loc(init),
           found=[ast.unparse(s) for s in sup], accepted=f"super().__init__({gparam}) before `if t is None: return`",
           why="otherwise the restored instance has no nodes/edges")
    garg = b.get(gparam)
    ok = garg is not None and _flows_from(restore, garg, lambda c: call_name(c).endswith("node_link_graph"))
    chk.ob("C19.R3-graph-installed", "restore passes the node_link_graph result as G", ok, m.loc(inst_call),
           found=ast.unparse(garg) if garg is not None else None, accepted="value of nx.node_link_graph(<unpickled node-link data>)")
    targ = b.get(H.param_names(init)[1])
    chk.ob("C19.R3-graph-installed", "restore passes t=None (no re-construction over the saved graph)",
           isinstance(targ, ast.Constant) and targ.value is None, m.loc(inst_call), found=ast.unparse(targ) if targ is not None else None, accepted="None")

    # ------------------------------------------------------------- R2 artefact agreement
    # decided by abstract runs of save() and restore_cpgraph() with the file operations hooked (what is written where, what is read from where, in which order);
    # the shape rules that follow are diagnostics: they defer to the abstract runs where they do not recognise the code
    sem = _artefacts_eval(db, chk, m, fields)

    class _Gated:
        def ob(self, rule_, text_, verdict_, where_, **kw_):
            fnd = kw_.get("found")
            if sem is True and (verdict_ is None or (verdict_ is False and (fnd is None or fnd == [] or fnd == {} or (isinstance(fnd, dict) and all(v_ in (None, [], {}) for v_ in fnd.values()))))):
                return None
            return chk.ob(rule_, text_, verdict_, where_, **kw_)
    g = _Gated()
    try:
        roles_s, roles_r = {}, {}
        # csv
        tc = H.calls_named(save, "to_csv")
        rc = H.calls_named(restore, "read_csv")
        if len(tc) != 1 or len(rc) != 1:
            raise AnalysisError("expected one to_csv in save and one read_csv in restore")
        roles_s["trace_csv"] = _path_name(save, tc[0].args[0])
        roles_r["trace_csv"] = _path_name(restore, rc[0].args[0])
        g.ob("C19.R2-artefacts", "csv written from self.trace_df", H.is_self_attr(tc[0].func.value, "trace_df"), m.loc(tc[0]),
               found=ast.unparse(tc[0].func.value), accepted="self.trace_df")
        idx_label = lit(kwarg(tc[0], "index_label"))
        idx_on = lit(kwarg(tc[0], "index"), True)
        si = [c for c in H.calls_named(restore, "set_index") if _flows_from(restore, c.func.value, lambda x: x is rc[0]) or c.func.value is rc[0]]
        si_col = lit(si[0].args[0]) if si and si[0].args else None
        g.ob("C19.R2-artefacts", "csv index label = set_index column", bool(idx_on) and idx_label is not None and idx_label == si_col,
               m.loc(tc[0]), found={"index": idx_on, "index_label": idx_label, "set_index": si_col},
               accepted="index written under a label, and that label passed to set_index",
               why="otherwise the restored trace frame is not indexed by event id and every .loc[ev_idx] lookup breaks")
        trace_target = [a for a, v in restored_other.items() if _flows_from(restore, v, lambda c: c is rc[0]) or (isinstance(v, ast.Call) and any(x is rc[0] for x in ast.walk(v)))]
        g.ob("C19.R2-artefacts", "csv restored into trace_df", trace_target == ["trace_df"], m.loc(rc[0]), found=trace_target, accepted=["trace_df"])
        # pickles
        dumps = H.calls_named(save, "pickle.dump")
        loads = H.calls_named(restore, "pickle.load")
        for c in dumps:
            obj, fh = c.args[0], H.name_id(c.args[1])
            op = _open_of(save, c, fh)
            if op is None:
                raise AnalysisError(f"pickle.dump target {ast.unparse(c.args[1])} is not a `with open(...) as` handle")
            pname, mode = _path_name(save, op[0]), op[1]
            if _flows_from(save, obj, lambda x: call_name(x).endswith("node_link_data")):
                role = "graph_pkl"
            elif _flows_from(save, obj, lambda x: call_name(x) == "_CPGraphData"):
                role = "data_pkl"
            else:
                g.ob("C19.R2-artefacts", "pickle.dump object has a known role", None, m.loc(c), found=ast.unparse(obj))
                continue
            roles_s[role] = pname
            g.ob("C19.R2-artefacts", f"{role} opened for binary write", mode == "wb", m.loc(c), found=mode, accepted="wb")
        load_var = {}
        for t, v, _ in H.assignments(restore):
            if isinstance(t, ast.Name) and isinstance(v, ast.Call) and call_name(v).endswith("pickle.load"):
                load_var[t.id] = v
        # a load used in place: nx.node_link_graph(pickle.load(f))
        for x in H.calls_named(restore, "node_link_graph"):
            if x.args and isinstance(x.args[0], ast.Call) and call_name(x.args[0]).endswith("pickle.load") and not any(x.args[0] is v_ for v_ in load_var.values()):
                load_var[f"<inline {len(load_var)}>"] = x.args[0]
        for var, c in load_var.items():
            fh = H.name_id(c.args[0])
            op = _open_of(restore, c, fh)
            if op is None:
                raise AnalysisError("pickle.load source is not a `with open(...) as` handle")
            pname, mode = _path_name(restore, op[0]), op[1]
            nlg = [x for x in H.calls_named(restore, "node_link_graph") if x.args and (H.name_id(x.args[0]) == var or x.args[0] is c)]
            if nlg:
                role = "graph_pkl"
            elif var == pick_var:
                role = "data_pkl"
            else:
                g.ob("C19.R2-artefacts", "pickle.load result has a known role", None, m.loc(c), found=var)
                continue
            roles_r[role] = pname
            g.ob("C19.R2-artefacts", f"{role} opened for binary read", mode == "rb", m.loc(c), found=mode, accepted="rb")
        for role in ("trace_csv", "graph_pkl", "data_pkl"):
            a, b2 = roles_s.get(role), roles_r.get(role)
            g.ob("C19.R2-artefacts", f"file name of {role}: written = read", (a == b2) if a is not None and b2 is not None else None, m.loc(save), found={"save": a, "restore": b2},
                   accepted="same literal file name in save and restore",
                   why="a renamed or swapped artefact restores the wrong object or fails")
        # the artefacts read are those of THIS archive: extraction is unconditional
        ex = [c for c in H.calls(restore) if isinstance(c.func, ast.Attribute) and c.func.attr in ("extractall", "extract")]
        guards = []
        for c in ex:
            cur = m.parent.get(id(c))
            while cur is not None and cur is not restore:
                if isinstance(cur, (ast.If, ast.IfExp, ast.Try)):
                    guards.append(ast.unparse(cur.test)[:80] if hasattr(cur, "test") else "try")
                cur = m.parent.get(id(cur))
        zf = [c for c in H.calls(restore) if call_name(c).endswith("ZipFile")]
        g.ob("C19.R2-artefacts", "restore extracts the given archive unconditionally before reading the artefacts", len(ex) == 1 and not guards and len(zf) == 1 and
               H.name_id(zf[0].args[0]) == H.param_names(restore)[0] and all(H.before(ex[0], c) for c in H.calls(restore, nested=False) if call_name(c) in ("open", "pd.read_csv")), m.loc(restore),
               found={"extract": [ast.unparse(c) for c in ex], "guards": guards}, accepted="zipf.extractall(...) not under any condition",
               why="skipping extraction when the directory already exists restores the files of an earlier archive saved under the same name")
        # node-link convention
        nld = H.calls_named(save, "node_link_data")
        nlg = H.calls_named(restore, "node_link_graph")
        if len(nld) != 1 or len(nlg) != 1:
            raise AnalysisError("expected one node_link_data / node_link_graph call")
        conv_s = {k.arg: ast.unparse(k.value) for k in nld[0].keywords}
        conv_r = {k.arg: ast.unparse(k.value) for k in nlg[0].keywords if k.arg not in ("directed", "multigraph")}
        g.ob("C19.R2-artefacts", "node_link_data / node_link_graph use the same key convention", conv_s == conv_r, m.loc(nld[0]),
               found={"save": conv_s, "restore": conv_r}, accepted="identical keyword conventions (edges=/link=/source=/target=...)")
        g.ob("C19.R2-artefacts", "node-link data taken from the graph itself", len(nld[0].args) == 1 and H.name_id(nld[0].args[0]) == "self", m.loc(nld[0]),
               found=ast.unparse(nld[0].args[0]) if nld[0].args else None, accepted="self")
        forced = {k.arg: lit(k.value) for k in nlg[0].keywords if k.arg in ("directed", "multigraph")}
        g.ob("C19.R2-artefacts", "restore does not override graph kind", forced.get("directed", True) is True and forced.get("multigraph", False) in (False, None) or not forced,
               m.loc(nlg[0]), found=forced, accepted="directed / simple as recorded in the node-link data")
        # the payload travels untouched: node_link_data(self) -> pickle.dump, and pickle.load -> node_link_graph -> CPGraph(..., G)
        def uses_between(func, var, first_line, last_line, allowed_nodes):
            out = []
            for n in ast.walk(func):
                if isinstance(n, ast.Name) and n.id == var and first_line < n.lineno <= last_line and not any(n is a or any(n is y for y in ast.walk(a)) for a in allowed_nodes):
                    st = n
                    while m.parent.get(id(st)) is not None and not isinstance(st, ast.stmt):
                        st = m.parent.get(id(st))
                    txt = " ".join(ast.unparse(st).split())[:90]
                    if isinstance(st, ast.Expr) and isinstance(st.value, ast.Call) and call_name(st.value).split(".")[0] in ("logger", "logging", "print"):
                        continue          # a read inside a log statement does not change the payload
                    if txt not in out:
                        out.append(txt)
            return out
        dvar = next((H.name_id(t) for t, v, s_ in H.assignments(save) if v is nld[0]), None)
        dumps = [c for c in H.calls(save) if call_name(c) == "pickle.dump" and c.args and H.name_id(c.args[0]) == dvar]
        if dvar is None or len(dumps) != 1:
            g.ob("C19.R2-artefacts", "the node-link data is bound to a name and pickled once", None, m.loc(nld[0]), found={"name": dvar, "dumps": len(dumps)})
        else:
            touched = uses_between(save, dvar, nld[0].lineno, dumps[0].lineno, [dumps[0]])
            lossy = [t_ for t_ in touched if any(k_ in t_ for k_ in (".pop(", "del ", ".remove(", ".clear(", "] = "))]
            g.ob("C19.R2-artefacts", "the node-link data is pickled as produced (nothing reads or edits it between node_link_data and pickle.dump)", True if not touched else (False if lossy else None), m.loc(nld[0]), found=touched or "untouched",
                   accepted="d = nx.node_link_data(self); pickle.dump(d, f)", why="stripping an attribute that 'can be rebuilt' (e.g. weight from the CPEdge) loses every weight that validation had clamped")
        gvar = next((H.name_id(t) for t, v, s_ in H.assignments(restore) if v is nlg[0]), None)
        inst_calls = [c for c in H.calls(restore) if call_name(c) == "CPGraph"]
        if gvar is None or len(inst_calls) != 1:
            g.ob("C19.R2-artefacts", "the restored graph is bound to a name and installed once", None, m.loc(nlg[0]), found={"name": gvar, "constructions": len(inst_calls)})
        else:
            touched = uses_between(restore, gvar, nlg[0].lineno, inst_calls[0].lineno, [inst_calls[0]])
            lossy = [t_ for t_ in touched if any(k_ in t_ for k_ in (".pop(", "del ", ".remove(", ".clear(", "] = ", "remove_", "add_"))]
            g.ob("C19.R2-artefacts", "the unpickled graph is installed as read (nothing edits it between node_link_graph and CPGraph(...))", True if not touched else (False if lossy else None), m.loc(nlg[0]), found=touched or "untouched",
                   accepted="G = nx.node_link_graph(data); CPGraph(None, t_full, rank, G)")
        # zip members
        zw = [c for c in H.calls(save) if isinstance(c.func, ast.Attribute) and c.func.attr == "write" and "zip" in ast.unparse(c.func.value).lower()]
        zipped = sorted(filter(None, (_path_name(save, c.args[0]) for c in zw)))
        g.ob("C19.R2-artefacts", "zip contains exactly the three artefacts written", zipped == sorted(filter(None, roles_s.values())) and len(zipped) == 3,
               m.loc(save), found=zipped, accepted=sorted(filter(None, roles_s.values())),
               why="an artefact that is not archived is missing (or stale from an earlier save) at restore time")

    except AnalysisError:
        if sem is not True:
            raise
    chk.floor("C19.R2-artefacts", 10)


def _artefacts_eval(db, chk, m, fields):
    """save() and restore_cpgraph() evaluated with every file operation hooked.  Decided on the recorded operations: three artefacts are written (the trace frame as csv
    with its index under a label, the node-link data of the graph and the _CPGraphData record - every field from the like-named member - as binary pickles), the archive
    holds exactly these three, restore extracts the archive before it reads anything, reads each artefact under the name it was written with, rebuilds the graph from the
    loaded node-link data with the same key convention, and puts every saved member back under its own name.  Returns True / False / None."""
    from ..core.interp import Interp
    from ..core import terms as T
    from ..core.values import Frame, Obj, to_term
    rule = "C19.R2-artefacts"
    save_f = m.func("CPGraph.save")
    rest_f = m.func("restore_cpgraph")
    FIELDS = sorted(fields)

    def base(p_):
        t = to_term(p_)
        s_ = p_ if isinstance(p_, str) else None
        if s_ is None:
            cs = [x[1] for x in T.subterms(t) if T.is_const(x) and isinstance(x[1], str)]
            s_ = cs[-1] if cs else None
        return s_.split("/")[-1] if isinstance(s_, str) else None
    plain = lambda kw: {k: v for k, v in kw.items() if isinstance(v, (str, bool, int)) or v is None}
    ev = []
    extract_members = []          # (method, members argument) of every extraction call of the restore run

    def hook_s(I, name, pos, kw, node):
        last = name.split(".")[-1]
        if last == "to_csv":
            recv = I.eval(node.func.value) if isinstance(node.func, ast.Attribute) else None
            ev.append(("csv-write", base(pos[0] if pos else kw.get("path_or_buf")), plain(kw), recv.base if isinstance(recv, Frame) else None))
            return None
        if name == "open":
            return Obj("file", attrs={"path": pos[0], "mode": pos[1] if len(pos) > 1 else kw.get("mode", "r")})
        if last == "dump" and len(pos) >= 2:
            f_ = pos[1]
            ev.append(("dump", base(f_.attrs.get("path")) if isinstance(f_, Obj) else None, f_.attrs.get("mode") if isinstance(f_, Obj) else None, pos[0]))
            return None
        if last == "node_link_data":
            return Obj("NLD", attrs={"of": to_term(pos[0]) if pos else None, "kw": plain(kw)})
        if last == "ZipFile":
            ev.append(("zip-open", base(pos[0]), pos[1] if len(pos) > 1 else kw.get("mode", "r")))
            return Obj("zipfile")
        if last == "write" and isinstance(node.func, ast.Attribute) and isinstance(I.eval(node.func.value), Obj) and I.eval(node.func.value).name == "zipfile":
            ev.append(("zip-write", base(pos[0] if pos else kw.get("filename"))))
            return None
        if name.startswith("os.path.exists") or last in ("exists", "is_dir", "isdir"):
            return True
        if last in ("makedirs", "mkdir"):
            return None
        return NotImplemented
    TDF = ("param", "TRACE_DF")
    so = Obj("self", cls=(m, "CPGraph"), attrs={f_: T.P("M_" + f_) for f_ in FIELDS})
    so.attrs["trace_df"] = Frame(TDF)
    so.attrs["t"] = None
    try:
        runs_s = [r for r in Interp(db, call_hook=hook_s).explore(f"{CP}:CPGraph.save", lambda I: {"self": so, H.param_names(save_f)[1]: "/o/run1"}) if r.raised is None]
    except AnalysisError:
        runs_s = []
    chk.analysed_add("functions", [f"{CP}:CPGraph.save (abstract run)", f"{CP}:restore_cpgraph (abstract run)"])
    verdicts = []

    def ob(text, verdict, where, **kw):
        verdicts.append(verdict)
        chk.ob(rule, "[abstract run] " + text, verdict, where, **kw)
    if len(runs_s) != 1 or runs_s[0].path:
        ob("save() evaluated on one path", None, m.loc(save_f), found=len(runs_s))
        return None
    ev_s = list(ev)
    csvw = [e for e in ev_s if e[0] == "csv-write"]
    dumps = [e for e in ev_s if e[0] == "dump"]
    gdump = [e for e in dumps if isinstance(e[3], Obj) and e[3].name == "NLD"]
    ddump = [e for e in dumps if isinstance(e[3], Obj) and e[3].cls is not None and e[3].cls[1] == "_CPGraphData"]
    okw = len(csvw) == 1 and len(gdump) == 1 and len(ddump) == 1 and len(dumps) == 2
    ob("save writes three artefacts: the trace frame as csv, the graph's node-link data and the _CPGraphData record as pickles", okw if (csvw or dumps) else None, m.loc(save_f),
       found=[(e[0], e[1]) for e in ev_s if e[0] in ("csv-write", "dump")], accepted=["csv-write", "dump (node-link data)", "dump (_CPGraphData)"])
    if not okw:
        return False if (csvw or dumps) else None
    names_w = {"trace_csv": csvw[0][1], "graph_pkl": gdump[0][1], "data_pkl": ddump[0][1]}
    ob("the csv is written from self.trace_df with its index under a label", csvw[0][3] == TDF and csvw[0][2].get("index", True) is True and isinstance(csvw[0][2].get("index_label"), str), m.loc(save_f),
       found={"frame": T.show(csvw[0][3]) if csvw[0][3] else None, **csvw[0][2]}, accepted="self.trace_df.to_csv(path, index=True, index_label=<label>)",
       why="the restored trace frame must be indexed by event id again")
    ob("both pickles are opened for binary writing and the graph pickle holds nx.node_link_data(self)", gdump[0][2] == "wb" and ddump[0][2] == "wb" and gdump[0][3].attrs.get("of") == ("obj", "self"), m.loc(save_f),
       found={"modes": [gdump[0][2], ddump[0][2]], "graph data of": T.show(gdump[0][3].attrs.get("of")) if gdump[0][3].attrs.get("of") else None}, accepted="wb / wb / node_link_data(self)")
    rec = {k: to_term(v) for k, v in ddump[0][3].attrs.items() if k != "__fields__"}
    ob("every field of the saved record is the like-named member of the graph", rec == {f_: T.P("M_" + f_) for f_ in FIELDS}, m.loc(save_f),
       found={k: T.show(v)[:40] for k, v in rec.items() if v != T.P("M_" + k)} or "all fields", accepted="field=self.field for every field of _CPGraphData",
       why="the saved value of a field must be the like-named attribute, else restore installs another attribute's value")
    zw = [e[1] for e in ev_s if e[0] == "zip-write"]
    zo = [e for e in ev_s if e[0] == "zip-open"]
    ob("the archive is written anew and holds exactly the three artefacts", len(zo) == 1 and zo[0][2] in ("w", "x") and sorted(map(str, zw)) == sorted(map(str, names_w.values())) and None not in zw, m.loc(save_f),
       found={"mode": zo[0][2] if zo else None, "members": zw}, accepted=sorted(names_w.values()), why="an artefact that is not archived is missing (or stale from an earlier save) at restore time")
    # ---- restore
    ev.clear()

    def hook_r(I, name, pos, kw, node):
        last = name.split(".")[-1]
        if last == "ZipFile":
            ev.append(("zip-open", base(pos[0]), pos[1] if len(pos) > 1 else kw.get("mode", "r")))
            return Obj("zipfile")
        if last == "namelist":
            return [f"o/run1/{names_w['trace_csv']}", f"o/run1/{names_w['graph_pkl']}", f"o/run1/{names_w['data_pkl']}"]
        if last == "infolist":
            return [Obj("zipinfo", attrs={"filename": f"o/run1/{names_w[k_]}", "file_size": T.P(f"SIZE_{k_}")}) for k_ in ("trace_csv", "graph_pkl", "data_pkl")]
        if last in ("extractall", "extract"):
            mem = kw.get("members", pos[1] if last == "extractall" and len(pos) > 1 else None) if last == "extractall" else kw.get("member", pos[0] if pos else None)
            ev.append(("extract", len(I.run.path)))
            extract_members.append((last, mem))
            return None
        if name == "open":
            return Obj("file", attrs={"path": pos[0], "mode": pos[1] if len(pos) > 1 else kw.get("mode", "r")})
        if last == "load" and pos and isinstance(pos[0], Obj) and pos[0].name == "file":
            b_ = base(pos[0].attrs.get("path"))
            ev.append(("load", b_, pos[0].attrs.get("mode")))
            if b_ == names_w["graph_pkl"]:
                return Obj("NLD-loaded")
            return Obj("DATA-loaded", cls=(m, "_CPGraphData"), attrs={f_: T.P("S_" + f_) for f_ in FIELDS})
        if last == "read_csv":
            ev.append(("csv-read", base(pos[0] if pos else kw.get("filepath_or_buffer"))))
            return Frame(("param", "CSV"), known=[csvw[0][2].get("index_label") or "?", "ts", "dur", "name"])
        if last == "node_link_graph":
            ev.append(("nlg", to_term(pos[0]) if pos else None, plain(kw)))
            return Obj("G")
        if name == "CPGraph" or (name == "cls" and I.stack and I.stack[-1].qualname.startswith("CPGraph.")):          # (also cls(...) inside a classmethod of CPGraph)
            ev.append(("ctor", [to_term(p_) for p_ in pos], {k: to_term(v) for k, v in kw.items()}))
            return Obj("RESTORED", cls=(m, "CPGraph"))
        if name.startswith("os.path.exists") or last in ("exists", "is_dir", "isdir", "isfile", "is_file"):
            return disk_full[0]          # (files left over from an earlier restore must not change what is read: both disk states are run)
        if last == "getsize" and disk_full[0]:
            b_ = base(pos[0]) if pos else None
            k_ = next((k for k in ("trace_csv", "graph_pkl", "data_pkl") if names_w.get(k) == b_), None)
            return T.P(f"SIZE_{k_}") if k_ else NotImplemented          # ... of the same sizes as the members of the archive being restored
        return NotImplemented
    rp = H.param_names(rest_f)
    disk_full = [True]
    # second disk state first: an earlier extraction of a like-named archive is still there (every file exists, with the sizes of the new members)
    try:
        runs_full = [r for r in Interp(db, call_hook=hook_r).explore(f"{CP}:restore_cpgraph", lambda I: {rp[0]: "/x/run1.zip", rp[1]: Obj("t_full"), rp[2]: T.P("RANK")}) if r.raised is None]
    except AnalysisError:
        runs_full = []
    ext_full = list(extract_members)
    if runs_full and len(ext_full) == len(runs_full):          # (one extraction on every explored path; alternatives are the handlers of exceptions the disk tests might raise)
        verdicts = []
        for how, mem in ext_full:
            full = how == "extractall" and (mem is None or (isinstance(mem, list) and len(mem) == 3 and all(isinstance(x_, (str, Obj)) for x_ in mem)))
            empty = isinstance(mem, list) and len(mem) < 3
            verdicts.append(True if full else (False if (empty or how == "extract") else None))
        how, mem = next(((h_, m_) for (h_, m_), v_ in zip(ext_full, verdicts) if v_ is not True), ext_full[0])
        ob("with the files of an earlier extraction still on disk (same names, same sizes) restore still extracts EVERY member of the archive", False if False in verdicts else (None if None in verdicts else True), m.loc(rest_f),
           found={"call": how, "members": "all" if mem is None else (f"list of {len(mem)}" if isinstance(mem, list) else T.show(to_term(mem))[:200]), "paths": len(runs_full)}, accepted="extractall(path) / extractall(path, members=<the full listing>)",
           why="members left out because a like-named (or like-sized) file is already on disk are read from an EARLIER save under the same name: the second cycle restores the first graph")
    elif runs_full:
        ob("with the files of an earlier extraction still on disk restore runs on one path with one extraction", None, m.loc(rest_f), found={"paths": len(runs_full), "extractions": len(ext_full)})
    del ev[:]
    del extract_members[:]
    disk_full[0] = False
    try:
        runs_r = [r for r in Interp(db, call_hook=hook_r).explore(f"{CP}:restore_cpgraph", lambda I: {rp[0]: "/x/run1.zip", rp[1]: Obj("t_full"), rp[2]: T.P("RANK")}) if r.raised is None]
    except AnalysisError:
        runs_r = []
    if len(runs_r) != 1 or not isinstance(runs_r[0].ret, Obj):
        ob("restore_cpgraph evaluated on one path returning the graph", None, m.loc(rest_f), found=len(runs_r))
        return None
    ev_r = list(ev)
    kinds = [e[0] for e in ev_r]
    first_read = min([i_ for i_, k in enumerate(kinds) if k in ("load", "csv-read")], default=None)
    ext = [i_ for i_, k in enumerate(kinds) if k == "extract"]
    ob("restore extracts the given archive unconditionally before it reads an artefact", len(ext) == 1 and first_read is not None and ext[0] < first_read and ev_r[ext[0]][1] == 0 and not runs_r[0].path, m.loc(rest_f),
       found=kinds, accepted="ZipFile(zip).extractall(..) first, under no condition", why="skipping extraction when the directory already exists restores the files of an earlier archive saved under the same name")
    # ... and extracts ALL of it: extractall() without a member selection (or with the archive's own full listing)
    if len(ext) == 1 and len(extract_members) == 1:
        how, mem = extract_members[0]
        full = how == "extractall" and (mem is None or (isinstance(mem, list) and len(mem) == 3 and all(isinstance(x_, (str, Obj)) for x_ in mem)))
        understood_subset = how == "extract" or not full          # one member, or a selection computed from the listing (what is on disk already, a name test, ...)
        ob("restore extracts EVERY member of the archive (no selection of members)", True if full else (False if understood_subset else None), m.loc(rest_f),
           found={"call": how, "members": "all" if mem is None else (T.show(to_term(mem))[:200] if not isinstance(mem, list) else f"list of {len(mem)}")}, accepted="extractall(path) / extractall(path, members=<the full listing>)",
           why="members left out because a like-named (or like-sized) file is already on disk are read from an EARLIER save under the same name: the second cycle restores the first graph")
    reads = {"trace_csv": [e[1] for e in ev_r if e[0] == "csv-read"], "pickles": [(e[1], e[2]) for e in ev_r if e[0] == "load"]}
    ob("each artefact is read under the name it was written with (pickles opened for binary reading)",
       reads["trace_csv"] == [names_w["trace_csv"]] and sorted(reads["pickles"]) == sorted([(names_w["graph_pkl"], "rb"), (names_w["data_pkl"], "rb")]), m.loc(rest_f),
       found=reads, accepted={"csv": names_w["trace_csv"], "pickles": [names_w["graph_pkl"], names_w["data_pkl"]]}, why="a renamed or swapped artefact restores the wrong object or fails")
    nlg = [e for e in ev_r if e[0] == "nlg"]
    ctor = [e for e in ev_r if e[0] == "ctor"]
    ob("the graph is rebuilt from the loaded node-link data with the key convention it was written with, and installed through CPGraph(None, t_full, rank, G)",
       None if (not nlg or not ctor) else len(nlg) == 1 and nlg[0][1] == ("obj", "NLD-loaded") and nlg[0][2] == gdump[0][3].attrs.get("kw") and len(ctor) == 1 and
       (ctor[0][1] + [ctor[0][2].get(k) for k in ("t", "t_full", "rank", "G") if k in ctor[0][2]])[:1] in ([T.NONE], [None]) and ("obj", "G") in ctor[0][1] + list(ctor[0][2].values()), m.loc(rest_f),
       found={"node_link_graph": [(T.show(e[1]) if e[1] else None, e[2]) for e in nlg], "constructor": [[T.show(x) for x in e[1]] for e in ctor]},
       accepted="G = nx.node_link_graph(<loaded graph pickle>, same keywords as node_link_data); CPGraph(None, t_full, rank, G)")
    R = runs_r[0].ret
    back = {f_: to_term(R.attrs.get(f_)) if f_ in R.attrs else None for f_ in FIELDS}
    ob("every saved member is put back under its own name", back == {f_: T.P("S_" + f_) for f_ in FIELDS}, m.loc(rest_f),
       found={k: (T.show(v)[:40] if v is not None else None) for k, v in back.items() if v != T.P("S_" + k)} or "all members", accepted="restored.field = loaded.field for every field",
       why="every saved field must be copied back to the like-named attribute of the restored graph")
    tdf = R.attrs.get("trace_df")
    lab = csvw[0][2].get("index_label")
    okidx = isinstance(tdf, Frame) and tdf.base == ("param", "CSV") and (getattr(tdf, "index_name", None) == lab or lab in (getattr(tdf, "index_keys", None) or []) or T.show(getattr(tdf, "index", "")).find(str(lab)) >= 0)
    ob("the trace frame is the csv that was read, indexed by the label the index was written under", okidx if isinstance(tdf, Frame) else None, m.loc(rest_f),
       found={"index": T.show(tdf.index)[:80] if isinstance(tdf, Frame) and tdf.index is not None else None, "label": lab}, accepted=f"pd.read_csv(..).set_index({lab!r})",
       why="otherwise the restored trace frame is not indexed by event id and every .loc[ev_idx] lookup breaks")
    return False if any(v is False for v in verdicts) else (None if any(v is None for v in verdicts) else True)


def _decode_always(db, chk, rule="C19.R5-recomputation-on-a-restored-graph"):
    """a restored graph carries the trace frame read back from the CSV (decoded string columns included, with empty strings read back as NaN): the breakdown must
    not trust them - it decodes the names from the symbol table on EVERY call, on every path that builds the table"""
    from ..core.interp import Interp
    from ..core.values import Frame, Obj
    from ..core import terms as T
    m = db.mod(MOD)
    fn = m.func("CPGraph.get_critical_path_breakdown")
    where = m.loc(fn)
    TD = ("param", "TD")

    def hook(I, name, pos, kw, node):
        if name.split(".")[-1] == "decode_symbol_id_to_symbol_name":
            I.log("decode", node)
            fr = pos[0] if pos else kw.get("df")
            if isinstance(fr, Frame):
                fr.setcol("s_name", T.P("DECODED_NAME"))
                fr.setcol("s_cat", T.P("DECODED_CAT"))
            return None
        return NotImplemented
    I = Interp(db, call_hook=hook)
    mk = lambda I: {"self": Obj("self", cls=(m, "CPGraph"), attrs={"trace_df": Frame(TD), "symbol_table": Obj("symtab"), "critical_path_nodes": T.P("CRITICAL_NODES"),
                                                                "critical_path_edges_set": T.P("CRITICAL_EDGES"), "edge_to_event_map": T.P("EDGE_MAP")})}
    try:
        runs = [r for r in I.explore(f"{MOD}:CPGraph.get_critical_path_breakdown", mk) if r.raised is None and isinstance(r.ret, Frame)]
    except Exception as e:          # noqa
        chk.ob(rule, "get_critical_path_breakdown is analysable", None, where, found=str(e)[:120])
        return
    if not runs or len(runs) > 8:
        chk.ob(rule, "get_critical_path_breakdown: paths that build the table", None, where, found=len(runs))
        return
    for r in runs:
        n = sum(1 for e in r.events if e["kind"] == "decode")
        cond = T.show(r.cond())[:80] if r.path else "always"
        chk.ob(rule, f"the breakdown decodes the names from the symbol table on this call [{cond}]", n >= 1, where, found=f"{n} decode call(s)", accepted="decode_symbol_id_to_symbol_name(trace_df, ...) on every path",
               why="after save / restore the frame's s_name column comes from the CSV (an empty short name is read back as NaN): skipping the decode when the column exists makes the restored graph's breakdown fail or differ")
