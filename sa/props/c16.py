"""C16 - frequent kernel sequences count exactly the kernels launched under each operator (structural clauses)."""
from __future__ import annotations

import ast

from ..core import terms as T
from ..core import asthelp as H
from ..core.interp import Interp, assume
from ..core.progdb import AnalysisError, walk_no_nested, lit
from ..core.values import Frame, Obj, PyTuple, to_term
from ..specs.merge import check_term

EXPLANATION = (
    "Symbolic evaluation of CudaKernelAnalysis.get_frequent_cuda_kernel_sequences (root selection: name id among the symbols containing operator_name, depth == minimum depth over "
    "ALL those candidates, num_kernels >= min_pattern_len; per root: the stack of the root without ancestors, its device rows sorted by ts, pattern = (root name,) + their names, "
    "count += 1, durations += (root's kernel_dur_sum, root's dur)), of _generate_frequent_pattern_results (rows ordered by count descending), and an interprocedural abstract evaluation "
    "of CallGraph.get_stack_of_node -> CallStackGraph.get_descendants -> get_paths_to_leaves._dfs on a two-node abstract tree (host root, device child) with the arguments actually "
    "passed: the device child must be retained. Correctness of the composed tree is C03/C13."
    " Later additions: stack columns published after the threads are linked; kernel totals incl. event id 0; unconditional ordering of the result."
)
CK = "hta.analyzers.cuda_kernel_analysis"
CS = "hta.common.trace_call_stack"
CG = "hta.common.trace_call_graph"


def _ob_absent(chk, *a, **k):
    return chk.ob(*a, absent_is_unknown=True, **k)


def run(db, chk) -> None:
    from ..specs.discipline import check_shared_trace_untouched
    check_shared_trace_untouched(db, chk, "C16.R-shared-trace")
    from ..specs.discipline import check_facade_stateless
    check_facade_stateless(db, chk, "C16.R-facade-stateless", ['get_frequent_cuda_kernel_sequences'])
    from ..specs.discipline import check_stateless
    check_stateless(db, chk, "C16.R-stateless", ['hta.analyzers.cuda_kernel_analysis'])      # the result is a function of the arguments: no state kept between calls, caller's Trace untouched
    chk.floor("C16.R-stateless", 4)
    m = db.mod(CK)
    _roots_and_patterns(db, chk, m)
    _results(db, chk, m)
    from .c13 import check_stack_labels
    check_stack_labels(db, chk, "C16.R7-thread-labels")          # which thread hangs beneath which decides the depth of the operator instances that are counted
    from .c03 import host_rows_complete
    host_rows_complete(db, chk, "C16.R6-tree-complete")          # the patterns are read off the call tree: every host event of the thread must be a node of it
    _descendants(db, chk)
    _tree_dependency(db, chk)
    from .c13 import check_publish_order
    check_publish_order(db, chk, "C16.R5-stack-columns-final")      # the columns the analysis selects operators by are the linked tree's
    chk.floor("C16.R5-stack-columns-final", 3)
    from .c13 import _backward as _bw13, CG as _CG13, CS as _CS13b
    _bw13(db, chk, db.mod(_CS13b), db.mod(_CG13), rule="C16.R7-backward-attachment")       # which autograd operators hang beneath the annotation decides the depth the analysis selects roots by
    from .c13 import _kernel_info, CS as _CS13
    _kernel_info(db, chk, db.mod(_CS13), rule="C16.R6-kernel-totals")      # num_kernels / kernel_dur_sum, the columns roots are selected and durations summed by


def _tree_dependency(db, chk):
    """the kernels 'launched beneath' an operator are defined by the call stack of trace_call_stack: the endpoint tie rules that decide ownership at shared instants"""
    from ..specs import comparators as C
    from .c03 import _const, NEW
    new = db.mod(NEW)
    tab = C.extract(db, f"{NEW}:_less_than", C.array_args, _const(new, "OPEN_END"), _const(new, "CLOSE_END"), True)
    where = new.loc(new.func("_less_than"))
    if C.observation_discipline(tab.paths):
        chk.ob("C16.R4-ownership-at-shared-instants", "comparator analysable", None, where, found=C.observation_discipline(tab.paths)[:3])
        return
    why = {"PC<PO": "an operator that starts exactly when the previous one ends must be its sibling, otherwise its kernels are counted under the previous operator",
           "PO/PO": "operators starting together: the longer one is the ancestor", "PC/PC": "operators ending together: the inner one closes first"}
    for k, bad in C.sibling_nesting_rules(tab).items():
        chk.ob("C16.R4-ownership-at-shared-instants", f"call-stack endpoint order, rule {k}", not bad, where, found=bad[:3], accepted="holds on every representative pair", why=why[k])


def _roots_and_patterns(db, chk, m):
    ref = f"{CK}:CudaKernelAnalysis.get_frequent_cuda_kernel_sequences"
    fn = m.func("CudaKernelAnalysis.get_frequent_cuda_kernel_sequences")
    where = m.loc(fn)
    chk.analysed_add("functions", ref)
    TR, STK = ("param", "TR"), ("param", "STACK")
    stack_calls, final = [], []

    def hook(I, name, pos, kw, node):
        if name == "is_valid_directory":
            return Obj("vp", attrs={"success": True, "reason": ""})
        if name == "CallGraph":
            return Obj("cg")
        if name == "t.get_trace":
            return Frame(TR)
        if name == "t.symbol_table.get_sym_id_map":
            return T.P("SYMIDX")
        if name.endswith(".get_stack_of_node"):
            stack_calls.append(([to_term(p) for p in pos], {k: to_term(v) for k, v in kw.items()}))
            return Frame(STK)
        if name == "cls._generate_frequent_pattern_results":
            final.append(pos)
            return Frame(("result",))
        return NotImplemented

    I = Interp(db, call_hook=hook, decide=assume(("truthy", T.P("operator_name"))))
    runs = I.explore(ref, lambda I: {"cls": Obj("cls", cls=(m, "CudaKernelAnalysis")), "t": Obj("t", attrs={"symbol_table": Obj("symtab", cls=(db.mod("hta.common.trace_symbol_table"), "TraceSymbolTable"))}), "operator_name": T.P("operator_name"),
                                     "output_dir": "/out", "min_pattern_len": T.P("min_pattern_len"), "rank": T.P("rank"), "top_k": T.P("top_k"), "visualize": False})
    runs = [r for r in runs if r.raised is None and isinstance(r.ret, Frame) and r.ret.base == ("result",)]
    if len(runs) != 1:
        chk.ob("C16.R1-root-selection", "one normal path reaching the result generation", None, where, found=len(runs))
        return
    r = runs[0]
    rn = next((v for v in r.env.values() if isinstance(v, Frame) and v.base == TR and T.find(v.rows, lambda s: s[0] == "agg")), None)
    NAME, DEPTH = T.col(TR, "name"), T.col(TR, "depth")
    if not isinstance(rn, Frame):
        chk.ob("C16.R1-root-selection", "root_nodes is a selection of the trace frame", None, where)
        return
    conj = set(rn.rows[1]) if rn.rows[0] == "and" else {rn.rows}
    cand = [c for c in conj if c[0] == "in" and c[1] == NAME]
    # [id for name, id in <the trace's symbol map>.items() if operator_name in name]  (the map reached through the getter or inside a helper of the table)
    okc = len(cand) == 1 and cand[0][2][0] == "comp" and any(k_ in T.show(cand[0][2][3]) for k_ in ("SYMIDX", "sym_index", "sym_id_map")) and ".items" in T.show(cand[0][2][3]) \
        and cand[0][2][2] == ("item", ("elem", cand[0][2][3]), 1) \
        and T.find(cand[0][2][4], lambda s: s[0] == "in" and s[1] == T.P("operator_name") and s[2] == ("item", ("elem", cand[0][2][3]), 0)) != []
    chk.ob("C16.R1-root-selection", "candidates = events whose name id belongs to the symbols whose string CONTAINS operator_name", okc, where, found=[T.show(c)[:200] for c in cand],
           accepted="name.isin([idx for name, idx in sym_index.items() if operator_name in name])")
    if okc:
        cctx = (TR, cand[0], None)
        exp_depth = T.cmp("==", DEPTH, T.agg("min", DEPTH, cctx))
        exp_nk = T.cmp(">=", T.col(TR, "num_kernels"), T.P("min_pattern_len"))
        chk.ob("C16.R1-root-selection", "roots are at the SHALLOWEST depth at which the name occurs: depth == min(depth) over all candidates (before the kernel-count filter)", exp_depth in conj, where,
               found=[T.show(c)[:200] for c in conj if DEPTH in T.find(c, lambda s: s[0] == "col")], accepted=T.show(exp_depth)[:200],
               why="taking the minimum over candidates that launch enough kernels lets a nested instance become a root when the shallowest ones launch too few")
        chk.ob("C16.R1-root-selection", "roots launch at least min_pattern_len kernels (num_kernels >= min_pattern_len)", exp_nk in conj and len(conj) == 3, where,
               found=[T.show(c)[:100] for c in conj if c not in cand and c != exp_depth], accepted=T.show(exp_nk))
    # per root
    ok_call = len(stack_calls) == 1 and stack_calls[0][0] == [("at", ("row",), T.col(TR, "index"))] and stack_calls[0][1] == {"skip_ancestors": T.C(True)}
    chk.ob("C16.R2-pattern", "each root contributes the call stack beneath ITS id, without ancestors", ok_call, where, found=[[T.show(x)[:60] for x in a] + [str(k) for k in kw.items()] for a, kw in stack_calls],
           accepted="cg.get_stack_of_node(index, skip_ancestors=True)")
    # the kernel list of an instance is read off the pattern key itself: tolist(STACK.name) in some row context of the stack frame
    cnt_ev = [e for e in r.events if e["kind"] == "dict-store" and e.get("module") == m.name and e["value"] == T.C(1)]
    pat = cnt_ev[0]["key"] if len(cnt_ev) == 1 else T.opaque("pattern key not found")
    tl = [s_ for s_ in T.find(pat, lambda s_: s_[0] == "tolist" and len(s_) == 3 and s_[1] == T.col(STK, "name"))]
    kctx = tl[0][2] if len(tl) == 1 and isinstance(tl[0][2], tuple) and len(tl[0][2]) == 3 else None
    okk = kctx is not None and kctx[0] == STK and isinstance(kctx[2], tuple) and kctx[2] and kctx[2][0] == "sort" and kctx[2][1] == (T.col(STK, "ts"),) and kctx[2][2] is True
    tt = None
    if kctx is not None:
        try:
            tt = {sv: bool(T.evaluate(kctx[1], lambda leaf, sv=sv: sv if leaf == T.col(STK, "stream") else (_ for _ in ()).throw(T.Unknown(leaf)))) for sv in (-1, 1, 7)}
        except T.Unknown:
            tt = None
    chk.ob("C16.R2-pattern", "kernels of an instance = the device rows of its stack (truth table over stream), in start-time order", (okk and tt == {-1: False, 1: True, 7: True}) if kctx is not None else None, where,
           found={"table": tt, "order": T.show_order(kctx[2]) if kctx is not None else None}, accepted="stack.loc[stream != -1] sorted by ts ascending")
    root_name = ("at", ("row",), NAME)
    # the key is a tuple whose FIRST component is the root's name and whose remaining components are exactly that kernel list
    okp = False
    if pat[0] == "tuple" and len(pat) == 2 and isinstance(pat[1], tuple):
        inner = pat[1]
        if inner and inner[0] == "listcat":                                            # tuple([name] + kernels)
            okp = inner[1] == ("list", (root_name,)) and len(tl) == 1 and inner[2] == tl[0]
        elif len(inner) == 2 and inner[0] == root_name:                               # (name, *kernels)
            okp = isinstance(inner[1], tuple) and inner[1][0] == "starred" and len(tl) == 1 and inner[1][1] == tl[0]
    chk.ob("C16.R2-pattern", "pattern = (the root's name,) followed by the names of those kernels", okp if not T.has_opaque(pat) else None, where, found=T.show(pat)[:200], accepted="tuple([name] + cuda_kernels['name'].tolist())")
    cnt = cnt_ev
    okcnt = len(cnt) == 1 and cnt[0]["key"] == pat and cnt[0]["value"] == T.C(1)
    _ob_absent(chk, "C16.R2-pattern", "each instance adds 1 to its pattern's count", okcnt, where, found=[(T.show(e["value"])[:40]) for e in cnt], accepted="pattern_counts[pattern] += 1")
    dur = [e for e in r.events if e["kind"] == "list-store" and e.get("module") == m.name]
    vals = {T.show(e["key"]): e["value"] for e in dur}
    okd = vals.get("0") == ("at", ("row",), T.col(TR, "kernel_dur_sum")) and vals.get("1") == ("at", ("row",), T.col(TR, "dur")) and len(dur) == 2
    _ob_absent(chk, "C16.R2-pattern", "durations: [0] += the root's kernel_dur_sum (GPU), [1] += the root's dur (CPU)", okd, where, found={k: T.show(v)[:60] for k, v in vals.items()},
           accepted={"0": "kernel_dur_sum of the root", "1": "dur of the root"}, why="the loop unpacks (index, name, dur, kernel_dur_sum) positionally from the projected columns")
    proj = rn and [e for e in r.events if e["kind"] == "project" and e.get("cols") == ["index", "name", "dur", "kernel_dur_sum"]]
    # (only relevant when the loop unpacks rows of a projected frame positionally; a zip over explicitly named columns binds by name)
    by_name = any(e["kind"] == "loop-enter" and isinstance(e.get("iter"), tuple) and e["iter"] and e["iter"][0] == "zip" for e in r.events)
    positional = any(e["kind"] == "loop-enter" and "itertuples" in T.show(e.get("iter")) for e in r.events)
    chk.ob("C16.R2-pattern", "the positional unpacking agrees with the projected column order", True if (bool(proj) or (by_name and okd)) else (False if positional and okd is False and vals else None), where, found=[e.get("cols") for e in r.events if e["kind"] == "project"][:4], accepted=["index", "name", "dur", "kernel_dur_sum"])
    chk.floor("C16.R1-root-selection", 3)
    chk.floor("C16.R2-pattern", 5)


def _results(db, chk, m):
    """_generate_frequent_pattern_results, evaluated: the returned table has one row per pattern of the counts dict, carrying that pattern's count and its
    accumulated GPU / CPU durations, ordered by count descending (the overlay and the file writing are hooked)."""
    rule = "C16.R2-result-order"
    q = "CudaKernelAnalysis._generate_frequent_pattern_results"
    f = m.func(q)
    where = m.loc(f)
    params = H.param_names(f)
    need = ["pattern_counts", "pattern_durations", "pattern_occurrences"]
    if not set(need) <= set(params):
        chk.ob(rule, "_generate_frequent_pattern_results(pattern_counts, pattern_durations, pattern_occurrences, ...) recognised", None, where, found=params)
        return

    def hook(I, name, pos, kw, node):
        if name.endswith("_overlay_frequent_patterns_with_trace"):
            return {}
        if name.endswith("write_raw_trace"):
            return None
        if name.endswith("get_sym_table"):
            return T.P("SYMTAB")
        return NotImplemented
    env = {"cls": Obj("cls", cls=(m, "CudaKernelAnalysis")), "t": Obj("t", attrs={"trace_files": T.P("FILES")}), "pattern_counts": T.P("COUNTS"), "pattern_durations": T.P("DURS"),
           "pattern_occurrences": T.P("OCC"), "rank": T.P("RANK"), "top_k": T.P("K"), "output_dir": "/o", "compress_other_kernels": True, "visualize": False}
    if not set(params) <= set(env):
        chk.ob(rule, "parameters of _generate_frequent_pattern_results recognised", None, where, found=sorted(set(params) - set(env)))
        return
    I = Interp(db, call_hook=hook)
    runs = [r for r in I.explore(f"{CK}:{q}", lambda I: {k: v for k, v in env.items() if k in params}) if r.raised is None]
    chk.analysed_add("functions", f"{CK}:{q}")
    frames = [r.ret for r in runs if isinstance(r.ret, Frame)]
    if not frames or len(frames) != len(runs):
        chk.ob(rule, "every path returns the pattern table", None, where, found={"paths": len(runs), "frames": len(frames)})
        return
    ITEMS = ("call", "$COUNTS.items")
    PAT, CNT = ("item", ("elem", ITEMS), 0), ("item", ("elem", ITEMS), 1)

    def per_item(t):
        """the value of one row as a term over the (pattern, count) item it was built from; None when the column is not one value per item of pattern_counts"""
        while isinstance(t, tuple) and t and t[0] in ("coldata", "list") and len(t) == 2:
            t = t[1]
        if isinstance(t, tuple) and len(t) == 1 and isinstance(t[0], tuple) and t[0] and t[0][0] == "each":
            return t[0][1]
        if isinstance(t, tuple) and len(t) == 5 and t[0] == "comp" and t[1] == "list" and t[3] == ITEMS and t[4] == T.TRUE:
            return t[2]
        return None
    want = {"count": CNT, "GPU kernel duration (us)": ("getitem", ("getitem", T.P("DURS"), PAT), T.C(0)), "CPU op duration (us)": ("getitem", ("getitem", T.P("DURS"), PAT), T.C(1))}
    for R in frames[:1] if all(fr.cols == frames[0].cols and fr.order == frames[0].order for fr in frames) else frames:
        o_ = R.order
        okord = None
        det = T.show_order(o_)[:200]
        if isinstance(o_, tuple) and o_ and o_[0] == "sort":
            _, by, asc, kind, prev = o_
            first = per_item(by[0]) if by else None
            asc0 = (asc[0] if isinstance(asc, (list, tuple)) else asc) if by else None
            okord = (first == CNT and asc0 is False) if first is not None else None
            if first is not None and first != CNT:
                okord = False
        elif o_ is None:
            okord = False
        chk.ob(rule, "result rows are ordered by count, descending", okord, where, found=det, accepted="sort_values(by=['count', ...], ascending=[False, ...])")
        got = {c: per_item(R.col(c)) if R.has(c) else None for c in want}
        verdict = None if any(v is None for v in got.values()) else all(got[c] == want[c] for c in want)
        chk.ob(rule, "reported count / GPU / CPU durations are the accumulated values of the pattern (index 0 = GPU, 1 = CPU)", verdict, where,
               found={c: T.show(v)[:80] if v is not None else "not one value per pattern" for c, v in got.items()}, accepted="count, pattern_durations[pattern][0] -> GPU, [1] -> CPU")


def _descendants(db, chk):
    rule = "C16.R3-device-descendants-retained"
    cs, cg = db.mod(CS), db.mod(CG)
    gs = cg.func("CallGraph.get_stack_of_node")
    calls = [c for c in ast.walk(gs) if isinstance(c, ast.Call) and isinstance(c.func, ast.Attribute) and c.func.attr == "get_descendants"]
    if len(calls) != 1:
        chk.ob(rule, "get_stack_of_node asks the call stack for the descendants of the node", None, cg.loc(gs), found=len(calls))
        return
    gd = cs.func("CallStackGraph.get_descendants")
    b = H.bind_call(gd, calls[0])
    extra = {k: lit(v) for k, v in b.items() if k != "idx"}
    if any(v is None for v in extra.values()):
        chk.ob(rule, "extra arguments of get_descendants are literals", None, cg.loc(calls[0]), found={k: ast.unparse(v) for k, v in b.items()})
        return
    ROOT, KID = T.P("ROOT"), T.P("KID")
    nodes = {ROOT: Obj("root", attrs={"device": ("enum", "DeviceType", "CPU"), "children": [KID]}), KID: Obj("kid", attrs={"device": ("enum", "DeviceType", "GPU"), "children": []})}
    I = Interp(db)
    runs = [r for r in I.explore(f"{CS}:CallStackGraph.get_descendants", lambda I: dict({"self": Obj("self", cls=(cs, "CallStackGraph"), attrs={"nodes": nodes}), "idx": ROOT}, **extra)) if r.raised is None]
    chk.analysed_add("functions", [f"{CG}:CallGraph.get_stack_of_node", f"{CS}:CallStackGraph.get_descendants", f"{CS}:CallStackGraph.get_paths_to_leaves"])
    if len(runs) != 1:
        chk.ob(rule, "abstract tree (host root -> device child): single outcome", None, cs.loc(gd), found=len(runs))
        return
    got = runs[0].ret
    items = set(got) if isinstance(got, (list, set)) else None
    chk.ob(rule, "with the arguments actually passed, the device child of a host root is among its descendants (and the root itself is kept)", items is not None and KID in items and ROOT in items, cs.loc(gd),
           found=[T.show(x) for x in items] if items is not None else T.show(to_term(got))[:120], accepted=["$ROOT", "$KID"],
           why="if the pruning guard drops device nodes here every pattern is empty; either the guard tests the root with include=False (today) or the visited node with include=True")
    # negative control: a host child must be kept as well; a device ROOT queried without kernels is pruned only when asked to
    nodes2 = {ROOT: Obj("root", attrs={"device": ("enum", "DeviceType", "CPU"), "children": [KID]}), KID: Obj("kid", attrs={"device": ("enum", "DeviceType", "CPU"), "children": []})}
    I = Interp(db)
    runs2 = [r for r in I.explore(f"{CS}:CallStackGraph.get_descendants", lambda I: dict({"self": Obj("self", cls=(cs, "CallStackGraph"), attrs={"nodes": nodes2}), "idx": ROOT}, **extra)) if r.raised is None]
    got2 = set(runs2[0].ret) if len(runs2) == 1 and isinstance(runs2[0].ret, (list, set)) else None
    chk.ob(rule, "host descendants are retained too", got2 is not None and {ROOT, KID} <= got2, cs.loc(gd), found=[T.show(x) for x in got2] if got2 else None, accepted=["$ROOT", "$KID"])
    # the frame handed back: evaluated with the node lookup, the stack lookup and the tree queries hooked (descendants [5, -3, 7], path to root [5, 4, -3])
    FDs = ("param", "FD")

    def hook_gs(I, name, pos, kw, node):
        last = name.split(".")[-1]
        if last == "get_node_attributes":
            return {"stream": -1, "pid": T.P("PID"), "tid": T.P("TID"), "index": 5, "parent": 4}
        if last == "get_call_stacks":
            return [Obj("stack", attrs={"full_df": Frame(FDs)})]
        if last == "get_descendants":
            I.log("descendants-of", node, args=[to_term(p_) for p_ in pos])
            return [5, -3, 7]
        if last == "get_path_to_root":
            return [5, 4, -3]
        return NotImplemented
    gsp = [p_ for p_ in H.param_names(gs) if p_ != "self"]
    for skip, want_ids in ((True, {5, 7}), (False, {4, 5, 7})):
        I = Interp(db, call_hook=hook_gs)
        env = {"self": Obj("self", cls=(cg, "CallGraph"), attrs={"_cached_rank": T.P("RANK")})}
        for p_ in gsp:
            env[p_] = 5 if ("node" in p_ or "index" in p_ or p_ == "idx") else skip if "skip" in p_ else T.P(p_.upper())
        try:
            rs_ = [r_ for r_ in I.explore(f"{CG}:CallGraph.get_stack_of_node", lambda I: dict(env)) if r_.raised is None and isinstance(r_.ret, Frame)]
        except Exception:          # noqa
            rs_ = []
        tag = f"skip_ancestors={skip}"
        if len(rs_) != 1:
            chk.ob(rule, f"[{tag}] get_stack_of_node: one path returning the stack frame", None, cg.loc(gs), found=len(rs_))
            continue
        Rs = rs_[0].ret
        labels = None
        if isinstance(Rs.rows, tuple) and Rs.rows and Rs.rows[0] == "index_in" and isinstance(Rs.rows[2], tuple) and Rs.rows[2] and Rs.rows[2][0] == "list" and all(T.is_const(x) for x in Rs.rows[2][1]):
            labels = {x[1] for x in Rs.rows[2][1]}
        okf = Rs.base == FDs and labels == want_ids and isinstance(Rs.order, tuple) and Rs.order[0] == "sort" and Rs.order[1] == (T.col(FDs, "ts"),) and Rs.order[2] is True
        chk.ob(rule, f"[{tag}] the stack frame returned = rows of the full frame at the non-negative " + ("descendant ids" if skip else "ancestor and descendant ids") + ", sorted by ts", okf if labels is not None else None, cg.loc(gs),
               found={"labels": sorted(labels) if labels is not None else T.show(Rs.rows)[:120], "order": T.show_order(Rs.order)[:80]}, accepted={"labels": sorted(want_ids), "order": "ts ascending"})
        dq = [e_["args"] for e_ in rs_[0].events if e_["kind"] == "descendants-of"]
        chk.ob(rule, f"[{tag}] the descendants are those of the node asked for", bool(dq) and all(a_ and a_[0] == T.C(5) for a_ in dq), cg.loc(gs), found=[[T.show(x) for x in a_] for a_ in dq], accepted="get_descendants(<the node's own id>)")
