"""C09 - the reported critical path is a maximum-weight path of the graph (structural clauses)."""
from __future__ import annotations

import ast

from ..core import asthelp as H
from ..core.progdb import AnalysisError, walk_no_nested, call_name, lit
from . import c08

EXPLANATION = (
    "Agreement and ordering rules over CPGraph.critical_path / _validate_graph / _add_edge: the edge attribute written at construction ('weight') is the attribute "
    "the longest-path call maximises and the only attribute validation may overwrite, and then only with the constant 0 under the negative-weight guard (so a "
    "re-weighted graph is not silently reset); the CPEdge is read back from 'object'; the critical event set is derived from every node of the path; the edge set is "
    "reset after the path is recomputed and before it is accumulated from consecutive node pairs; validation dominates the computation. NOT decided: optimality "
    "itself (delegated to networkx.dag_longest_path - trusted base) and the makespan bound."
    " Later additions: unrestricted topological order, unconditional collection of the edge of every consecutive pair, effect rules, stateless wrapper."
)
CP = "hta.analyzers.critical_path_analysis"


_longest_path = c08.longest_path_call


def _returns_value(d, node) -> bool:
    """every non-None value returned by helper d is `node` (directly or through one local name)"""
    rets = [r for r in walk_no_nested(d) if isinstance(r, ast.Return) and r.value is not None and not (isinstance(r.value, ast.Constant) and r.value.value is None)]
    if not rets:
        return False
    for r in rets:
        v = r.value
        if isinstance(v, ast.Name):
            ds = H.defs_of(d, v.id)
            v = ds[0] if len(ds) == 1 else v
        if v is not node:
            return False
    return True


def check_reset_before_accumulate(db, chk, rule: str, decided=None) -> None:
    """(also C19: a restored graph is recomputed by the same method; a set that is only ever added to mixes the edges of two computations)"""
    m = db.mod(CP)
    f0 = m.func("CPGraph.critical_path")
    where = m.loc(f0)
    lp0, site0, _hd = _longest_path(m, f0)
    # private helpers of critical_path are read as if written out in place (the reset / accumulation may sit in one of them); the longest-path helper keeps its call
    f = H.inline_helpers(m, f0, exclude=("_validate_graph",) + ((_hd.name,) if _hd is not None else ()))
    site = next((n for n in ast.walk(f) if isinstance(n, ast.Call) and ast.dump(n) == ast.dump(site0)), site0)
    lp = [site]
    # ---------------------------------------------------------------- R3 reset before accumulate
    resets = [s for t, val, s in H.assignments(f) if H.is_self_attr(t, "critical_path_edges_set") and isinstance(val, ast.Call) and H.name_id(val.func) == "set" and not val.args]
    accum = [n for n in ast.walk(f) if isinstance(n, ast.Call) and isinstance(n.func, ast.Attribute) and n.func.attr in ("add", "update") and H.is_self_attr(n.func.value, "critical_path_edges_set")]
    whole = [s for t, val, s in H.assignments(f) if H.is_self_attr(t, "critical_path_edges_set") and isinstance(val, (ast.SetComp, ast.Set)) or
             (H.is_self_attr(t, "critical_path_edges_set") and isinstance(val, ast.Call) and H.name_id(val.func) == "set" and val.args)]
    top_level = lambda s: any(s is x for x in f.body)
    ok = (len(resets) == 1 and top_level(resets[0]) and H.before(lp[0], resets[0]) and all(H.before(resets[0], a) for a in accum) and bool(accum)) or (len(whole) == 1 and not accum)
    if decided is None and rule.startswith("C19"):
        _derivation_eval(db, _Silent(chk), m, where)
        decided = _derivation_eval.second
    if decided is None and _derivation_eval.stale_kept:
        decided = False          # the first abstract run already shows it: a member of the previous computation is still in the set
    if ok or decided is not True:          # (the second-call abstract run decides; the shape of the reset is a diagnostic)
      chk.ob(rule, "the edge set is emptied (or rebuilt as a whole) on every computation, after the new path is known and before edges are added", True if ok else (False if decided is False else None), where,
           found={"resets": [s.lineno for s in resets], "accumulations": [ast.unparse(a)[:60] for a in accum]}, accepted="self.critical_path_edges_set = set()  before the accumulation loop",
           why="without the reset a recomputation after re-weighting reports the union of the old and the new path's edges")


def run(db, chk) -> None:
    from ..specs.discipline import check_facade_stateless
    check_facade_stateless(db, chk, "C09.R-facade-stateless", ['critical_path_analysis'])
    from ..specs.discipline import check_stateless
    check_stateless(db, chk, "C09.R-stateless", ['hta.analyzers.critical_path_analysis'])      # the result is a function of the arguments: no state kept between calls, caller's Trace untouched
    chk.floor("C09.R-stateless", 4)
    m = db.mod(CP)
    f = m.func("CPGraph.critical_path")
    v = m.func("CPGraph._validate_graph")
    ae = m.func("CPGraph._add_edge")
    where = m.loc(f)
    sem = _derivation_eval(db, chk, m, where)          # decided on the final state of abstract runs; the shape rules below are diagnostics and defer to them
    second = _derivation_eval.second
    chk.analysed_add("functions", [f"{CP}:CPGraph.critical_path", f"{CP}:CPGraph._validate_graph", f"{CP}:CPGraph._add_edge"])
    # ---------------------------------------------------------------- R1 key agreement
    cs = [c for c in H.calls(ae) if isinstance(c.func, ast.Attribute) and c.func.attr == "add_edge"]
    wkeys = {k.arg: ast.unparse(k.value) for c in cs for k in c.keywords}
    lp0, site, lp_helper = _longest_path(m, f)
    lp = [lp0]
    wk = [lit(k.value) for k in lp[0].keywords if k.arg == "weight"]
    lp_key = wk[0] if wk else (lit(lp[0].args[1]) if len(lp[0].args) > 1 else "weight")
    chk.ob("C09.R1-key-agreement", "the attribute written per edge at construction is the attribute the longest-path computation maximises", wkeys.get("weight") == "edge.weight" and lp_key == "weight", where,
           found={"written": wkeys, "maximised": lp_key}, accepted={"weight": "edge.weight", "maximised": "weight"}, why="another key makes every path weigh its number of edges")
    chk.ob("C09.R1-key-agreement", "longest path is computed on the graph itself", len(lp[0].args) >= 1 and H.name_id(lp[0].args[0]) == "self", where, found=ast.unparse(lp[0]), accepted="nx.dag_longest_path(self, weight='weight')")
    # the search ranges over ALL nodes: no restricted topological order, no default weight other than networkx's
    to = next((kw.value for kw in lp[0].keywords if kw.arg == "topo_order"), lp[0].args[3] if len(lp[0].args) > 3 else None)
    if to is None or (isinstance(to, ast.Constant) and to.value is None):
        tv, tdesc = True, "none (networkx derives the order of the whole graph)"
    else:
        te = H.expand(f, to)
        if isinstance(te, ast.Name):
            ds = H.defs_of(f, te.id)
            te = ds[0] if len(ds) == 1 else te
        tdesc = " ".join(ast.unparse(te).split())[:160]
        full = any(H.match(pat, te) is not None for pat in ("nx.topological_sort(self)", "list(nx.topological_sort(self))", "tuple(nx.topological_sort(self))"))
        filtered = any(isinstance(n, (ast.ListComp, ast.GeneratorExp)) and any(g.ifs for g in n.generators) for n in ast.walk(te)) or \
            any(isinstance(n, ast.Subscript) and isinstance(n.slice, ast.Slice) for n in ast.walk(te)) or any(isinstance(n, ast.Call) and H.name_id(n.func) == "filter" for n in ast.walk(te))
        tv = True if full else (False if filtered else None)
    chk.ob("C09.R1-key-agreement", "the longest-path search ranges over every node of the graph (no restricted topological order)", tv, where, found=tdesc, accepted="topo_order absent, None, or the full nx.topological_sort(self)",
           why="restricting the order to one component (or a prefix) reports the heaviest path of that part only: a heavier chain elsewhere is missed")
    extra = sorted(kw.arg for kw in lp[0].keywords if kw.arg not in ("weight", "topo_order", "default_weight"))
    chk.ob("C09.R1-key-agreement", "no other argument changes what is maximised", not extra and len(lp[0].args) <= 4, where, found=extra, accepted="G, weight[, default_weight, topo_order]", nontrivial=False)
    tgt = [t for t, val, s in H.assignments(f) if H.is_self_attr(t, "critical_path_nodes")]
    def _is_path(val):
        if isinstance(val, ast.Name):
            ds = H.defs_of(f, val.id)
            val = ds[0] if len(ds) == 1 else val
        return val is lp0 or (val is site and lp_helper is not None and _returns_value(lp_helper, lp0))
    src_ok = any(_is_path(val) for t, val, s in H.assignments(f) if H.is_self_attr(t, "critical_path_nodes"))
    if src_ok or sem is not True:          # (with the abstract run deciding - nodes == what the search returned - a store the shape rule does not follow is not a finding)
        chk.ob("C09.R1-key-agreement", "critical_path_nodes receives the longest path", True if src_ok else (False if sem is False else None), where, found=len(tgt), accepted="self.critical_path_nodes = nx.dag_longest_path(...)")
    # stores into edge attributes in _validate_graph
    stores = []
    for n in ast.walk(v):
        if isinstance(n, ast.Assign):
            for t in n.targets:
                if isinstance(t, ast.Subscript) and isinstance(t.value, ast.Subscript) and "edges" in ast.unparse(t.value.value):
                    stores.append((lit(t.slice), n))
    okst = True
    det = []
    for key, n in stores:
        guard = None
        cur = m.parent.get(id(n))
        while cur is not None and cur is not v:
            if isinstance(cur, ast.If) and any(n is x for b in cur.body for x in ast.walk(b)):
                guard = cur
                break
            cur = m.parent.get(id(cur))
        gtxt = ast.unparse(guard.test) if guard is not None else None
        det.append((key, ast.unparse(n.value), gtxt))
        neg_guard = guard is not None and any(H.match(p_, c) is not None for c in ast.walk(guard.test) if isinstance(c, ast.Compare)
                                              for p_ in ("$e.weight <= -1", "$e.weight < 0", "$e.weight < -1", "$e.weight <= 0"))
        okst = okst and key == "weight" and lit(n.value) == 0 and neg_guard
    chk.ob("C09.R1-key-agreement", "validation overwrites an edge weight only with 0 and only under the negative-weight guard", okst, m.loc(v), found=det, accepted=[("weight", "0", "e.weight <= -1 and ...")],
           why="writing the stored CPEdge weight back on every edge silently undoes a what-if re-weighting before the path is recomputed")
    _validate_keeps_reweighting(db, chk, m, v)
    # (private helpers and generator helpers of critical_path are read as if written out in place)
    f_in = H.inline_helpers(m, f, exclude=("_validate_graph",))
    obj_reads = [n for g_ in [f_in] + [x for x in H.with_private_callees(m, f) if x is not f] for n in ast.walk(g_) if isinstance(n, ast.Subscript) and lit(n.slice) == "object"]
    chk.ob("C09.R1-key-agreement", "critical edges are read back from the 'object' attribute written by _add_edge", (wkeys.get("object") == "edge") if obj_reads or wkeys.get("object") != "edge" else None, where,
           found={"written": wkeys.get("object"), "reads": len(obj_reads)}, accepted="object=edge ... self.edges[u, v]['object']")
    frozen = [n for n in ast.walk(f_in) if isinstance(n, ast.Attribute) and n.attr == "weight" and isinstance(n.ctx, ast.Load) and not (isinstance(n.value, ast.Name) and n.value.id in ("self", "nx"))]
    chk.ob("C09.R1-key-agreement", "critical_path consults no weight other than the graph attribute the search maximises (not the value frozen in a CPEdge object)", not frozen, where,
           found=[" ".join(ast.unparse(m.parent.get(id(n), n)).split())[:100] for n in frozen] or "none", accepted="weights are read through the 'weight' edge attribute only",
           why="a what-if re-weighting changes the graph attribute, not the CPEdge objects: a consistency check against e.weight raises (or filters) exactly when the documented re-weighting was used")
    # ---------------------------------------------------------------- R2 derivation of the sets
    ev = [val for t, val, s in H.assignments(f_in) if H.is_self_attr(t, "critical_path_events_set")]
    okev = len(ev) == 1 and isinstance(ev[0], ast.SetComp) and len(ev[0].generators) == 1 and isinstance(ev[0].generators[0].target, ast.Name) \
        and ast.unparse(ev[0].elt).replace(" ", "") == f"self.node_list[{ev[0].generators[0].target.id}].ev_idx" \
        and H.is_self_attr(ev[0].generators[0].iter, "critical_path_nodes") and not ev[0].generators[0].ifs
    recognised_ev = len(ev) == 1 and isinstance(ev[0], ast.SetComp)
    if okev or sem is not True:
      chk.ob("C09.R2-derivation", "critical events = the events of ALL nodes of the path", True if okev else (False if (recognised_ev and sem is False) else None), where, found=[ast.unparse(e) for e in ev], accepted="{self.node_list[nid].ev_idx for nid in self.critical_path_nodes}")
    # consecutive pairs
    form = _pair_form(f_in, [g_ for g_ in H.with_private_callees(m, f) if g_ is not f])
    if not (form["ok"] is None and sem is not None):
        chk.ob("C09.R2-derivation", "critical edges = the graph edges between CONSECUTIVE nodes of the path, each read from 'object'", form["ok"], where, found=form["found"],
               accepted="u = first; for each next v: add(self.edges[u, v]['object']); u = v   |   for u, v in zip(path, path[1:])")
    check_reset_before_accumulate(db, chk, "C09.R3-reset-before-accumulate", decided=second)
    # ---------------------------------------------------------------- R5 the path is recomputed on every call
    guards = []
    for node, top in ((lp0, lp_helper or f), (site, f)):
        cur = m.parent.get(id(node))
        while cur is not None and cur is not top:
            if isinstance(cur, (ast.If, ast.IfExp, ast.While, ast.For)):
                guards.append(ast.unparse(cur.test if hasattr(cur, "test") else cur.iter)[:80])
            cur = m.parent.get(id(cur))
        if node is site:
            break
    early = [r for r in walk_no_nested(f) if isinstance(r, ast.Return) and r.lineno < site.lineno]
    if lp_helper is not None:
        early += [r for r in walk_no_nested(lp_helper) if isinstance(r, ast.Return) and r.lineno < lp0.lineno]
    plain = not guards and not early
    if plain or second is not True:          # (a guard in front of the search is a finding only if the second-call run shows something kept - or could not be evaluated)
      chk.ob("C09.R5-always-recomputed", "every call recomputes the longest path on the current graph: no condition, memo or early return in front of the computation (validation failure raises)", True if plain else (False if second is False else None), where,
           found={"conditions": guards, "early_returns": [r.lineno for r in early]}, accepted="unconditional nx.dag_longest_path after validation",
           why="a memo keyed on counts / total weight keeps the stale path after a what-if re-weighting that moves weight between edges")
    _result_writers(db, chk)
    # ---------------------------------------------------------------- R4 validation dominates (shared with C08)
    c08._validation(db, _Prefixed(chk, "C09.R4-validation"), m)
    chk.floor("C09.R1-key-agreement", 5)


class _Silent:
    """swallows obligations (a shared abstract run re-used by another property's rule for its verdict only)"""

    def __init__(self, chk):
        self.chk = chk

    def ob(self, *a, **k):
        return True

    def note(self, msg):
        pass

    def __getattr__(self, n):
        return getattr(self.chk, n)


class _Prefixed:
    """forwards obligations under another rule name (C08's validation rule is also a C09 clause)"""

    def __init__(self, chk, rule):
        self.chk, self.rule = chk, rule

    def ob(self, rule, *a, **k):
        return self.chk.ob(self.rule, *a, **k)

    def note(self, msg):
        pass

    def __getattr__(self, n):
        return getattr(self.chk, n)


def _derivation_eval(db, chk, m, where):
    _derivation_eval.second = None
    _derivation_eval.stale_kept = None
    return _derivation_eval_(db, chk, m, where)


def _derivation_eval_(db, chk, m, where):
    """critical_path() run on a small concrete graph (path 0-1-2-3 handed out by the hooked longest-path search, a chord 0->2 between two path nodes, stale members
    from an earlier computation): afterwards the three result members are the path, the events of ALL its nodes, and exactly the edge objects of its CONSECUTIVE pairs."""
    from ..core.interp import Interp
    from ..core.values import Obj, PyTuple, to_term
    EDGES = [(0, 1), (1, 2), (0, 2), (2, 3)]
    PATH = [0, 1, 2, 3]
    state = {}

    def hook(I, name, pos, kw, node):
        last = name.split(".")[-1]
        if last == "_validate_graph":
            return True
        if last == "dag_longest_path":
            return list(PATH)
        if last in ("dag_longest_path_length", "path_weight"):
            return 15
        if name in ("self.out_edges", "self.in_edges", "self.edges", "self.edges.data"):          # networkx' edge views over the same concrete graph
            nb = pos[0] if pos and not isinstance(pos[0], (str, bool)) else kw.get("nbunch")
            key = kw.get("data", pos[1] if len(pos) > 1 else (pos[0] if pos and isinstance(pos[0], (str, bool)) else None))
            nodes = None if nb is None else set(I._concrete_seq(nb) or [nb])
            out = []
            for (u, v) in EDGES:
                if nodes is not None and (v if name == "self.in_edges" else u) not in nodes:
                    continue
                d = state["data"][(u, v)]
                out.append(PyTuple([u, v] + ([d] if key is True else [d.get(key, kw.get("default"))] if isinstance(key, str) else [])))
            return out
        if name == "self.has_edge" and len(pos) == 2:
            return (pos[0], pos[1]) in EDGES
        if name == "self.number_of_nodes" and not pos:
            return 4
        if name == "self.number_of_edges" and not pos:
            return len(EDGES)
        if name == "self.size":          # total weight (or number) of the edges: unchanged by a re-weighting that moves time between edges
            return sum(d_["weight"] for d_ in state["data"].values()) if (kw.get("weight") or (pos and pos[0])) else len(EDGES)
        if name == "self.get_edge_data" and len(pos) >= 2:
            return state["data"].get((pos[0], pos[1]))
        if name in ("self.successors", "self.neighbors") and len(pos) == 1:
            return [v for (u, v) in EDGES if u == pos[0]]
        if name == "self.predecessors" and len(pos) == 1:
            return [u for (u, v) in EDGES if v == pos[0]]
        return NotImplemented

    def args(I):
        state["data"] = {e: {"object": Obj(f"E{e[0]}{e[1]}", attrs={"begin": e[0], "end": e[1], "weight": 0 if e == (0, 1) else 5, "type": ("enum", "CPEdgeType", "DEPENDENCY")}), "weight": 0 if e == (0, 1) else 5} for e in EDGES}          # (the path is entered through a zero-weight edge)
        edges = {to_term(PyTuple(list(e))): d for e, d in state["data"].items()}
        nl = [Obj(f"n{i}", attrs={"ev_idx": (i + 1) // 2, "idx": i, "is_start": i % 2 == 1}) for i in range(4)]          # (event 0 - the first event of the file - is on the path)
        # the graph's other maps, consistent with the node list (n0 = end of event 0, n1 / n2 = start / end of event 1, n3 = start of event 2); only the span edge 1 -> 2 has an attribution
        return {"self": Obj("self", cls=(m, "CPGraph"), attrs={"edges": edges, "node_list": nl, "critical_path_nodes": [7], "critical_path_events_set": {99}, "critical_path_edges_set": {"STALE"},
                                                              "event_to_start_node_map": {1: 1, 2: 3}, "event_to_end_node_map": {0: 0, 1: 2}, "edge_to_event_map": {to_term(PyTuple([1, 2])): 1}})}
    all_runs = []
    try:
        all_runs = Interp(db, call_hook=hook).explore(f"{CP}:CPGraph.critical_path", args)
        runs = [r for r in all_runs if r.raised is None and r.ret is True]
    except AnalysisError:
        runs = []
    chk.analysed_add("functions", f"{CP}:CPGraph.critical_path (abstract run)")
    _plain = lambda r_: all(isinstance(d_, tuple) and d_ and d_[0] == "noexc" for d_ in r_.path)          # (no decision other than "the try body raised nothing")
    _alt = lambda r_: any(isinstance(d_, tuple) and len(d_) == 2 and d_[0] == "not" and isinstance(d_[1], tuple) and d_[1] and d_[1][0] == "noexc" for d_ in r_.path)
    _main = [r_ for r_ in all_runs if _plain(r_)]
    if not runs and len(_main) == 1 and _main[0].raised is not None and "ssert" in str(_main[0].raised) and all(_alt(r_) for r_ in all_runs if r_ is not _main[0]):
        all_runs = _main
        # the one concrete path ends in the method's own consistency assertion: with the members of an EARLIER computation in place (the stale edge) the call does not finish
        _derivation_eval.stale_kept = True
        chk.ob("C09.R2-derivation", "[abstract run] critical_path() on an object that still holds the members of an earlier computation finishes (its own consistency assertion holds)", False, where,
               found=str(all_runs[0].raised)[:160], accepted="returns True with the three members rebuilt", why="an edge set that is only ever added to keeps the previous path's edges: the count no longer matches the new path")
        return False
    if len(runs) != 1:
        chk.ob("C09.R2-derivation", "[abstract run] critical_path() evaluated on a small concrete graph", None, where, found=f"{len(runs)} successful path(s)")
        return None
    so = runs[0].env["self"]
    nodes, evs, eds = so.attrs.get("critical_path_nodes"), so.attrs.get("critical_path_events_set"), so.attrs.get("critical_path_edges_set")
    concrete = isinstance(nodes, list) and isinstance(evs, (set, list)) and isinstance(eds, (set, list)) and all(isinstance(x, int) for x in nodes) and all(isinstance(x, int) for x in evs) \
        and all(isinstance(x, Obj) or x == "STALE" for x in eds)
    if not concrete:
        chk.ob("C09.R2-derivation", "[abstract run] the result members are concrete after the run", None, where, found={"nodes": str(nodes)[:60], "events": str(evs)[:60], "edges": str(eds)[:80]})
        return None
    got_e = sorted(x.name if isinstance(x, Obj) else str(x) for x in eds)
    _derivation_eval.stale_kept = "STALE" in got_e
    ok = nodes == PATH and set(evs) == {0, 1, 2} and got_e == ["E01", "E12", "E23"] and len(list(eds)) == 3
    chk.ob("C09.R2-derivation", "[abstract run] after critical_path(): nodes = the path, events = the events of ALL its nodes, edges = exactly the edge objects of its CONSECUTIVE pairs (stale members gone, no chord)",
           ok, where, found={"nodes": nodes, "events": sorted(evs), "edges": got_e}, accepted={"nodes": PATH, "events": [0, 1, 2], "edges": ["E01", "E12", "E23"]},
           why="the edges of the induced subgraph contain chords between path nodes that the path does not use; a set that is not rebuilt keeps the previous path")
    if ok:
        # ---- the SAME object asked again after the graph changed (the hooked search now answers 0-2 over the chord): everything is recomputed
        PATH2 = [0, 2]
        first = so

        def args2(I):
            cp = lambda v_: list(v_) if isinstance(v_, list) else (set(v_) if isinstance(v_, set) else (dict(v_) if isinstance(v_, dict) else v_))
            state["data"] = {e: {"object": next((x for x in first.attrs["critical_path_edges_set"] if isinstance(x, Obj) and x.name == f"E{e[0]}{e[1]}"), Obj(f"E{e[0]}{e[1]}", attrs={"begin": e[0], "end": e[1], "weight": 0 if e == (0, 1) else 5})), "weight": 0 if e == (0, 1) else 5} for e in EDGES}          # (same node / edge counts and the same TOTAL weight as before: time was only moved between edges)
            a_ = {k: cp(v_) for k, v_ in first.attrs.items()}
            a_["edges"] = {to_term(PyTuple(list(e))): d for e, d in state["data"].items()}
            return {"self": Obj("self", cls=(m, "CPGraph"), attrs=a_)}
        PATH_box = PATH
        try:
            PATH[:] = PATH2
            runs2 = [r for r in Interp(db, call_hook=hook).explore(f"{CP}:CPGraph.critical_path", args2) if r.raised is None and r.ret is True]
        except AnalysisError:
            runs2 = []
        finally:
            PATH[:] = [0, 1, 2, 3]
        second = None
        if len(runs2) == 1:
            s2 = runs2[0].env["self"]
            n2, e2, d2 = s2.attrs.get("critical_path_nodes"), s2.attrs.get("critical_path_events_set"), s2.attrs.get("critical_path_edges_set")
            if isinstance(n2, list) and isinstance(e2, (set, list)) and isinstance(d2, (set, list)) and all(isinstance(x, int) for x in list(n2) + list(e2)) and all(isinstance(x, Obj) for x in d2):
                got2 = {"nodes": list(n2), "events": sorted(e2), "edges": sorted(x.name for x in d2)}
                second = got2 == {"nodes": PATH2, "events": [0, 1], "edges": ["E02"]}
                chk.ob("C09.R3-reset-before-accumulate", "[abstract run] a SECOND critical_path() on the same object, after the graph changed, reports the new path only (nothing kept from the first call: no memo, no early return, the edge set rebuilt)",
                       second, where, found=got2, accepted={"nodes": PATH2, "events": [0, 1], "edges": ["E02"]},
                       why="a recomputation after a what-if re-weighting must not report the union of the old and the new path, nor the old path from a memo")
        if second is None:
            chk.note("C09: the second call of critical_path() on the same object was not evaluated to concrete members (the shape rules decide the reset / recomputation clauses)")
        _derivation_eval.second = second
    return ok


def _pair_form(f, helpers=None):
    # idiom (a): u = next(it) ... loop: v = next(it); e = self.edges[u, v]["object"]; <set>.add(e); u = v
    its = [(H.name_id(t), s) for t, val, s in H.assignments(f) if isinstance(val, ast.Call) and H.name_id(val.func) == "iter" and val.args and H.is_self_attr(val.args[0], "critical_path_nodes")]
    loops = [n for n in ast.walk(f) if isinstance(n, (ast.While, ast.For))]
    if its and loops:
        itv = its[0][0]
        first = [r for st in f.body for r in [H.match(f"$u = next({itv})", st)] if r is not None]
        if len(first) == 1:
            loop = loops[0]
            _nm = lambda x: x if isinstance(x, str) else H.name_id(x)
            uname = _nm(first[0].get("__mv_u"))
            stmts = [s for s in ast.walk(loop) if isinstance(s, (ast.Assign, ast.Expr))]
            stmts.sort(key=lambda s: (s.lineno, s.col_offset))
            shown = [ast.unparse(s)[:80] for s in stmts]
            nexts = [n for n in ast.walk(f) if isinstance(n, ast.Call) and H.name_id(n.func) == "next"]
            # the current element: the target of `for v in it`, or `v = next(it)` inside a while loop
            vname, vdef_line, want_nexts = None, None, None
            if isinstance(loop, ast.For) and H.name_id(loop.iter) == itv and isinstance(loop.target, ast.Name) and not loop.orelse:
                vname, vdef_line, want_nexts = loop.target.id, loop.lineno, 1
            elif isinstance(loop, ast.While):
                vd = [(r, s) for s in stmts for r in [H.match(f"$v = next({itv})", s)] if r is not None]
                if len(vd) == 1:
                    vname, vdef_line, want_nexts = _nm(vd[0][0].get("__mv_v")), vd[0][1].lineno, 2
            if uname is None or vname is None or len(nexts) != want_nexts:
                return {"ok": None, "found": ["pairing idiom not recognised"] + shown}
            adds = [x for x in ast.walk(loop) if isinstance(x, ast.Call) and isinstance(x.func, ast.Attribute) and x.func.attr == "add" and H.is_self_attr(x.func.value, "critical_path_edges_set")]
            # every pair contributes its edge: the add is not under a condition inside the loop
            cond = []
            par = {id(ch): pn for pn in ast.walk(loop) for ch in ast.iter_child_nodes(pn)}
            for a_ in adds:
                cur = par.get(id(a_))
                while cur is not None and cur is not loop:
                    if isinstance(cur, (ast.If, ast.IfExp)):
                        cond.append(ast.unparse(cur.test)[:80])
                    cur = par.get(id(cur))
            if cond:
                return {"ok": False, "found": [f"edge added only if {c}" for c in cond]}
            if len(adds) != 1 or len(adds[0].args) != 1:
                return {"ok": None, "found": ["pairing idiom not recognised"] + shown}
            arg = adds[0].args[0]
            if isinstance(arg, ast.Name):
                ds = [s.value for s in stmts if isinstance(s, ast.Assign) and H.name_id(s.targets[0]) == arg.id and s.lineno <= adds[0].lineno]
                arg = ds[-1] if len(ds) == 1 else arg
            r = H.match("self.edges[$a, $b]['object']", arg)
            if r is None:
                return {"ok": None, "found": ["edge lookup not recognised"] + shown}
            pair = (_nm(r.get("__mv_a")), _nm(r.get("__mv_b")))
            upd = [s for s in stmts if isinstance(s, ast.Assign) and H.name_id(s.targets[0]) == uname]
            advance = [s for s in upd if H.name_id(s.value) == vname and s.lineno > adds[0].lineno]
            other_upd = [s for s in upd if s not in advance]
            if pair != (uname, vname):
                return {"ok": False, "found": [f"edge looked up for ({pair[0]}, {pair[1]}), expected (previous, current) = ({uname}, {vname})"] + shown}
            if not advance and not other_upd:
                return {"ok": False, "found": [f"the previous node {uname} never advances"] + shown}
            if other_upd or len(advance) != 1 or vdef_line > adds[0].lineno:
                return {"ok": None, "found": ["pairing idiom not recognised"] + shown}
            return {"ok": True, "found": shown}
    # idiom (b): for u, v in zip(path, path[1:]) / pairwise(path): ... self.edges[u, v]["object"]  (in the function or in a private helper it calls)
    units = [f] + list(helpers or [])
    pairs = [(g_, n, b) for g_ in units for n, b in H.find_match("zip($$p, $$p[1:])", g_)]
    pairs += [(g_, n, {"__mvx_p": n.args[0]}) for g_ in units for n in ast.walk(g_) if isinstance(n, ast.Call) and call_name(n).split(".")[-1] == "pairwise" and len(n.args) == 1]
    for g_, n, b in pairs:
        if "critical_path_nodes" in ast.unparse(b["__mvx_p"]) or isinstance(b["__mvx_p"], ast.Name):
            objs = H.find_match("self.edges[$u, $v]['object']", g_)
            filt = [g for c in ast.walk(g_) if isinstance(c, (ast.GeneratorExp, ast.SetComp, ast.ListComp)) and any(x is n for x in ast.walk(c)) for g in c.generators if g.ifs]
            if filt:
                return {"ok": False, "found": ["pairs filtered by " + ast.unparse(filt[0].ifs[0])[:80]]}
            # the loop variables of the pairing are the subscripts of the edge lookup, in (previous, current) order
            holder = next((x for x in ast.walk(g_) if isinstance(x, (ast.For, ast.comprehension)) and x.iter is n), None)
            tv = [H.name_id(e_) for e_ in holder.target.elts] if holder is not None and isinstance(holder.target, ast.Tuple) and len(holder.target.elts) == 2 else None
            if tv is None or len(objs) != 1:
                return {"ok": None, "found": ["pairing idiom not recognised", ast.unparse(n)[:80]]}
            sub = objs[0][0].value.slice
            got = [H.name_id(e_) for e_ in sub.elts] if isinstance(sub, ast.Tuple) else None
            if got != tv:
                return {"ok": False if got == tv[::-1] else None, "found": [f"edge looked up for {got}, pairs are {tv}"]}
            return {"ok": True, "found": [ast.unparse(n)[:80]]}
    return {"ok": None, "found": ["pairing idiom not recognised"]}


RESULT_ATTRS = ("critical_path_nodes", "critical_path_edges_set", "critical_path_events_set")
RESULT_WRITERS = ("CPGraph.__init__", "CPGraph.critical_path", "restore_cpgraph")          # constructor, the computation, re-installation of saved members
_INPLACE = {"add", "update", "discard", "remove", "clear", "pop", "append", "extend", "insert", "sort", "reverse", "difference_update", "intersection_update", "symmetric_difference_update"}


def _result_writers(db, chk, rule="C09.R6-result-writers") -> None:
    """who-may-write: the three members that REPORT the path (nodes, events, edges) are written by the computation alone; every other function of the
    package only reads them - directly or through a local alias (an in-place operator on an alias, `edges -= {...}`, edits the graph's own set)."""
    n_reads = 0
    cpm = db.mod(CP)
    # the members belong to ONE graph: none of them is a class-level mutable default (shared by every instance until it is re-bound; an in-place reset then empties the set of all graphs)
    cdef = cpm.classes.get("CPGraph")
    shared = []
    for st in (cdef.body if cdef is not None else []):
        tg = st.targets[0] if isinstance(st, ast.Assign) and len(st.targets) == 1 else (st.target if isinstance(st, ast.AnnAssign) else None)
        val = getattr(st, "value", None)
        if isinstance(tg, ast.Name) and tg.id in ("critical_path_nodes", "critical_path_events_set", "critical_path_edges_set") and val is not None and \
                (isinstance(val, (ast.List, ast.Set, ast.Dict, ast.ListComp, ast.SetComp)) or (isinstance(val, ast.Call) and H.name_id(val.func) in ("set", "list", "dict", "defaultdict", "deque"))):
            shared.append(f"{tg.id} = {ast.unparse(val)}")
    chk.ob(rule, "the result members are per-graph state (no class-level mutable default shared between graphs)", not shared, cpm.loc(cdef) if cdef is not None else "", found=shared or "none", accepted="initialised per instance",
           why="with a class-level set every graph that has not re-bound the member reports (and clears) the edges of the others: two analyses in one process, or a restored graph next to the live one")
    allowed = set()          # the three writers and the private helpers they call (e.g. a method of the saved-data class that re-installs the members)
    for w in RESULT_WRITERS:
        for g in H.with_private_callees(cpm, cpm.func(w)):
            allowed.add(cpm.qualname_of(g))
    for mname, mod in sorted(db.modules.items()):
        if not mname.startswith("hta"):
            continue
        for q, f in sorted(mod.functions.items()):
            if mod.enclosing_function(f) is not None:
                continue          # nested functions are walked with their parent
            f = H.inline_helpers(mod, f) if mname == CP and q not in allowed else f
            own = [w for w in allowed if mname == CP and (q == w or q.startswith(w + "."))]
            aliases = {}
            for t, v, st_ in H.assignments(f):
                if isinstance(t, ast.Name) and isinstance(v, ast.Attribute) and v.attr in RESULT_ATTRS:
                    aliases[t.id] = v.attr
            writes = []
            for n in ast.walk(f):
                if isinstance(n, ast.Attribute) and n.attr in RESULT_ATTRS:
                    n_reads += 1
                tg = []
                if isinstance(n, ast.Assign):
                    tg = n.targets
                elif isinstance(n, (ast.AugAssign, ast.AnnAssign)) and getattr(n, "value", None) is not None:
                    tg = [n.target]
                for t in tg:
                    if isinstance(t, ast.Attribute) and t.attr in RESULT_ATTRS:
                        writes.append((t.attr, " ".join(ast.unparse(n).split())[:100], n))
                    elif isinstance(n, ast.AugAssign) and isinstance(t, ast.Name) and t.id in aliases:
                        writes.append((aliases[t.id], " ".join(ast.unparse(n).split())[:100] + f"   [{t.id} is {aliases[t.id]}]", n))
                    elif isinstance(t, ast.Subscript) and ((isinstance(t.value, ast.Attribute) and t.value.attr in RESULT_ATTRS) or (isinstance(t.value, ast.Name) and t.value.id in aliases)):
                        writes.append((getattr(t.value, "attr", None) or aliases[t.value.id], " ".join(ast.unparse(n).split())[:100], n))
                if isinstance(n, ast.Call) and isinstance(n.func, ast.Attribute) and n.func.attr in _INPLACE:
                    r = n.func.value
                    if isinstance(r, ast.Attribute) and r.attr in RESULT_ATTRS:
                        writes.append((r.attr, " ".join(ast.unparse(n).split())[:100], n))
                    elif isinstance(r, ast.Name) and r.id in aliases:
                        writes.append((aliases[r.id], " ".join(ast.unparse(n).split())[:100] + f"   [{r.id} is {aliases[r.id]}]", n))
            if own:
                continue
            for attr, txt, node in writes:
                chk.ob(rule, f"{mname}:{q} only READS the reported path ({attr})", False, mod.loc(node), found=txt, accepted=f"written by {', '.join(RESULT_WRITERS)} only",
                       why="an edit of the graph's own set (e.g. filtering it in place while drawing an overlay) makes the reported edges differ from the edges of the computed path")
    chk.ob(rule, "the reported path members are written by the constructor, critical_path() and restore only (all other sites of the package read them)", True if n_reads >= 12 else None, CP, found=f"{n_reads} sites inspected",
           accepted=">= 12 sites, no writer outside the three")



def _validate_keeps_reweighting(db, chk, m, v):
    """[abstract runs] _validate_graph on a one-edge graph whose 'weight' ATTRIBUTE was changed after construction (the documented what-if workflow): the attribute
    the search maximises must come out as it went in - however the store is spelled (self.edges[u, v][k] = .., the data dict of edges(data=True), set_edge_attributes)."""
    from ..core.interp import Interp
    from ..core.values import Obj, PyTuple, to_term
    CPm = m.name
    ref = f"{CPm}:CPGraph._validate_graph"

    def run(obj_w, attr_w):
        state = {}

        def hook(I, name, pos, kw, node):
            if name.endswith("critical_path_strict_negative_weight_check"):
                return False
            if name.endswith("is_directed_acyclic_graph"):
                return True
            if name.endswith("_get_node_name"):
                return "name"
            if name.endswith("simple_cycles") or name.endswith("find_cycle"):
                return []
            if name in ("self.edges", "self.edges.data"):
                key = kw.get("data", pos[0] if pos else None)
                if key is True:
                    return [PyTuple([0, 1, state["data"]])]
                if isinstance(key, str):
                    return [PyTuple([0, 1, state["data"].get(key, kw.get("default"))])]
                return [PyTuple([0, 1])]
            if name == "self.get_edge_data" and len(pos) == 2:
                return state["data"]
            if name.endswith("set_edge_attributes"):
                state["bulk"] = True
                return None
            return NotImplemented

        def args(I):
            e = Obj("edge", attrs={"weight": obj_w, "type": ("enum", "CPEdgeType", "DEPENDENCY"), "begin": 0, "end": 1})
            state["data"] = {"object": e, "weight": attr_w, "type": ("enum", "CPEdgeType", "DEPENDENCY")}
            state.pop("bulk", None)
            edges = {to_term(PyTuple([0, 1])): state["data"]}
            nl = [Obj("n0", attrs={"ev_idx": 10, "idx": 0, "is_start": False, "is_blocking": False}), Obj("n1", attrs={"ev_idx": 11, "idx": 1, "is_start": True, "is_blocking": False})]
            tdf = Obj("trace_df", attrs={"stream": Obj("stream", attrs={"loc": {10: 7, 11: 8}})})
            return {"self": Obj("self", cls=(m, "CPGraph"), attrs={"edges": edges, "node_list": nl, "trace_df": tdf})}
        try:
            runs = [r for r in Interp(db, call_hook=hook).explore(ref, args) if r.raised is None]
        except AnalysisError:
            return None
        if len(runs) != 1 or runs[0].path or state.get("bulk"):
            return None
        w = state["data"].get("weight")
        return w[1] if isinstance(w, tuple) and len(w) == 2 and w[0] == "const" else (w if isinstance(w, (int, float)) else None)
    cases = (("built with weight 5, re-weighted to 9", 5, 9), ("built with weight 5, re-weighted to 0", 5, 0), ("built with weight 5, not re-weighted", 5, 5))
    got = {what: run(ow, aw) for what, ow, aw in cases}
    bad = {what: got[what] for what, ow, aw in cases if got[what] is not None and got[what] != aw}
    chk.ob("C09.R1-key-agreement", "[abstract runs] validation leaves the 'weight' attribute of a sound edge as it found it (a what-if re-weighting survives the recomputation)",
           False if bad else (None if any(g is None for g in got.values()) else True), m.loc(v), found=bad or got, accepted={what: aw for what, ow, aw in cases},
           why="writing the weight frozen in the CPEdge object back onto the graph on every validation silently undoes the documented re-weighting before the path is recomputed")
