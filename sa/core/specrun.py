"""Reference templates written as pandas source text, evaluated by the SAME symbolic evaluator as the
repository code (translation-validation style): spec text -> term; code -> term; compare normal forms."""
from __future__ import annotations

from typing import Any, Callable, Dict, List

from .interp import Interp, Run
from .progdb import Module, ProgramDB

_n = [0]


def run_spec(db: ProgramDB, source: str, fname: str, args_factory: Callable[[Interp], Dict[str, Any]], call_hook=None,
             closure_factory=None, decide=None) -> List[Run]:
    _n[0] += 1
    name = f"spec.m{_n[0]}"
    db.modules[name] = Module(name, f"<spec {fname}>", source)
    try:
        I = Interp(db, call_hook=call_hook, decide=decide)
        return I.explore(f"{name}:{fname}", args_factory, closure_factory)
    finally:
        db.modules.pop(name, None)
