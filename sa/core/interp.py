"""E2/E3 - symbolic evaluator for HTA function bodies (no repository code is executed).

Path-sensitive by replay: a function is re-interpreted once per sequence of branch decisions
(stateless depth-first search); every undecided `if` is a choice point.  Values are the abstract
values of values.py; DataFrame / Series operations are modelled in pandas_model.py.  Anything not
modelled evaluates to an Opaque term that poisons whatever is computed from it.
"""
from __future__ import annotations

import ast
import itertools
from typing import Any, Callable, Dict, List, Optional, Tuple

from . import terms as T
from .progdb import AnalysisError, Module, ProgramDB, walk_no_nested
from .values import (Columns, ClassRef, Each, EnumRef, ExtMod, Frame, FuncRef, GenCall, GroupBy, GuardedSeq, ListIter, Obj, PyTuple, ReMatch, Ser, to_term)

EXT_MODULES = {"pd": "pd", "pandas": "pd", "np": "np", "numpy": "np", "math": "math", "nx": "nx", "networkx": "nx",
               "re": "re", "os": "os", "json": "json", "gzip": "gzip", "time": "time", "sys": "sys", "logging": "logging",
               "mp": "mp", "px": "px", "go": "go", "pickle": "pickle", "hta_options": "hta_options", "tracemalloc": "tracemalloc"}


class _Return(Exception):
    def __init__(self, value):
        self.value = value


class _Break(Exception):
    pass


class _Continue(Exception):
    pass


class _Raise(Exception):
    def __init__(self, what):
        self.what = what


def assume(*facts: T.Term):
    """decide-callback that takes the given boolean terms as true (and their negations as false)"""
    pos = set(facts)
    neg = {T.not_(f) for f in facts}

    def decide(c):
        if c in pos:
            return True
        if c in neg:
            return False
        return None
    return decide


class PathLimit(AnalysisError):
    pass


class Activation:
    def __init__(self, mod: Module, func: Optional[ast.AST], env: Dict[str, Any], outer: Optional["Activation"], qualname: str):
        self.mod, self.func, self.env, self.outer, self.qualname = mod, func, env, outer, qualname
        self.nonlocals: set = set()


class Run:
    """one path"""

    def __init__(self, choices: List[bool]):
        self.choices = list(choices)
        self.taken: List[bool] = []
        self.path: List[T.Term] = []
        self.events: List[dict] = []
        self.ret: Any = None
        self.raised: Optional[Any] = None
        self.env: Dict[str, Any] = {}
        self.loop_depth = 0
        self.loop_iters: List[Any] = []          # iterable terms of the symbolically executed loops we are inside of

    def cond(self) -> T.Term:
        return T.and_(*self.path) if self.path else T.TRUE


ENUM_BASES = ("Enum", "IntEnum", "Flag", "IntFlag", "StrEnum")


class Interp:
    def __init__(self, db: ProgramDB, inline_depth: int = 3, max_paths: int = 600,
                 decide: Optional[Callable[[T.Term], Optional[bool]]] = None,
                 call_hook: Optional[Callable[["Interp", str, list, dict, ast.Call], Any]] = None,
                 no_inline: Tuple[str, ...] = ()):
        self.db = db
        self.inline_depth = inline_depth
        self.max_paths = max_paths
        self.user_decide = decide
        self.call_hook = call_hook
        self.no_inline = set(no_inline)
        self.run: Run = Run([])
        self.stack: List[Activation] = []
        self._ids = itertools.count(1)
        from . import pandas_model
        self.pm = pandas_model.Model(self)

    # ------------------------------------------------------------------ exploration
    def explore(self, ref: str, args_factory: Callable[["Interp"], Dict[str, Any]], closure_factory=None) -> List[Run]:
        """closure_factory(interp) -> dict of free variables (for nested functions analysed on their own)"""
        mod, func = self.db.func(ref)
        pending: List[List[bool]] = [[]]
        runs: List[Run] = []
        while pending:
            choices = pending.pop()
            self.run = Run(choices)
            self.stack = []
            self._ids = itertools.count(1)
            args = args_factory(self)
            outer = None
            if closure_factory is not None:
                outer = Activation(mod, None, closure_factory(self), None, ref.split(":")[1].rsplit(".", 1)[0])
            try:
                self.run.ret = self.call_function(FuncRef(mod, func, ref.split(":")[1], closure=outer), [], args, node=None, top=True)
            except _Raise as r:
                self.run.raised = r.what
            runs.append(self.run)
            for i in range(len(choices), len(self.run.taken)):
                pending.append(self.run.taken[:i] + [not self.run.taken[i]])
            if len(runs) + len(pending) > self.max_paths:
                raise PathLimit(f"more than {self.max_paths} paths in {ref}")
        return runs

    def prefix_closure(self, mod: Module, outer_qual: str, nested_name: str, env: Dict[str, Any]) -> Dict[str, Any]:
        """the free variables a nested function sees: the enclosing function's top-level statements in front of the nested `def` are executed on `env`
        (use inside a closure_factory; hooks and decisions apply as usual)"""
        outer = mod.func(outer_qual)
        idx = next((i for i, st in enumerate(outer.body) if isinstance(st, (ast.FunctionDef, ast.AsyncFunctionDef)) and st.name == nested_name), None)
        if idx is None:
            raise AnalysisError(f"anchor vanished: {nested_name} is not defined at the top level of {outer_qual}")
        act = Activation(mod, outer, dict(env), None, outer_qual)
        self.stack.append(act)
        try:
            self.exec_block(outer.body[:idx])
        finally:
            self.stack.pop()
        return act.env

    def new_id(self) -> int:
        return next(self._ids)

    def log(self, kind: str, node: Optional[ast.AST] = None, **data) -> None:
        a = self.stack[-1] if self.stack else None
        self.run.events.append(dict(kind=kind, line=getattr(node, "lineno", 0), func=a.qualname if a else "?",
                                    module=a.mod.name if a else "?", **data))

    # ------------------------------------------------------------------ decisions
    def decide(self, c: T.Term, node: Optional[ast.AST] = None) -> bool:
        if T.is_const(c):
            return bool(c[1])
        nc = T.not_(c)
        for p in self.run.path:
            if p == c:
                return True
            if p == nc:
                return False
        if self.user_decide is not None:
            d = self.user_decide(c)
            if d is not None:
                self.run.path.append(c if d else nc)
                return d
        i = len(self.run.taken)
        d = self.run.choices[i] if i < len(self.run.choices) else True
        self.run.taken.append(d)
        self.run.path.append(c if d else nc)
        return d

    def truth(self, v: Any) -> T.Term:
        """boolean term of a value used as a condition"""
        if isinstance(v, Ser):
            return v.term
        if isinstance(v, (list, dict, set, frozenset, str)) and not any(isinstance(x, Each) for x in (v if not isinstance(v, (dict, str)) else [])):
            return T.C(bool(v))
        if isinstance(v, PyTuple):
            return T.C(bool(v.items))
        if isinstance(v, (bool, int, float)) or v is None:
            return T.C(bool(v))
        if isinstance(v, ReMatch):
            return T.TRUE
        if isinstance(v, (Frame, Obj, FuncRef, ClassRef)):
            return T.TRUE if not isinstance(v, Frame) else ("truthy", to_term(v))
        t = to_term(v)
        if T.is_const(t):
            return T.C(bool(t[1]))
        if t[0] in ("cmp", "eq", "ne", "and", "or", "not", "in", "truthy", "cmpx", "hascol", "isnull", "isinstance", "strmatch", "notnull", "dtypetest", "overlap"):
            return t
        if t[0] == "re":
            return T.cmp("!=", t, T.NONE)
        if t[0] == "intersection" and len(t) == 3:
            return ("overlap", t[1], t[2])          # a non-empty intersection: the two collections share an element
        if t[0] == "overlap":
            return t
        return ("truthy", t)

    # ------------------------------------------------------------------ calls
    def call_function(self, ref: FuncRef, pos: List[Any], kw: Dict[str, Any], node: Optional[ast.AST], top: bool = False, on_yield=None) -> Any:
        f = ref.node
        if isinstance(f, ast.Lambda):
            params = [a.arg for a in f.args.args]
            env = dict(zip(params, pos))
            env.update(kw)
            act = Activation(ref.mod, f, env, ref.closure, ref.qualname)
            self.stack.append(act)
            try:
                return self.eval(f.body)
            finally:
                self.stack.pop()
        a = f.args
        names = [x.arg for x in a.posonlyargs + a.args]
        env: Dict[str, Any] = {}
        pos = list(pos)
        if ref.bound_self is not None and names and names[0] in ("self", "cls"):
            env[names[0]] = ref.bound_self
            names = names[1:]
        elif top and names and names[0] in ("self", "cls") and names[0] not in kw:
            env[names[0]] = Obj(names[0], cls=self._class_of(ref))
            names = names[1:]
        for n, v in zip(names, pos):
            env[n] = v
        if len(pos) > len(names):
            if a.vararg:
                env[a.vararg.arg] = list(pos[len(names):])
            else:
                raise AnalysisError(f"too many arguments for {ref.qualname}")
        for k, v in kw.items():
            env[k] = v
        # defaults
        allp = a.posonlyargs + a.args
        for p, d in zip(allp[len(allp) - len(a.defaults):], a.defaults):
            if p.arg not in env:
                env[p.arg] = self._eval_default(ref, d)
        for p, d in zip(a.kwonlyargs, a.kw_defaults):
            if p.arg not in env and d is not None:
                env[p.arg] = self._eval_default(ref, d)
        for p in allp + a.kwonlyargs:
            if p.arg not in env:
                env[p.arg] = T.P(p.arg)
        if a.kwarg and a.kwarg.arg not in env:
            env[a.kwarg.arg] = {}
        act = Activation(ref.mod, f, env, ref.closure, ref.qualname)
        act.on_yield = on_yield
        self.stack.append(act)
        try:
            self.exec_block(f.body)
            ret = None
        except _Return as r:
            ret = r.value
        finally:
            if top:
                self.run.env = act.env
            self.stack.pop()
        return ret

    def call_merged(self, fn: Any, pos: List[Any], kw: Dict[str, Any], node) -> Any:
        """elementwise call: explore every path of the callee locally and merge the returned values into
        one ('cases', ((cond, value), ...)) term instead of forking the caller (the branch conditions depend
        on the element, not on the whole frame)."""
        outer = self.run
        depth = len(self.stack)
        results = []
        pending: List[List[bool]] = [[]]
        first = True
        while pending:
            ch = pending.pop()
            sub = Run(ch)
            sub.events = outer.events if first else []
            sub.loop_depth = outer.loop_depth
            first = False
            self.run = sub
            try:
                ret = to_term(self.pm.invoke(fn, list(pos), dict(kw), node))
            except _Raise as r:
                ret = ("raise", str(r.what))
            finally:
                del self.stack[depth:]
            results.append((T.and_(*sub.path) if sub.path else T.TRUE, ret))
            for i in range(len(ch), len(sub.taken)):
                pending.append(sub.taken[:i] + [not sub.taken[i]])
            if len(results) > 200:
                self.run = outer
                return T.opaque("too many paths in elementwise function")
        self.run = outer
        if len(results) == 1:
            return results[0][1]
        # two complementary cases are one conditional expression: `if c: return a / return b` == `a if c else b`
        if len(results) == 2:
            (c1, v1), (c2, v2) = results
            if c2 == T.not_(c1) or c1 == T.not_(c2):
                pos_first = not (isinstance(c1, tuple) and c1 and c1[0] == "not")
                c, a, b = (c1, v1, v2) if pos_first else (c2, v2, v1)
                return T.ite(c, a, b)
        return ("cases", tuple(sorted(results, key=repr)))

    def _eval_default(self, ref: FuncRef, d: ast.expr) -> Any:
        act = Activation(ref.mod, None, {}, ref.closure, ref.qualname)
        self.stack.append(act)
        try:
            return self.eval(d)
        finally:
            self.stack.pop()

    def _class_of(self, ref: FuncRef):
        if "." in ref.qualname:
            cq = ref.qualname.rsplit(".", 1)[0]
            if cq in ref.mod.classes:
                return (ref.mod, cq)
        return None

    def find_method(self, cls: Tuple[Module, str], name: str, _depth=0) -> Optional[FuncRef]:
        mod, cq = cls
        q = f"{cq}.{name}"
        if q in mod.functions:
            return FuncRef(mod, mod.functions[q], q)
        if _depth > 5 or cq not in mod.classes:
            return None
        for b in mod.classes[cq].bases:
            if isinstance(b, ast.Name):
                r = self.db.resolve_name(mod, b.id)
                if r and r[1] in r[0].classes:
                    m = self.find_method(r, name, _depth + 1)
                    if m:
                        return m
        return None

    # ------------------------------------------------------------------ names
    def lookup(self, name: str, node: ast.AST) -> Any:
        act = self.stack[-1]
        a = act
        while a is not None:
            if name in a.env:
                return a.env[name]
            a = a.outer
        mod = act.mod
        return self.module_name(mod, name)

    def module_name(self, mod: Module, name: str) -> Any:
        if name in mod.functions and "." not in name:
            return FuncRef(mod, mod.functions[name], name)
        if name in mod.classes:
            return self._classref(mod, name)
        if name in mod.constants:
            v = mod.constants[name]
            act = Activation(mod, None, {}, None, f"<module {mod.name}>")
            self.stack.append(act)
            try:
                return self.eval(v)
            finally:
                self.stack.pop()
        if name in mod.imports:
            im, attr = mod.imports[name]
            if attr is None:
                if im in self.db.modules:
                    return ("hta_module", im)
                return ExtMod(EXT_MODULES.get(name, EXT_MODULES.get(im.split(".")[0], im)))
            if im in self.db.modules:
                return self.module_name(self.db.modules[im], attr)
            if im + "." + attr in self.db.modules:
                return ("hta_module", im + "." + attr)
            return ExtMod(f"{EXT_MODULES.get(im.split('.')[0], im)}.{attr}")
        if name in ("True", "False", "None"):
            return {"True": True, "False": False, "None": None}[name]
        return ExtMod(f"builtins.{name}")

    def _classref(self, mod: Module, q: str) -> Any:  # noqa
        c = mod.classes[q]
        if any((isinstance(b, ast.Name) and b.id in ENUM_BASES) or (isinstance(b, ast.Attribute) and b.attr in ENUM_BASES) for b in c.bases):
            return EnumRef(mod, q, mod.enum_members(q))
        return ClassRef(mod, q)

    def assign_name(self, name: str, v: Any) -> None:
        act = self.stack[-1]
        if name in act.nonlocals:
            a = act.outer
            while a is not None:
                if name in a.env:
                    a.env[name] = v
                    return
                a = a.outer
        act.env[name] = v

    # ------------------------------------------------------------------ statements
    def exec_block(self, body: List[ast.stmt]) -> None:
        for st in body:
            self.exec(st)

    def exec(self, st: ast.stmt) -> None:
        m = getattr(self, "st_" + type(st).__name__, None)
        if m is None:
            self.log("unmodelled-stmt", st, what=type(st).__name__)
            raise AnalysisError(f"statement kind {type(st).__name__} is not modelled (line {getattr(st, 'lineno', '?')}): skipping it would give a wrong final state")
        m(st)

    # match / case: read as the if / elif ladder it abbreviates (value, singleton, or-, capture / wildcard, fixed-length sequence and keyword class patterns, guards)
    _match_ids = itertools.count()

    def st_Match(self, st):
        subj = f"__match_subject_{next(Interp._match_ids)}"
        self.assign(ast.copy_location(ast.Name(id=subj, ctx=ast.Store()), st), self.eval(st.subject), st)
        ld = lambda: ast.Name(id=subj, ctx=ast.Load())

        def pat(p, target):
            """-> (condition expr or None for 'always', [(name, expr)] bindings)"""
            if isinstance(p, ast.MatchValue):
                return ast.Compare(left=target, ops=[ast.Eq()], comparators=[p.value]), []
            if isinstance(p, ast.MatchSingleton):
                return ast.Compare(left=target, ops=[ast.Is()], comparators=[ast.Constant(value=p.value)]), []
            if isinstance(p, ast.MatchAs):
                if p.pattern is None:
                    return None, ([(p.name, target)] if p.name else [])
                c_, b_ = pat(p.pattern, target)
                return c_, b_ + ([(p.name, target)] if p.name else [])
            if isinstance(p, ast.MatchOr):
                parts = [pat(q, target) for q in p.patterns]
                if any(b_ for _, b_ in parts):
                    raise AnalysisError("match: an or-pattern with captures is not modelled")
                if any(c_ is None for c_, _ in parts):
                    return None, []
                return ast.BoolOp(op=ast.Or(), values=[c_ for c_, _ in parts]), []
            if isinstance(p, ast.MatchSequence) and (not any(isinstance(q, ast.MatchStar) for q in p.patterns) or (isinstance(p.patterns[-1], ast.MatchStar) and not any(isinstance(q, ast.MatchStar) for q in p.patterns[:-1]))):
                star = isinstance(p.patterns[-1], ast.MatchStar) if p.patterns else False
                fixed = p.patterns[:-1] if star else p.patterns
                conds = [ast.Compare(left=ast.Call(func=ast.Name(id="len", ctx=ast.Load()), args=[target], keywords=[]), ops=[ast.GtE() if star else ast.Eq()], comparators=[ast.Constant(value=len(fixed))])]
                binds = []
                if star and p.patterns[-1].name:
                    binds.append((p.patterns[-1].name, ast.Call(func=ast.Name(id="list", ctx=ast.Load()), args=[ast.Subscript(value=target, slice=ast.Slice(lower=ast.Constant(value=len(fixed)), upper=None, step=None), ctx=ast.Load())], keywords=[])))
                for i_, q in enumerate(fixed):
                    c_, b_ = pat(q, ast.Subscript(value=target, slice=ast.Constant(value=i_), ctx=ast.Load()))
                    if c_ is not None:
                        conds.append(c_)
                    binds += b_
                return (conds[0] if len(conds) == 1 else ast.BoolOp(op=ast.And(), values=conds)), binds
            if isinstance(p, ast.MatchClass) and not p.patterns:
                conds = [ast.Call(func=ast.Name(id="isinstance", ctx=ast.Load()), args=[target, p.cls], keywords=[])]
                binds = []
                for a_, q in zip(p.kwd_attrs, p.kwd_patterns):
                    c_, b_ = pat(q, ast.Attribute(value=target, attr=a_, ctx=ast.Load()))
                    if c_ is not None:
                        conds.append(c_)
                    binds += b_
                return (conds[0] if len(conds) == 1 else ast.BoolOp(op=ast.And(), values=conds)), binds
            raise AnalysisError(f"match: pattern {type(p).__name__} is not modelled")

        def ladder(cases):
            if not cases:
                return []
            c = cases[0]
            cond, binds = pat(c.pattern, ld())
            pre = [ast.Assign(targets=[ast.Name(id=n_, ctx=ast.Store())], value=e_) for n_, e_ in binds]
            rest = ladder(cases[1:])
            if c.guard is not None and binds:
                import copy as _copy
                inner = [ast.If(test=c.guard, body=list(c.body), orelse=_copy.deepcopy(rest))]
                body = pre + inner
                test = cond
            else:
                body = pre + list(c.body)
                test = cond if c.guard is None else (c.guard if cond is None else ast.BoolOp(op=ast.And(), values=[cond, c.guard]))
            if test is None:
                return body
            return [ast.If(test=test, body=body, orelse=rest)]
        stmts = ladder(list(st.cases))
        for s_ in stmts:
            ast.copy_location(s_, st)
            ast.fix_missing_locations(s_)
        self.exec_block(stmts)

    def st_Expr(self, st):
        if isinstance(st.value, ast.Constant):
            return
        self.eval(st.value)

    def st_Pass(self, st):
        pass

    def st_Import(self, st):
        for a in st.names:
            self.stack[-1].env[a.asname or a.name.split(".")[0]] = ExtMod(EXT_MODULES.get(a.name.split(".")[0], a.name))

    def st_ImportFrom(self, st):
        for a in st.names:
            self.stack[-1].env[a.asname or a.name] = ExtMod(f"{st.module}.{a.name}")

    def st_Global(self, st):
        pass

    def st_Nonlocal(self, st):
        self.stack[-1].nonlocals.update(st.names)

    def st_FunctionDef(self, st):
        act = self.stack[-1]
        self.stack[-1].env[st.name] = FuncRef(act.mod, st, f"{act.qualname}.{st.name}", closure=act)

    def st_ClassDef(self, st):
        self.log("unmodelled-stmt", st, what="ClassDef")

    def st_Return(self, st):
        raise _Return(self.eval(st.value) if st.value is not None else None)

    def st_Raise(self, st):
        what = ast.unparse(st.exc) if st.exc is not None else "reraise"
        self.log("raise", st, what=what)
        raise _Raise(what)

    def st_Assert(self, st):
        c = self.truth(self.eval(st.test))
        self.log("assert", st, cond=c)
        if not T.is_const(c):
            if T.not_(c) in self.run.path:
                raise _Raise("AssertionError")
            if c not in self.run.path:
                self.run.path.append(c)
        elif not c[1]:
            raise _Raise("AssertionError")

    def st_Delete(self, st):
        for t in st.targets:
            self.log("delete", st, target=ast.unparse(t))
            if isinstance(t, ast.Subscript):
                base = self.eval(t.value)
                key = self.eval(t.slice)
                if isinstance(base, Frame) and isinstance(key, str):
                    self.pm.mutating(base, st, "del-column")
                    base.dropped.add(key)
                    base.cols.pop(key, None)
                elif isinstance(base, dict) and self.run.loop_depth == 0 and self._hashable(key) in base:
                    del base[self._hashable(key)]          # del d[k] of a known entry, outside symbolic loops

    def st_If(self, st):
        c = self.truth(self.eval(st.test))
        if self.decide(c, st):
            self.exec_block(st.body)
        else:
            self.exec_block(st.orelse)

    def st_With(self, st):
        for it in st.items:
            v = self.eval(it.context_expr)
            if it.optional_vars is not None:
                self.assign(it.optional_vars, v, st)
        self.exec_block(st.body)

    def st_Try(self, st):
        # body path; handlers are explored as an alternative when they do something else than re-raise / log
        interesting = [h for h in st.handlers if any(isinstance(x, (ast.Return, ast.Assign)) for x in ast.walk(h))]
        # `try: v = frame["col"] except KeyError: ...` is the test `"col" in frame.columns` written with an exception: decided on the same condition (hascol)
        if len(st.handlers) == 1 and st.handlers[0].type is not None and ast.unparse(st.handlers[0].type) == "KeyError" and len(st.body) == 1 and not st.orelse and not st.finalbody \
                and isinstance(st.body[0], (ast.Assign, ast.Expr)) and isinstance(st.body[0].value, ast.Subscript) and isinstance(st.body[0].value.value, ast.Name) \
                and isinstance(st.body[0].value.slice, ast.Constant) and isinstance(st.body[0].value.slice.value, str):
            base = self.eval(st.body[0].value.value)
            if isinstance(base, Frame):
                col = st.body[0].value.slice.value
                h_ = base.has(col)
                present = T.C(h_) if h_ is not None else ("hascol", base.base, col)
                if self.decide(present, st):
                    self.exec_block(st.body)
                else:
                    self.log("except-path", st, what="KeyError (column absent)")
                    self.exec_block(st.handlers[0].body)
                return
        # `try: v = next(it) ... except StopIteration: <leave>` over an iterator of known elements is deterministic: the handler runs exactly when the iterator is exhausted
        if st.handlers and all(h.type is not None and ast.unparse(h.type) == "StopIteration" for h in st.handlers) and not st.finalbody:
            try:
                self.exec_block(st.body)
            except _Raise as r_:
                if getattr(r_, "concrete", False) and r_.what == "StopIteration":
                    self.exec_block(st.handlers[0].body)
                    return
                raise
            self.exec_block(st.orelse)
            return
        if interesting and not self.decide(("noexc", getattr(st, "lineno", 0)), st):
            h = interesting[0]
            self.log("except-path", st, what=ast.unparse(h.type) if h.type is not None else "bare")
            self.exec_block(h.body)
        else:
            self.exec_block(st.body)
            self.exec_block(st.orelse)
        self.exec_block(st.finalbody)

    def st_While(self, st):
        # a loop whose condition is a CONSTANT every time it is tested (plain Python bookkeeping over concrete values, e.g. popping a stack of characters) is run as written,
        # outside symbolic loops only; anything else is executed once with unknown state, as before
        stop_only = lambda n: all(h.type is not None and ast.unparse(h.type) == "StopIteration" for h in n.handlers) and not n.finalbody
        if self.run.loop_depth == 0 and not any(isinstance(n, ast.Try) and not stop_only(n) for n in ast.walk(st)) and not st.orelse:
            first = self.truth(self.eval(st.test))
            if T.is_const(first):
                n_it, c = 0, first
                while T.is_const(c) and c[1]:
                    n_it += 1
                    if n_it > 2000:
                        raise AnalysisError(f"while loop at line {st.lineno}: more than 2000 concrete iterations")
                    try:
                        self.exec_block(st.body)
                    except _Continue:
                        pass
                    except _Break:
                        return
                    c = self.truth(self.eval(st.test))
                if not T.is_const(c):
                    raise AnalysisError(f"while loop at line {st.lineno}: the condition became symbolic after {n_it} concrete iteration(s)")
                return
        self.log("while-once", st)
        self._loop_once(st.body, None, None, st)

    # ------------------------------------------------------------------ generators (fusion of producer and consumer)
    @staticmethod
    def is_generator(f: ast.AST) -> bool:
        return isinstance(f, (ast.FunctionDef, ast.AsyncFunctionDef)) and any(isinstance(n, (ast.Yield, ast.YieldFrom)) for n in walk_no_nested(f))

    def run_generator(self, gen: GenCall, on_yield) -> None:
        """run the generator's body; every `yield v` calls on_yield(v) with the generator's frames taken off the stack"""
        base = len(self.stack)

        def handler(v):
            frames = self.stack[base:]
            del self.stack[base:]
            try:
                on_yield(v)
            finally:
                self.stack.extend(frames)
        self.call_function(gen.ref, gen.pos, gen.kw, None, on_yield=handler)

    def materialise(self, gen: GenCall) -> list:
        """the values a generator yields, as a list (values yielded inside a symbolically executed loop become Each markers)"""
        out, where_ = [], []
        depth0 = self.run.loop_depth
        base = len(self.run.loop_iters)

        def got(v):
            out.append(Each(v) if self.run.loop_depth > depth0 else v)
            # (iterables of the enclosing symbolic loops, was a decision taken inside them before this yield - i.e. is the yield conditional on the element)
            inside = self.run.loop_iters[base:]
            conditional = bool(inside) and len(self.run.path) > inside[0][1]
            where_.append((tuple(x[0] for x in inside), conditional))
        self.run_generator(gen, got)
        # one yield inside ONE symbolically executed loop: the generator is the comprehension [value for elem in iterable]
        if len(out) == 1 and isinstance(out[0], Each) and not isinstance(out[0].value, (Frame, GroupBy)) and len(where_[0][0]) == 1 and not where_[0][1] and self.run.loop_depth == depth0:
            return ("comp", "list", to_term(out[0].value), where_[0][0][0], T.TRUE)
        return out

    def ex_Yield(self, e):
        v = self.eval(e.value) if e.value is not None else None
        h = getattr(self.stack[-1], "on_yield", None) if self.stack else None
        if h is None:
            raise AnalysisError(f"yield outside an iterated generator (line {getattr(e, 'lineno', 0)})")
        h(v)
        return None

    def ex_YieldFrom(self, e):
        h = getattr(self.stack[-1], "on_yield", None) if self.stack else None
        if h is None:
            raise AnalysisError(f"yield from outside an iterated generator (line {getattr(e, 'lineno', 0)})")
        src = self.eval(e.value)
        if isinstance(src, GenCall):
            self.run_generator(src, h)
            return None
        seq = self._concrete_seq(src)
        if seq is not None:
            for v in seq:
                h(v)
            return None
        self.run.loop_depth += 1
        try:
            h(self.pm.iter_element(src, to_term(src)))
        finally:
            self.run.loop_depth -= 1
        return None

    def st_For(self, st):
        it = self.eval(st.iter)
        if isinstance(it, GenCall):
            class _Stop(Exception):
                pass

            def body(v):
                self.assign(st.target, v, st, symbolic_elem=True)
                try:
                    self.exec_block(st.body)
                except _Continue:
                    pass
                except _Break:
                    raise _Stop()
            try:
                self.run_generator(it, body)
            except _Stop:
                return
            self.exec_block(st.orelse)
            return
        seq = self._concrete_seq(it)
        if isinstance(it, ListIter) and seq is not None:
            it.pos = len(it.items)          # the loop consumes the iterator
        if seq is not None and (len(seq) <= 16 or (isinstance(it, str) and self.run.loop_depth == 0)):
            if isinstance(it, (set, frozenset)) and len(it) > 1 and any(isinstance(x, str) for x in it):
                self.log("unordered-walk", st, size=len(it))          # a set of strings is walked in hash order: the order used here (sorted) is not the program's
            try:
                for v in seq:
                    self.assign(st.target, v, st)
                    try:
                        self.exec_block(st.body)
                    except _Continue:
                        continue
                else:
                    self.exec_block(st.orelse)
            except _Break:
                pass
            return
        self._loop_once(st.body, st.target, it, st)

    def _loop_once(self, body, target, it, st):
        if target is not None:
            it_t = to_term(it)
            elem = self.pm.iter_element(it, it_t)
            self.assign(target, elem, st, symbolic_elem=True)
        self.run.loop_depth += 1
        self.run.loop_iters.append((to_term(it) if it is not None else None, len(self.run.path)))
        self.log("loop-enter", st, iter=to_term(it) if it is not None else None)
        try:
            self.exec_block(body)
        except (_Continue, _Break):
            pass
        finally:
            self.run.loop_depth -= 1
            self.run.loop_iters.pop()
            self.log("loop-exit", st)

    def _concrete_seq(self, it: Any) -> Optional[list]:
        if isinstance(it, EnumRef):
            return [("enum", it.qualname, k) for k in it.members]          # iterating an Enum class yields its members in definition order
        if isinstance(it, Obj) and "__fields__" in it.attrs:
            return [it.attrs[f_] for f_ in it.attrs["__fields__"]]          # a NamedTuple instance iterates over its fields in declaration order
        if isinstance(it, ListIter):
            return list(it.items[it.pos:])          # what is left of an iterator over known elements
        if isinstance(it, list) and not any(isinstance(x, Each) for x in it):
            return list(it)
        if isinstance(it, str) and len(it) <= 400:
            return list(it)          # a string iterates over its characters
        if isinstance(it, PyTuple):
            return list(it.items)
        if isinstance(it, (set, frozenset)):
            if any(isinstance(x, tuple) and len(x) == 2 and x[0] == "allof" for x in it):
                return None          # holds all elements of a symbolic collection: not a known sequence
            return sorted(it, key=repr)
        if isinstance(it, dict):
            # (a tuple key is stored as its term: it iterates as the tuple again)
            unterm = lambda k: PyTuple([x[1] if T.is_const(x) else x for x in k[1]]) if isinstance(k, tuple) and len(k) == 2 and k[0] == "tuple" and isinstance(k[1], tuple) else k
            return [unterm(k) for k in it.keys()]
        if isinstance(it, Columns):
            n = it.names()
            return [PyTuple(c.split("\x1f")) if isinstance(c, str) and "\x1f" in c else c for c in n] if n is not None else None
        return None

    def st_Assign(self, st):
        v = self.eval(st.value)
        for t in st.targets:
            self.assign(t, v, st)

    def st_AnnAssign(self, st):
        if st.value is not None:
            self.assign(st.target, self.eval(st.value), st)

    def st_AugAssign(self, st):
        cur = self.eval(_as_load(st.target))
        v = self.binop(type(st.op).__name__, cur, self.eval(st.value), st)
        self.log("augassign", st, target=ast.unparse(st.target), op=type(st.op).__name__)
        self.assign(st.target, v, st, aug=True)

    def st_Break(self, st):
        raise _Break()

    def st_Continue(self, st):
        raise _Continue()

    # ------------------------------------------------------------------ assignment
    def assign(self, target: ast.expr, v: Any, st: ast.AST, symbolic_elem: bool = False, aug: bool = False) -> None:
        if isinstance(target, ast.Name):
            self.assign_name(target.id, v)
        elif isinstance(target, (ast.Tuple, ast.List)):
            items = None
            if isinstance(v, PyTuple):
                items = v.items
            elif isinstance(v, list) and not any(isinstance(x, Each) for x in v):
                items = v
            if items is None and isinstance(v, Obj) and "__fields__" in v.attrs and len(v.attrs["__fields__"]) == len(target.elts):
                items = [v.attrs[f] for f in v.attrs["__fields__"]]
            if items is None and isinstance(v, Obj) and "__frame__" in v.attrs and v.attrs.get("__row_of__") == ("row",):
                fr = v.attrs["__frame__"]
                cn = fr.colnames()
                if cn is not None and len(cn) + 1 == len(target.elts):
                    items = [("at", ("row",), self.pm.ops.index_term(fr))] + [("at", ("row",), fr.col(c)) for c in cn]
            if items is not None and len(items) == len(target.elts):
                for t, x in zip(target.elts, items):
                    self.assign(t, x, st)
            else:
                base = to_term(v)
                for i, t in enumerate(target.elts):
                    self.assign(t, self.pm.unpack_item(v, base, i, len(target.elts)), st)
        elif isinstance(target, ast.Attribute):
            obj = self.eval(target.value)
            if isinstance(obj, Frame):
                self.pm.frame_set_attr(obj, target.attr, v, st)
            elif isinstance(obj, Obj):
                self.log("attr-store", st, obj=obj.name, attr=target.attr, value=to_term(v))
                obj.attrs[target.attr] = v
            elif isinstance(obj, Ser):
                self.log("series-attr-store", st, attr=target.attr)
            else:
                self.log("attr-store", st, obj=repr(obj), attr=target.attr, value=to_term(v))
        elif isinstance(target, ast.Subscript):
            obj = self.eval(target.value)
            # a masked store into a positional (numpy) array held by a local name:  arr[mask] = value   ==   arr = where(mask, value, arr)
            if isinstance(obj, Ser) and obj.frame is None and getattr(obj, "positional", False) and isinstance(target.value, ast.Name) and not isinstance(target.slice, ast.Slice):
                key = self.eval(target.slice)
                if isinstance(key, Ser) and key.ctx == obj.ctx and self.pm._boolish(key.term):
                    vt = v.term if isinstance(v, Ser) else to_term(v)
                    self.assign_name(target.value.id, Ser(T.ite(key.term, vt, obj.term), obj.ctx, None, None, positional=True))
                    self.log("array-masked-store", st, name=target.value.id)
                    return
            self.pm.setitem(obj, target, v, st)
        elif isinstance(target, ast.Starred):
            self.assign(target.value, v, st)
        else:
            self.log("unmodelled-target", st, what=ast.unparse(target))

    # ------------------------------------------------------------------ expressions
    def eval(self, e: ast.expr) -> Any:
        m = getattr(self, "ex_" + type(e).__name__, None)
        if m is None:
            return T.opaque(f"expr {type(e).__name__} line {getattr(e, 'lineno', 0)}")
        return m(e)

    def ex_Constant(self, e):
        return e.value

    def ex_Name(self, e):
        return self.lookup(e.id, e)

    def ex_NamedExpr(self, e):
        v = self.eval(e.value)
        self.assign(e.target, v, e)
        return v

    def _display_items(self, e) -> list:
        """the elements of a tuple / list display; `*x` of a known sequence (or of a NamedTuple-like object) contributes its elements"""
        out = []
        for x in e.elts:
            if isinstance(x, ast.Starred):
                v = self.eval(x.value)
                seq = self._concrete_seq(v) if not isinstance(v, (dict, set, frozenset, str)) else None
                if seq is None and isinstance(v, Obj) and "__fields__" in v.attrs:
                    seq = [v.attrs[f_] for f_ in v.attrs["__fields__"]]
                if seq is not None and not any(isinstance(y, Each) for y in seq):
                    out.extend(seq)
                    continue
                out.append(("starred", to_term(v)))
            else:
                out.append(self.eval(x))
        return out

    def ex_Tuple(self, e):
        return PyTuple(self._display_items(e))

    def ex_List(self, e):
        return self._display_items(e)

    def ex_Set(self, e):
        return set(self._hashable(self.eval(x)) for x in e.elts)

    def ex_Dict(self, e):
        out = {}
        for k, v in zip(e.keys, e.values):
            if k is None:
                src = self.eval(v)
                if isinstance(src, dict) and type(src) is dict:          # {**d, ...}: the entries of a known dict, in its order
                    out.update(src)
                    continue
                return T.opaque("dict unpacking")
            out[self._hashable(self.eval(k))] = self.eval(v)
        return out

    def _hashable(self, v):
        if isinstance(v, (list, dict, set, Ser, Frame, PyTuple)):
            return to_term(v)
        return v

    def ex_JoinedStr(self, e):
        parts = []
        for x in e.values:
            if isinstance(x, ast.Constant):
                parts.append(T.C(x.value))
            else:
                parts.append(to_term(self.eval(x.value)))
        if all(T.is_const(p) for p in parts):
            return "".join(str(p[1]) for p in parts)
        return ("fstr", tuple(parts))

    def ex_Lambda(self, e):
        act = self.stack[-1]
        return FuncRef(act.mod, e, f"{act.qualname}.<lambda@{e.lineno}>", closure=act)

    def ex_IfExp(self, e):
        c = self.truth(self.eval(e.test))
        if T.is_const(c):
            return self.eval(e.body if c[1] else e.orelse)
        for p in self.run.path:
            if p == c:
                return self.eval(e.body)
            if p == T.not_(c):
                return self.eval(e.orelse)
        a, b = self.eval(e.body), self.eval(e.orelse)
        if isinstance(a, (Frame, GroupBy)) or isinstance(b, (Frame, GroupBy)) or isinstance(a, Obj) or isinstance(b, Obj):
            return a if self.decide(c, e) else b
        return T.ite(c, to_term(a), to_term(b))

    def ex_BoolOp(self, e):
        is_and = isinstance(e.op, ast.And)
        boolish = all(isinstance(x, (ast.Compare, ast.BoolOp)) or (isinstance(x, ast.UnaryOp) and isinstance(x.op, ast.Not)) for x in e.values)
        if boolish:
            ts = []
            for x in e.values:
                t = self.truth(self.eval(x))
                if T.is_const(t):
                    if bool(t[1]) != is_and:      # short circuit: False in an `and`, True in an `or`
                        ts.append(t)
                        break
                    continue
                ts.append(t)
            return (T.and_ if is_and else T.or_)(*ts) if ts else (is_and)
        # value semantics (`x or default`, `a and a.b`): lazy, left to right
        last = None
        for i, x in enumerate(e.values):
            v = self.eval(x)
            last = v
            if i == len(e.values) - 1:
                return v
            t = self.truth(v)
            if T.is_const(t):
                if bool(t[1]) != is_and:
                    return v
                continue
            if self.decide(t, e) != is_and:
                return v
        return last

    def ex_UnaryOp(self, e):
        v = self.eval(e.operand)
        if isinstance(e.op, ast.Not):
            return T.not_(self.truth(v))
        if isinstance(e.op, ast.Invert):
            if isinstance(v, Ser):
                return v.with_term(T.not_(v.term))
            return T.not_(to_term(v)) if not isinstance(v, int) else ~v
        if isinstance(e.op, ast.USub):
            if isinstance(v, (int, float)):
                return -v
            if isinstance(v, Ser):
                return v.with_term(T.neg(v.term))
            return T.neg(to_term(v))
        return v

    def ex_BinOp(self, e):
        return self.binop(type(e.op).__name__, self.eval(e.left), self.eval(e.right), e)

    def binop(self, op: str, a: Any, b: Any, node) -> Any:
        if isinstance(a, (int, float)) and isinstance(b, (int, float)) and not isinstance(a, bool) and not isinstance(b, bool):
            try:
                return {"Add": a + b, "Sub": a - b, "Mult": a * b, "Div": a / b if b else None, "LShift": int(a) << int(b),
                        "FloorDiv": a // b if b else None, "Mod": a % b if b else None, "BitAnd": int(a) & int(b), "BitOr": int(a) | int(b),
                        "Pow": a ** b}[op]
            except Exception:
                pass
        if isinstance(a, str) and isinstance(b, str) and op == "Add":
            return a + b
        if isinstance(a, list) and isinstance(b, list) and op == "Add":
            return a + b
        if isinstance(a, (set, frozenset)) and isinstance(b, (set, frozenset)):
            if op == "Sub":
                return set(a) - set(b)
            if op == "BitOr":
                return set(a) | set(b)
            if op == "BitAnd":
                return set(a) & set(b)
        if isinstance(a, (set, frozenset)) or isinstance(b, (set, frozenset)) or (isinstance(a, tuple) and a and a[0] in ("set", "frozenset")) \
                or (isinstance(b, tuple) and b and b[0] in ("set", "frozenset")):
            return ("setop", op, to_term(a), to_term(b))
        return self.pm.binop(op, a, b, node)

    def ex_Compare(self, e):
        left = self.eval(e.left)
        out = []
        for op, r in zip(e.ops, e.comparators):
            right = self.eval(r)
            out.append(self.pm.compare(type(op).__name__, left, right, e))
            left = right
        if len(out) == 1:
            return out[0]
        if any(isinstance(x, Ser) for x in out):
            return T.opaque("chained comparison on series")
        return T.and_(*[self.truth(x) for x in out])

    def ex_Attribute(self, e):
        v = self.eval(e.value)
        return self.pm.getattr(v, e.attr, e)

    def ex_Subscript(self, e):
        v = self.eval(e.value)
        if isinstance(e.slice, ast.Slice):
            key = ("slice", tuple(None if x is None else self._hashable(self.eval(x)) for x in (e.slice.lower, e.slice.upper, e.slice.step)))
        else:
            key = self.eval(e.slice)
        return self.pm.getitem(v, key, e)

    def ex_Starred(self, e):
        return ("starred", to_term(self.eval(e.value)))

    def ex_ListComp(self, e):
        return self._comp(e, "list")

    def ex_SetComp(self, e):
        return self._comp(e, "set")

    def ex_GeneratorExp(self, e):
        return self._comp(e, "list", lazy=True)

    def ex_DictComp(self, e):
        return self._comp(e, "dict")

    def _comp(self, e, kind, lazy=False):
        gen = e.generators[0]
        it = self.eval(gen.iter)
        if isinstance(it, GenCall):
            it = self.materialise(it)
        seq = self._concrete_seq(it) if len(e.generators) == 1 else None
        act = self.stack[-1]
        inner = Activation(act.mod, act.func, {}, act, act.qualname)
        self.stack.append(inner)
        try:
            if seq is not None and len(seq) <= 32:
                out_l, out_d = [], {}
                guarded = []          # generator expression with a symbolic filter: (condition, value) per element
                for v in seq:
                    self.assign(gen.target, v, e)
                    conds = [self.truth(self.eval(c)) for c in gen.ifs]
                    c = T.and_(*conds) if conds else T.TRUE
                    if c == T.FALSE:
                        continue
                    if c != T.TRUE:
                        # a symbolic filter over a SHORT concrete sequence is decided like an `if` (one path per outcome)
                        if len(seq) <= 6 and not T.has_opaque(c) and self.user_decide is not None:
                            if not self.decide(c, e):
                                continue
                        elif kind == "list" and len(seq) <= 8 and not T.has_opaque(c) and (lazy or len(e.generators) == 1):
                            guarded.append((c, self.eval(e.elt)))
                            continue
                        else:
                            seq = None
                            break
                    if guarded:
                        guarded.append((T.TRUE, self.eval(e.elt)))
                        continue
                    if kind == "dict":
                        out_d[self._hashable(self.eval(e.key))] = self.eval(e.value)
                    else:
                        out_l.append(self.eval(e.elt))
                if seq is not None and guarded:
                    return GuardedSeq([(T.TRUE, x) for x in out_l] + guarded)
                if seq is not None:
                    if kind == "dict":
                        return out_d
                    return out_l if kind == "list" else set(self._hashable(x) for x in out_l)
            # symbolic comprehension
            it_t = to_term(it)
            if isinstance(it, Ser) and kind == "list" and len(e.generators) == 1 and isinstance(gen.target, ast.Name):
                # [f(v) for v in series]: one element per row, in row order; v is that row's value
                it_t = ("seriter", it.term, it.ctx)
                self.assign(gen.target, ("at", ("row",), it.term), e, symbolic_elem=True)
            else:
                self.assign(gen.target, self.pm.iter_element(it, it_t), e, symbolic_elem=True)

            def merged_cond(expr):
                """a filter that calls functions is evaluated per element: the callee's branches are merged into one boolean term"""
                if not any(isinstance(x, ast.Call) for x in ast.walk(expr)):
                    return self.eval(expr)
                lam = ast.Lambda(args=ast.arguments(posonlyargs=[], args=[], kwonlyargs=[], kw_defaults=[], defaults=[]), body=expr)
                ast.copy_location(lam, expr)
                ast.fix_missing_locations(lam)
                ref = self.eval(lam)
                return self.call_merged(ref, [], {}, e) if isinstance(ref, FuncRef) else self.eval(expr)
            conds = [self.truth(merged_cond(c)) for c in gen.ifs]
            for g in e.generators[1:]:
                it2 = self.eval(g.iter)
                self.assign(g.target, self.pm.iter_element(it2, to_term(it2)), e, symbolic_elem=True)
                conds += [self.truth(self.eval(c)) for c in g.ifs]
            cond = T.and_(*conds) if conds else T.TRUE

            def merged(expr):
                """the element expression is evaluated per ELEMENT: branches inside functions it calls are merged into one term instead of forking the caller"""
                if not any(isinstance(x, ast.Call) for x in ast.walk(expr)):
                    return self.eval(expr)
                lam = ast.Lambda(args=ast.arguments(posonlyargs=[], args=[], kwonlyargs=[], kw_defaults=[], defaults=[]), body=expr)
                ast.copy_location(lam, expr)
                ast.fix_missing_locations(lam)
                ref = self.eval(lam)
                return self.call_merged(ref, [], {}, e) if isinstance(ref, FuncRef) else self.eval(expr)
            if kind == "dict":
                body = ("kv", to_term(self.eval(e.key)), to_term(merged(e.value)))
            else:
                bv = merged(e.elt)
                if isinstance(bv, Frame):
                    return [Each(bv, it_t)]
                body = to_term(bv)
            return ("comp", kind, body, it_t, cond)
        finally:
            self.stack.pop()

    def ex_Call(self, e):
        return self.pm.call(e)


def _as_load(t: ast.expr) -> ast.expr:
    import copy
    n = copy.deepcopy(t)
    for x in ast.walk(n):
        if hasattr(x, "ctx"):
            x.ctx = ast.Load()
    return n
