"""Series / GroupBy / str accessor / python containers / external functions (pd, np, builtins)."""
from __future__ import annotations

import ast
from typing import Any, Dict, List, Optional

from . import terms as T
from .progdb import AnalysisError
from .values import (Columns, DefaultDict, ClassRef, Each, EnumRef, ExtMod, Frame, FuncRef, GenCall, GroupBy, GuardedSeq, ListIter, Obj, PyTuple, ReMatch, Ser, to_term)

_CMP_METH = {"lt": "<", "le": "<=", "gt": ">", "ge": ">=", "eq": "==", "ne": "!="}
REDUCTIONS = {"sum", "min", "max", "mean", "std", "count", "median", "nunique", "idxmax", "idxmin", "first", "last", "any", "all", "var", "prod", "size"}
WINDOW = {"cumsum", "cummax", "cummin", "diff", "cumcount", "rank", "cumprod"}


class SeriesOps:
    # ------------------------------------------------------------------ Series
    def series_getitem(self, s: Ser, key: Any, node) -> Any:
        if isinstance(key, Ser) and self._is_mask(key):
            return Ser(s.term, (s.ctx[0], T.and_(s.ctx[1], key.term), s.ctx[2]) if len(s.ctx) == 3 else s.ctx, s.frame, s.name)
        if isinstance(key, tuple) and key and key[0] == "slice":
            return Ser(s.term, (s.ctx[0], T.and_(s.ctx[1], ("rowslice", key[1])), s.ctx[2]) if len(s.ctx) == 3 else s.ctx, s.frame, s.name)
        if isinstance(key, Ser):
            return Ser(("gather", s.term, key.term, key.ctx), key.ctx, key.frame)
        return ("at", ("loc", s.ctx, to_term(key)), s.term)

    def series_method(self, s: Ser, name: str, pos: List[Any], kw: Dict[str, Any], node) -> Any:
        M = self.M
        arg0 = pos[0] if pos else None
        t0 = M.as_ser_term(arg0) if pos else None
        if name in _CMP_METH:
            return s.with_term(T.cmp(_CMP_METH[name], s.term, t0))
        if name in ("add", "radd"):
            return s.with_term(T.add(s.term, t0))
        if name == "sub":
            return s.with_term(T.sub(s.term, t0))
        if name == "rsub":
            return s.with_term(T.sub(t0, s.term))
        if name in ("mul", "rmul"):
            return s.with_term(T.mul(s.term, t0))
        if name in ("div", "truediv"):
            return s.with_term(T.div(s.term, t0))
        if name == "isin":
            return s.with_term(self._isin(s.term, arg0))
        if name == "between":
            lo_, hi_ = (pos[0] if pos else kw.get("left")), (pos[1] if len(pos) > 1 else kw.get("right"))
            inc = pos[2] if len(pos) > 2 else kw.get("inclusive", "both")
            if inc not in ("both", "neither", "left", "right"):
                raise AnalysisError(f"Series.between(inclusive={inc!r}) not modelled")
            return s.with_term(T.and_(T.cmp(">=" if inc in ("both", "left") else ">", s.term, M.as_ser_term(lo_)), T.cmp("<=" if inc in ("both", "right") else "<", s.term, M.as_ser_term(hi_))))
        if name == "shift":
            k = arg0 if pos else kw.get("periods", 1)
            return s.with_term(T.win("shift", (k,), s.term, s.ctx))
        if name in WINDOW:
            extra = tuple(sorted((k, repr(v)) for k, v in kw.items()))
            return s.with_term(T.win(name, extra, s.term, s.ctx))
        if name == "clip":
            lo = kw.get("lower", pos[0] if pos else None)
            hi = kw.get("upper", pos[1] if len(pos) > 1 else None)
            t = s.term
            if lo is not None:
                t = T.max2(t, M.as_ser_term(lo))
            if hi is not None:
                t = T.min2(t, M.as_ser_term(hi))
            return s.with_term(t)
        if name == "abs":
            return s.with_term(("abs", s.term))
        if name == "astype":
            return s.with_term(("astype", to_term(arg0 if pos else kw.get("dtype")), s.term))
        if name == "round":
            return s.with_term(("round", s.term, to_term(arg0 if pos else kw.get("decimals", 0))))
        if name == "fillna":
            r = s.with_term(("fillna", s.term, to_term(arg0 if pos else kw.get("value"))))
            if kw.get("inplace") is True:
                if s.frame is not None and isinstance(s.name, str):
                    M.mutating(s.frame, node, "series fillna inplace", column=s.name)
                    s.frame.setcol(s.name, r.term)
                return None
            return r
        if name in ("isna", "isnull"):
            return s.with_term(T.not_(("notnull", s.term)))
        if name in ("notna", "notnull"):
            return s.with_term(("notnull", s.term))
        if name == "groupby" and s.frame is not None and len(s.ctx) == 3 and s.frame.base == s.ctx[0]:
            key = arg0 if pos else kw.get("by")
            if isinstance(key, Ser) and key.ctx == s.ctx and not key.positional and not s.positional:
                # s.groupby(k) with k a series over the SAME rows (same index): the groups of frame.assign(<k's name>=k).groupby(<k's name>)[<s's name>]
                src = s.frame if (s.frame.rows == s.ctx[1] and s.frame.order == s.ctx[2]) else s.frame.derive(rows=s.ctx[1], order=s.ctx[2])
                g = src.derive()
                vname = s.name if isinstance(s.name, str) and s.name != "__index__" else "__values__"
                kname = key.name if isinstance(key.name, str) and key.name not in ("__index__", vname) else "__key__"
                g.setcol(vname, s.term)
                g.setcol(kname, key.term)
                return GroupBy(g, (kname,), kw.get("as_index", True), vname, kw.get("sort", True))
        named = lambda r: Ser(r.term, r.ctx, r.frame, s.name if isinstance(s.name, str) and s.name != "__index__" else None, r.positional)          # (the series' own name is kept)
        if name == "where":
            other = pos[1] if len(pos) > 1 else kw.get("other", ("nan",))
            return named(s.with_term(T.ite(M.as_ser_term(arg0), s.term, M.as_ser_term(other))))
        if name == "mask":
            other = pos[1] if len(pos) > 1 else kw.get("other", ("nan",))
            return named(s.with_term(T.ite(M.as_ser_term(arg0), M.as_ser_term(other), s.term)))
        if name in ("apply", "map"):
            own = ("func", "convert_dtype", "args", "by_row") if name == "apply" else ("arg", "na_action")
            extra = {k: v for k, v in kw.items() if k not in own}
            return self._series_apply(s, arg0 if pos else kw.get("func" if name == "apply" else "arg"), node, extra)
        if name == "rename" and (pos and isinstance(pos[0], str) or isinstance(kw.get("index"), str)) and not kw.get("inplace"):
            r = Ser(s.term, s.ctx, s.frame, pos[0] if pos else kw.get("index"), s.positional)
            r.renamed_from = getattr(s, "renamed_from", s.name)          # the column it was taken from (for to_frame / DataFrame(series))
            return r
        if name in ("copy", "rename", "squeeze", "infer_objects", "convert_dtypes"):
            r = Ser(s.term, s.ctx, s.frame, s.name, s.positional)
            if hasattr(s, "renamed_from"):
                r.renamed_from = s.renamed_from
            return r
        if name == "to_dict" and not pos and not kw and len(s.ctx) == 3 and not s.positional:
            return ("serdict", s.term, s.ctx)          # {index label: value}: a lookup d[k] is the value of the row labelled k (s.loc[k])
        if name in ("to_numpy", "to_list", "tolist"):
            if name == "to_numpy":
                return Ser(s.term, s.ctx, s.frame, s.name, positional=True)
            return ("tolist", s.term, s.ctx)
        if name == "unique":
            return ("unique", s.term, s.ctx)
        if name == "drop_duplicates":
            return ("unique", s.term, s.ctx)
        if name == "quantile":
            return T.agg("quantile", s.term, s.ctx, (to_term(arg0 if pos else kw.get("q", 0.5)),))
        if name in REDUCTIONS:
            return T.agg(name, s.term, s.ctx)
        if name == "describe":
            return ("describe", s.term, s.ctx)
        if name == "sort_values":
            asc = kw.get("ascending", True)
            c = s.ctx
            return Ser(s.term, (c[0], c[1], ("sort", (s.term,), asc, kw.get("kind", "quicksort"), None)) if len(c) == 3 else c, s.frame, s.name)
        if name == "reset_index" and s.frame is not None and (isinstance(s.name, str) or s.name is None) and not kw.get("drop") and len(s.ctx) == 3 and s.frame.base == s.ctx[0] and hasattr(self, "f_reset_index"):
            # Series.reset_index(): a frame with the index as column(s) and the values under the series' name (0 for an unnamed series)
            vname = s.name if isinstance(s.name, str) else 0
            src = s.frame if (s.frame.rows == s.ctx[1] and s.frame.order == s.ctx[2]) else s.frame.derive(rows=s.ctx[1], order=s.ctx[2])          # (a selection of the series' rows)
            g = self.project(src, [vname] if isinstance(vname, str) and src.has(vname) else [], node)
            g.setcol(vname, s.term)
            g.index, g.index_name = src.index, getattr(src, "index_name", None)
            g.index_keys = getattr(src, "index_keys", None)
            return self.f_reset_index(g, [], {k: v for k, v in kw.items() if k in ("names",)}, node)
        if name == "reset_index":
            return Ser(s.term, s.ctx, s.frame, s.name)
        if name == "to_frame":
            return self._series_to_frame(s, pos[0] if pos and isinstance(pos[0], str) else kw.get("name"), node)
        if name == "items":
            return ("series_items", s.term, s.ctx)
        if name == "union":
            return ("indexunion", s.term, s.ctx, t0, arg0.ctx if isinstance(arg0, Ser) else None)
        if name == "dropna":
            c = s.ctx
            return Ser(s.term, (c[0], T.and_(c[1], ("notnull", s.term)), c[2]) if len(c) == 3 else c, s.frame, s.name)
        if name == "duplicated":
            return s.with_term(("duplicated", kw.get("keep", pos[0] if pos else "first"), (s.term,), s.ctx))
        if name == "value_counts":
            return Frame(("value_counts", s.term, s.ctx))
        if name == "get":
            return ("at", ("loc", s.ctx, t0), s.term)
        if name == "startswith" or name == "endswith":
            return ("call", "str." + name, s.term, t0)
        self.log("unmodelled", node, what=f"Series.{name}")
        return s.with_term(T.opaque(f"Series.{name}"))

    def _isin(self, t: T.Term, values: Any) -> T.Term:
        if isinstance(values, GuardedSeq):
            # membership in [v for x in <known elements> if c(x)]: some kept element equals the value
            return T.or_(*[T.and_(c_, T.cmp("==", t, to_term(v_))) for c_, v_ in values.entries]) if values.entries else T.FALSE
        if isinstance(values, (list, set, frozenset, PyTuple)):
            items = values.items if isinstance(values, PyTuple) else list(values)
            if not any(isinstance(x, Each) or (isinstance(x, tuple) and len(x) == 2 and x[0] == "allof") for x in items):
                return T.isin(t, [to_term(x) for x in items])
        if isinstance(values, Ser):
            vt = ("valuesof", values.term, values.ctx)
            return ("in", t, vt)
        if isinstance(values, Frame):
            cn = values.colnames()
            col = values.col(cn[0]) if cn and len(cn) == 1 else ("allcols",)
            return ("in", t, ("valuesof", col, values.ctx()))
        return T.isin(t, to_term(values))

    def _series_to_frame(self, s: Ser, name, node) -> Frame:
        """Series.to_frame(name) / pd.DataFrame(series): one column, named after the series, same rows and index"""
        if s.frame is None:
            return Frame(("to_frame", s.term, s.ctx))
        g = s.frame.derive()
        new = name if isinstance(name, str) else s.name
        old = getattr(s, "renamed_from", s.name)
        if isinstance(new, str) and isinstance(old, str) and new != old:
            g.cols.pop(old, None)
            g.dropped.add(old)
            if g.known is not None and old in g.known:
                g.known[g.known.index(old)] = new
            g.setcol(new, s.term)
            self.log("rename", node, src=s.frame.obj, dst=g.obj, mapping={old: new})
        elif isinstance(new, str):
            g.setcol(new, s.term)
        return g

    def _series_apply(self, s: Ser, fn: Any, node, extra=None) -> Ser:
        if isinstance(fn, Obj) and "__partial__" in fn.attrs and isinstance(fn.attrs["__partial__"][0], FuncRef) and not fn.attrs["__partial__"][1]:
            # s.apply(partial(f, **k)) == s.apply(f, **k)
            f0, _a, k0 = fn.attrs["__partial__"]
            return self._series_apply(s, f0, node, {**k0, **dict(extra or {})})
        if isinstance(fn, Obj) and fn.cls is not None and "__partial__" not in fn.attrs:
            # s.apply(<callable object>) == s.apply(lambda x: obj(x)): the object's __call__ bound to it
            call = self.I.find_method(fn.cls, "__call__")
            if call is not None:
                call.bound_self = fn
                fn = call
        if isinstance(fn, FuncRef):
            if isinstance(fn.node, ast.Lambda) or True:
                # evaluate the function body symbolically with the element bound to the column term
                try:
                    r = self.I.call_merged(fn, [s.term], dict(extra or {}), node)          # Series.apply(f, **kwargs) forwards the keywords to f
                    rt = to_term(r)
                    return s.with_term(rt)          # a named function and a lambda with the same body give the same column term
                except RecursionError:
                    pass
            return s.with_term(("map", ("func", fn.qualname), s.term))
        if isinstance(fn, dict):
            return s.with_term(("mapdict", to_term(fn), s.term))
        # law: s.map({k: f(k) for k in s.unique()}) == s.apply(f)   (a lookup table built from the column's own distinct values)
        if isinstance(fn, tuple) and len(fn) == 5 and fn[0] == "comp" and fn[1] == "dict" and fn[4] == T.TRUE and isinstance(fn[2], tuple) and fn[2] and fn[2][0] == "kv":
            it = fn[3]
            if isinstance(it, tuple) and it and it[0] == "unique" and it[1] == s.term and fn[2][1] == ("elem", it):
                return s.with_term(T.renorm(T.replace(fn[2][2], {("elem", it): s.term})))
        # a library / builtin function passed by reference: s.apply(math.ceil) is s.apply(lambda x: math.ceil(x)) (eta-expansion)
        fexpr = None
        if isinstance(node, ast.Call):
            fexpr = node.args[0] if node.args else next((k.value for k in node.keywords if k.arg in ("func", "arg")), None)
        if fexpr is not None and isinstance(fexpr, (ast.Attribute, ast.Name)) and not isinstance(fn, (Ser, Frame)):
            try:
                lam = ast.Lambda(args=ast.arguments(posonlyargs=[], args=[ast.arg(arg="__eta_x")], kwonlyargs=[], kw_defaults=[], defaults=[]),
                                 body=ast.Call(func=fexpr, args=[ast.Name(id="__eta_x", ctx=ast.Load())], keywords=[]))
                ast.copy_location(lam, fexpr)
                ast.fix_missing_locations(lam)
                ref = self.I.eval(lam)
                if isinstance(ref, FuncRef):
                    return s.with_term(to_term(self.I.call_merged(ref, [s.term], {}, node)))
            except RecursionError:
                pass
        return s.with_term(("map", to_term(fn), s.term))

    # ------------------------------------------------------------------ str accessor
    def str_method(self, s: Ser, name: str, pos, kw, node) -> Any:
        arg = to_term(pos[0]) if pos else None
        if name in ("match", "contains", "startswith", "endswith", "fullmatch"):
            return s.with_term(("strmatch", name, s.term, arg, tuple(sorted((k, to_term(v)) for k, v in kw.items()))))
        return s.with_term(("strop", name, s.term, arg))

    # ------------------------------------------------------------------ GroupBy
    def groupby_method(self, g: GroupBy, name: str, pos, kw, node) -> Any:
        f = g.frame
        ctx = f.ctx()
        keyterms = tuple(f.col(k) for k in g.keys)
        base = ("gb", ctx, keyterms)
        if name == "groups":
            return ("gbgroups", base)

        def mk(cols: Dict[Any, T.Term]) -> Frame:
            out = Frame(base, known=[], resolver=None)
            keycols = [(k, ("key", kt)) for k, kt in zip(g.keys, keyterms)]
            if g.as_index:
                out.index = ("keys", keyterms)
                out.index_name = g.keys[0] if len(g.keys) == 1 else None
                out.index_keys = keycols
            else:
                for k, kt in keycols:
                    out.setcol(k, kt)
                out.index = ("range", base)
            for c, t in cols.items():
                out.setcol(c, t)
            self.log("groupby-agg", node, keys=list(g.keys), key_terms=keyterms, src_ctx=ctx, dst=out.obj,
                     cols={str(c): t for c, t in cols.items()}, as_index=g.as_index, gb_sort=g.sort)
            out.gb_sorted = g.sort
            return out

        sel = g.sel
        if name in ("agg", "aggregate"):
            spec = pos[0] if pos else kw.get("func")
            # named aggregation: agg(out=("col", fn), ...)
            named = {k: v for k, v in kw.items() if isinstance(v, PyTuple) and len(v.items) == 2 and isinstance(v.items[0], str)}
            if spec is None and named and len(named) == len(kw):
                return mk({out: T.agg(str(v.items[1]) if isinstance(v.items[1], str) else T.show(to_term(v.items[1])), f.col(v.items[0]), ctx, keyterms) for out, v in named.items()})
            # SeriesGroupBy named aggregation: gb["col"].agg(out="fn", ...)
            if spec is None and isinstance(sel, str) and kw and all(isinstance(v, str) for v in kw.values()):
                return mk({out: T.agg(fn, f.col(sel), ctx, keyterms) for out, fn in kw.items()})
            if isinstance(spec, dict):
                cols = {}
                for c, fn in spec.items():
                    if isinstance(fn, list):
                        for one in fn:
                            cols[f"{c}\x1f{one}"] = T.agg(str(one), f.col(c), ctx, keyterms)
                    else:
                        cols[c] = T.agg(str(fn) if isinstance(fn, str) else T.show(to_term(fn)), f.col(c), ctx, keyterms)
                return mk(cols)
            fns = spec if isinstance(spec, list) else [spec]
            if sel is None and f.colnames() is not None:
                sel = [c for c in f.colnames() if c not in g.keys]
            if isinstance(sel, str):
                return mk({str(fn): T.agg(str(fn), f.col(sel), ctx, keyterms) for fn in fns})
            if isinstance(sel, list):
                cols = {}
                for c in sel:
                    for fn in fns:
                        cols[f"{c}\x1f{fn}" if len(fns) > 1 or isinstance(spec, list) else c] = T.agg(str(fn), f.col(c), ctx, keyterms)
                return mk(cols)
            self.log("unmodelled", node, what="groupby.agg without column selection")
            return Frame(("gbagg-opaque", base, to_term(spec)), known=None, resolver=lambda n: T.opaque(f"column {n!r} of a groupby.agg form that is not modelled"))
        if name in REDUCTIONS or name in ("std", "median"):
            if isinstance(sel, str):
                out = mk({sel: T.agg(name, f.col(sel), ctx, keyterms)})
                return Ser(out.col(sel), out.ctx(), out, sel)
            if isinstance(sel, list):
                return mk({c: T.agg(name, f.col(c), ctx, keyterms) for c in sel})
            # all columns
            out = mk({})
            snap = f.derive()
            out.known = None
            out.resolver = lambda n: T.agg(name, snap.col(n), ctx, keyterms)
            return out
        if name == "describe":
            out = Frame(("gbdescribe", base, sel))
            self.log("groupby-agg", node, keys=list(g.keys), key_terms=keyterms, src_ctx=ctx, dst=out.obj, cols={"describe": ("describe",)}, as_index=g.as_index)
            return out
        if name in WINDOW or name == "shift":
            if isinstance(sel, str):
                params = tuple(to_term(p) for p in pos) + (("by", keyterms),)
                return Ser(T.win(name, params, f.col(sel), ctx), ctx, f)
        if name in ("apply", "transform", "head", "tail", "ngroup"):
            self.log("unmodelled", node, what=f"groupby.{name}")
            return Frame(("gb" + name, base, to_term(pos[0]) if pos else None))
        self.log("unmodelled", node, what=f"groupby.{name}")
        return T.opaque(f"groupby.{name}")

    # ------------------------------------------------------------------ python containers
    def python_method(self, obj: Any, name: str, pos, kw, node) -> Any:
        I = self.I
        if any(isinstance(p_, GenCall) for p_ in pos):
            pos = [I.materialise(p_) if isinstance(p_, GenCall) else p_ for p_ in pos]          # a container method consumes the generator it is given
        if name == "__getitem__" and len(pos) == 1 and not kw and isinstance(obj, (list, dict, PyTuple)):
            return self.M.getitem(obj, pos[0], node)          # xs.__getitem__(k) is xs[k]
        if isinstance(obj, list):
            if name == "append":
                v = pos[0]
                if I.run.loop_depth > 0:
                    v = Each(v)
                self.log("list-append", node, value=to_term(v))
                obj.append(v)
                return None
            if name == "extend":
                v = pos[0]
                self.log("list-extend", node, value=to_term(v))
                if isinstance(v, list):
                    obj.extend(v)
                elif isinstance(v, (set, frozenset, PyTuple)) and I.run.loop_depth == 0 and not any(isinstance(x, Each) for x in I._concrete_seq(v)):
                    obj.extend(I._concrete_seq(v))          # known elements (a set in the analysis' fixed order: rules must not rely on the order)
                else:
                    obj.append(Each(v))
                return None
            if name in ("insert", "pop", "remove", "clear", "sort", "reverse"):
                self.log("list-mutation", node, what=name)
                # a plain Python list of concrete values handled outside any symbolic loop: do what the list does
                prim = lambda x: isinstance(x, (str, int, float, bool)) or x is None
                # (pop / clear / reverse do not compare elements: any known elements; remove / insert of plain values only)
                if I.run.loop_depth == 0 and not any(isinstance(x, Each) for x in obj) and (all(prim(x) for x in obj) or (name in ("pop", "clear", "reverse") and all(prim(x) or isinstance(x, (Obj, PyTuple, list, dict)) for x in obj))) \
                        and all(isinstance(p_, (str, int, float, bool)) for p_ in pos) and not kw and name in ("pop", "insert", "remove", "clear", "reverse"):
                    try:
                        return getattr(obj, name)(*pos)
                    except (IndexError, ValueError):
                        pass
                return T.opaque(f"list.{name}")
            if name == "index":
                return ("call", "list.index", to_term(obj), to_term(pos[0]))
            if name == "copy":
                return list(obj)
            if name == "count":
                return ("call", "list.count", to_term(obj), to_term(pos[0]))
        if isinstance(obj, dict):
            if name == "get":
                k = I._hashable(pos[0])
                if k in obj:
                    return obj[k]
                if all(isinstance(x, (str, int)) for x in obj) and isinstance(k, (str, int)):
                    return pos[1] if len(pos) > 1 else None
                # a small dispatch table with known keys looked up with a SYMBOLIC key (e.g. TABLE.get((x.kind, y.kind), default)): decided key by key, like the
                # if-ladder it replaces (one path per entry and one for the default)
                kt = to_term(pos[0])

                def closed(t_):
                    return T.is_const(t_) or (isinstance(t_, tuple) and len(t_) == 2 and t_[0] == "tuple" and all(T.is_const(x_) for x_ in t_[1]))
                keys_ = [(kk, to_term(kk) if not (isinstance(kk, tuple) and kk and isinstance(kk[0], str)) else kk) for kk in obj]
                if closed(kt) and all(closed(t_) for _k, t_ in keys_) and kt not in [t_ for _k, t_ in keys_]:
                    return pos[1] if len(pos) > 1 else None          # a known key that is not among the known keys: the default
                if 0 < len(obj) <= 8 and not T.has_opaque(kt) and not closed(kt) and all(closed(t_) for _k, t_ in keys_) and I.run.loop_depth == 0:
                    for kk, t_ in keys_:
                        if t_[0] == "tuple" and kt[0] == "tuple" and len(t_[1]) == len(kt[1]):
                            c_ = T.and_(*[T.cmp("==", a_, b_) for a_, b_ in zip(kt[1], t_[1])])
                        elif t_[0] != "tuple" and kt[0] != "tuple":
                            c_ = T.cmp("==", kt, t_)
                        else:
                            continue
                        if I.decide(c_, node):
                            return obj[kk]
                    return pos[1] if len(pos) > 1 else None
                return ("dictget", to_term(obj), to_term(pos[0]), to_term(pos[1]) if len(pos) > 1 else T.NONE)
            if name == "items":
                return [PyTuple([k, v]) for k, v in obj.items()]      # also for symbolic ('each') keys: iteration over the keys behaves the same way
            if name == "keys":
                return list(obj.keys())
            if name == "values":
                return list(obj.values())
            if name in ("update", "setdefault", "pop", "clear", "popitem"):
                self.log("dict-mutation", node, what=name, args=[to_term(p) for p in pos])
                prim_ = lambda k_: isinstance(k_, (str, int, float, bool)) or k_ is None or (isinstance(k_, tuple) and len(k_) == 2 and k_[0] == "const")
                known_ = not any(isinstance(k_, tuple) and k_ and k_[0] == "each" for k_ in obj)
                if name in ("setdefault", "pop") and pos and I.run.loop_depth == 0 and known_ and prim_(pos[0]):
                    # a dict with known keys handled outside any symbolic loop, asked about a known key: what the dict does
                    hk = I._hashable(pos[0])
                    if name == "setdefault":
                        if hk not in obj:
                            obj[hk] = pos[1] if len(pos) > 1 else None
                        return obj[hk]
                    if hk in obj:
                        return obj.pop(hk)
                    if len(pos) > 1:
                        return pos[1]
                    raise AnalysisError("dict.pop of a key that is not there")
                if name == "clear" and I.run.loop_depth == 0:
                    obj.clear()
                    return None
                if name == "update" and pos and isinstance(pos[0], dict):
                    obj.update(pos[0])
                elif name == "update" and pos and I._concrete_seq(pos[0]) is not None and all(isinstance(x, PyTuple) and len(x.items) == 2 for x in I._concrete_seq(pos[0])):
                    for x in I._concrete_seq(pos[0]):          # dict.update(iterable of (key, value) pairs)
                        obj[I._hashable(x.items[0])] = x.items[1]
                return None
            if name == "copy":
                return dict(obj)
        if isinstance(obj, (set,)):
            if name in ("add", "discard", "remove", "update", "clear", "pop"):
                self.log("set-mutation", node, what=name, args=[to_term(p) for p in pos])
                if name == "add":
                    obj.add(I._hashable(Each(pos[0]) if I.run.loop_depth > 0 else pos[0]) if not isinstance(pos[0], (Frame,)) else to_term(pos[0]))
                elif I.run.loop_depth == 0 and not any(isinstance(x, Each) for x in obj) and (name == "update" or not any(isinstance(x, tuple) and len(x) == 2 and x[0] == "allof" for x in obj)):
                    # outside symbolic loops, on known elements: the mutation itself
                    try:
                        if name in ("discard", "remove") and len(pos) == 1 and I._hashable(pos[0]) in obj:
                            obj.discard(I._hashable(pos[0]))
                        elif name == "update":
                            for p_ in pos:
                                seq_ = I._concrete_seq(p_)
                                if seq_ is not None and not any(isinstance(x, Each) for x in seq_):
                                    obj.update(I._hashable(x) for x in seq_)
                                else:          # a symbolic collection: the set now holds all of its elements
                                    obj.add(("allof", ("valuesof", p_.term, p_.ctx) if isinstance(p_, Ser) else to_term(p_)))
                        elif name == "clear":
                            obj.clear()
                        elif name == "pop" and obj:
                            x_ = sorted(obj, key=repr)[0]
                            obj.discard(x_)
                            return x_
                    except TypeError:
                        pass
                return None
            # a set of known elements combined with collections of known elements: the library's own result
            known = lambda c_: not any(isinstance(x, Each) or (isinstance(x, tuple) and len(x) == 2 and x[0] == "allof") for x in c_)
            others = [I._concrete_seq(p_) for p_ in pos]
            if name in ("intersection", "difference", "symmetric_difference", "issubset", "issuperset", "isdisjoint", "union", "copy") and not kw and known(obj) \
                    and all(o_ is not None and known(o_) for o_ in others):
                try:
                    return getattr(set(obj), name)(*[set(I._hashable(x) for x in o_) for o_ in others])
                except TypeError:
                    pass
        if isinstance(obj, str):
            if name == "join" and pos and isinstance(pos[0], (PyTuple, list)):
                items = pos[0].items if isinstance(pos[0], PyTuple) else pos[0]
                if all(isinstance(x, str) for x in items):
                    return obj.join(items)
                # sep.join of a concrete list of string-valued terms (f-strings with symbolic holes): the concatenation with separators
                stringy = lambda x: isinstance(x, str) or (isinstance(x, tuple) and x and x[0] in ("fstr", "strcat")) or (T.is_const(x) and isinstance(x[1], str))
                if items and all(stringy(x) for x in items) and not any(isinstance(x, Each) for x in items):
                    parts = []
                    for i, x in enumerate(items):
                        if i:
                            parts.append(T.C(obj))
                        parts.append(T.C(x) if isinstance(x, str) else x)
                    return ("fstr", tuple(parts))
            try:
                if all(isinstance(p, (str, int)) for p in pos):
                    if name in ("startswith", "endswith", "lower", "upper", "strip", "split", "replace", "find", "rstrip", "lstrip", "format", "join", "isdigit", "rsplit", "rfind", "removeprefix", "removesuffix", "count", "index"):
                        return getattr(obj, name)(*pos)
                    if name in ("partition", "rpartition"):
                        return PyTuple(list(getattr(obj, name)(*pos)))
            except Exception:
                pass
            return ("call", "str." + name, T.C(obj)) + tuple(to_term(p) for p in pos)
        if isinstance(obj, PyTuple):
            return ("call", "tuple." + name, to_term(obj))
        # symbolic sets: "do the two collections share an element" in one canonical form, whichever way it is asked
        if isinstance(obj, tuple) and obj and isinstance(obj[0], str) and name in ("intersection", "isdisjoint") and len(pos) == 1 and not kw:
            strip = lambda x: x[1] if isinstance(x, tuple) and len(x) == 2 and x[0] in ("set", "frozenset", "list", "tuple") else x
            a_, b_ = sorted((strip(obj), strip(to_term(pos[0]) if not isinstance(pos[0], Ser) else ("valuesof", pos[0].term, pos[0].ctx))), key=repr)
            ov = ("overlap", a_, b_)
            return ("intersection", a_, b_) if name == "intersection" else T.not_(ov)
        return ("call", f"{type(obj).__name__}.{name}", to_term(obj)) + tuple(to_term(p) for p in pos)

    # ------------------------------------------------------------------ externals
    def external(self, name: str, pos: List[Any], kw: Dict[str, Any], node) -> Any:
        M, I = self.M, self.I
        short = name.split(".")[-1]
        if any(isinstance(p_, GenCall) for p_ in pos) and not name.startswith("builtins."):
            pos = [I.materialise(p_) if isinstance(p_, GenCall) else p_ for p_ in pos]          # a library function consumes the generator it is given
        a0 = pos[0] if pos else None
        if name.startswith("builtins."):
            return self.builtin(short, pos, kw, node)
        if name in ("functools.reduce", "reduce") and len(pos) in (2, 3) and (isinstance(a0, (FuncRef, Obj)) or (isinstance(a0, ExtMod) and a0.name.startswith("operator."))) and I._concrete_seq(pos[1]) is not None and not kw:
            # functools.reduce(f, xs[, init]) over a concrete sequence: the left fold
            seq = list(I._concrete_seq(pos[1]))
            if len(pos) == 3:
                acc = pos[2]
            elif seq:
                acc, seq = seq[0], seq[1:]
            else:
                return T.opaque("reduce of an empty sequence")
            for x in seq:
                acc = M.invoke(a0, [acc, x], {}, node, "reduce-callee")
            return acc
        if short == "fields" and name in ("fields", "dataclasses.fields") and len(pos) == 1 and isinstance(a0, (ClassRef, Obj)):
            cref = (a0.mod, a0.qualname) if isinstance(a0, ClassRef) else a0.cls
            cdef = cref[0].classes.get(cref[1]) if cref is not None else None
            if cdef is not None and any("dataclass" in ast.unparse(d) for d in cdef.decorator_list):
                # dataclasses.fields(C): one Field per annotated class attribute, in declaration order (only .name is modelled)
                return [Obj(f"field:{st.target.id}", attrs={"name": st.target.id}) for st in cdef.body if isinstance(st, ast.AnnAssign) and isinstance(st.target, ast.Name)]
        if short == "compress" and len(pos) == 2 and not kw:
            d_, s_ = I._concrete_seq(I.materialise(pos[0]) if isinstance(pos[0], GenCall) else pos[0]), I._concrete_seq(I.materialise(pos[1]) if isinstance(pos[1], GenCall) else pos[1])
            if d_ is not None and s_ is not None and not any(isinstance(x, Each) for x in d_ + s_):
                sel_ = [x[1] if T.is_const(x) else x for x in s_]
                if all(isinstance(x, (bool, int)) or x is None for x in sel_):
                    return [x for x, k_ in zip(d_, sel_) if k_]          # itertools.compress over known data and known selectors
        if short == "pairwise" and len(pos) == 1 and not kw and I._concrete_seq(a0) is not None and not any(isinstance(x, Each) for x in I._concrete_seq(a0)):
            seq_ = I._concrete_seq(a0)          # itertools.pairwise / nx.utils.pairwise over known elements: the consecutive pairs
            return [PyTuple([x, y]) for x, y in zip(seq_, seq_[1:])]
        if name in ("pd.NamedAgg", "pandas.NamedAgg"):          # NamedAgg(column, aggfunc) is the pair (column, aggfunc)
            c_, f_ = kw.get("column", pos[0] if pos else None), kw.get("aggfunc", pos[1] if len(pos) > 1 else None)
            if isinstance(c_, str) and f_ is not None:
                return PyTuple([c_, f_])
        if name == "pd.concat":
            frames = a0 if isinstance(a0, list) else (a0.items if isinstance(a0, PyTuple) else [Each(a0)] if not isinstance(a0, Frame) else [a0])
            if isinstance(a0, tuple) and a0 and a0[0] == "comp":
                frames = [Each(a0)]
            return self.concat(frames, kw, node)
        if name == "pd.merge":
            return self.do_merge(pos[0], pos[1], kw, node)
        if name == "pd.DataFrame" or name.endswith("DataFrame.from_records") or name.endswith("DataFrame.from_dict"):
            return self.make_frame(a0 if pos else kw.get("data"), kw, node, name)
        if name == "pd.Series":
            if isinstance(a0, Ser) and not (getattr(a0, "positional", False) and "index" in kw):
                return a0
            data = a0 if pos else kw.get("data")
            dt = to_term(data)
            ix = kw.get("index", pos[1] if len(pos) > 1 else None)
            # law: pd.Series([f(row) for _, row in df.iterrows()], index=df.index) == df.apply(f, axis=1): one value per row of df, in row order, labelled by df's index
            if isinstance(dt, tuple) and len(dt) == 5 and dt[0] == "comp" and dt[1] == "list" and dt[4] == T.TRUE and isinstance(dt[3], tuple) and dt[3] and dt[3][0] == "rowiter" \
                    and isinstance(ix, Ser) and ix.name == "__index__" and ix.frame is not None and ix.ctx == dt[3][1]:
                from .pandas_ops import _strip_row
                return Ser(_strip_row(dt[2]), ix.ctx, ix.frame)
            # pd.Series(<array with one value per row of df>, index=df.index): that column of df
            if isinstance(data, Ser) and getattr(data, "positional", False) and isinstance(ix, Ser) and ix.name == "__index__" and ix.frame is not None and data.ctx == ix.ctx:
                return Ser(data.term, ix.ctx, ix.frame)
            # pd.Series(<scalar>, index=df.index): the constant column over df's rows
            if isinstance(ix, Ser) and ix.name == "__index__" and ix.frame is not None and (isinstance(data, (int, float, str, bool)) or (isinstance(data, tuple) and data and data[0] in ("const", "enum", "param"))):
                return Ser(dt, ix.ctx, ix.frame)
            st = ("series", dt)
            return Ser(st, (("series", self.I.new_id()), T.TRUE, None), None)
        if name == "pd.to_numeric":
            if isinstance(a0, Ser):
                self.log("identity-cast", node, what="to_numeric", kw={k: to_term(v) for k, v in kw.items()}, term=a0.term)
                dc = kw.get("downcast")
                if dc == "unsigned":          # values are kept, but later arithmetic is modular: keep a marker on the term
                    return Ser(("astype", T.C("unsigned"), a0.term), a0.ctx, a0.frame, a0.name, a0.positional)
                if dc not in (None, "integer", "signed", "float") and not (isinstance(dc, tuple) and dc == T.NONE):
                    return Ser(("call", "to_numeric", a0.term, ("kw", "downcast", to_term(dc))), a0.ctx, a0.frame, a0.name, a0.positional)
                return Ser(a0.term, a0.ctx, a0.frame, a0.name, a0.positional)
            return ("call", "to_numeric", to_term(a0))
        if name in ("pd.isna", "pd.isnull"):
            t = M.as_ser_term(a0)
            r = T.not_(("notnull", t))
            return a0.with_term(r) if isinstance(a0, Ser) else r
        if name in ("pd.notna", "pd.notnull"):
            t = ("notnull", M.as_ser_term(a0))
            return a0.with_term(t) if isinstance(a0, Ser) else t
        if name.startswith("pd.api.types.") or name.startswith("pandas.api.types."):
            return ("dtypetest", short, M.as_ser_term(a0))
        if name in ("np.minimum", "np.maximum", "np.fmin", "np.fmax"):
            a, b = M.as_ser_term(pos[0]), M.as_ser_term(pos[1])
            ser = next((x for x in pos if isinstance(x, Ser)), None)
            r = T.min2(a, b) if "min" in short else T.max2(a, b)
            return ser.with_term(r) if ser is not None else r
        if name == "np.where":
            ser = next((x for x in pos if isinstance(x, Ser)), None)
            r = T.ite(M.as_ser_term(pos[0]), M.as_ser_term(pos[1]), M.as_ser_term(pos[2])) if len(pos) == 3 else T.opaque("np.where/1")
            return ser.with_term(r) if ser is not None else r
        if name in ("np.full", "np.zeros", "np.ones") and pos and isinstance(a0, tuple) and len(a0) == 2 and a0[0] == "nrows":
            # an array with one (constant) value per row of a frame / series
            val = pos[1] if name == "np.full" and len(pos) > 1 else kw.get("fill_value", 0 if name != "np.ones" else 1) if name == "np.full" else (0 if name == "np.zeros" else 1)
            return Ser(to_term(val), a0[1], None, None, positional=True)
        if name in ("np.logical_and", "np.logical_or") and len(pos) == 2 and not kw:
            return M.binop("BitAnd" if short == "logical_and" else "BitOr", pos[0], pos[1], node)
        if name == "np.logical_not" and len(pos) == 1 and not kw:
            t = T.not_(M.as_ser_term(a0))
            return a0.with_term(t) if isinstance(a0, Ser) else t
        if name == "np.isin" and len(pos) == 2 and isinstance(a0, Ser) and not kw:
            return self.series_method(a0, "isin", [pos[1]], {}, node)
        if name in ("itertools.chain.from_iterable", "chain.from_iterable") and len(pos) == 1 and not kw:
            outer = I._concrete_seq(a0)
            if outer is not None and all(I._concrete_seq(x) is not None for x in outer):
                return [y for x in outer for y in I._concrete_seq(x)]          # the concatenation of concrete sequences
        if name in ("itertools.chain", "chain") and pos and not kw and all(I._concrete_seq(x) is not None for x in pos):
            return [y for x in pos for y in I._concrete_seq(x)]
        if name in ("itertools.count", "count") and len(pos) <= 1 and not kw and (not pos or isinstance(a0, int)):
            return ("count", a0 if pos else 0)
        if name in ("functools.partial", "partial") and pos and isinstance(a0, (FuncRef, Obj, ClassRef)):
            return Obj(f"partial#{I.new_id()}", attrs={"__partial__": (a0, list(pos[1:]), dict(kw))})
        if name in ("operator.itemgetter", "itemgetter") and len(pos) == 1 and not kw:
            return Obj(f"itemgetter#{I.new_id()}", attrs={"__itemgetter__": a0})
        if name == "np.select" and len(pos) >= 2 and isinstance(pos[0], list) and isinstance(pos[1], list) and len(pos[0]) == len(pos[1]):
            default = kw.get("default", pos[2] if len(pos) > 2 else 0)
            ser = next((x for x in pos[0] + pos[1] if isinstance(x, Ser)), None)
            r = M.as_ser_term(default)
            for c, v in reversed(list(zip(pos[0], pos[1]))):     # the first true condition wins
                r = T.ite(M.as_ser_term(c), M.as_ser_term(v), r)
            return ser.with_term(r) if ser is not None else r
        if short in ("ceil", "floor", "trunc") and name.split(".")[0] in ("np", "math"):
            t = M.as_ser_term(a0)
            return a0.with_term((short, t)) if isinstance(a0, Ser) else (short, t)
        if name.startswith("operator.") and len(pos) == 2 and short in ("lt", "le", "gt", "ge", "eq", "ne", "add", "sub", "mul", "and_", "or_"):
            if short in ("lt", "le", "gt", "ge", "eq", "ne"):
                return M.compare({"lt": "Lt", "le": "LtE", "gt": "Gt", "ge": "GtE", "eq": "Eq", "ne": "NotEq"}[short], pos[0], pos[1], node)
            return M.binop({"add": "Add", "sub": "Sub", "mul": "Mult", "and_": "BitAnd", "or_": "BitOr"}[short], pos[0], pos[1], node)
        if name in ("np.array", "np.asarray", "numpy.array", "numpy.asarray") and len(pos) == 1 and set(kw) == {"dtype"} and (kw["dtype"] is bool or (isinstance(kw["dtype"], ExtMod) and kw["dtype"].name in ("builtins.bool", "bool", "np.bool_")) or kw["dtype"] == "bool") \
                and isinstance(a0, Ser) and isinstance(a0.term, tuple) and a0.term and a0.term[0] in ("cmp", "and", "or", "not", "in", "eq", "ne", "notnull", "isnull"):
            return a0          # a boolean mask as a boolean array: the same mask
        if name in ("np.array", "np.asarray", "numpy.array", "numpy.asarray") and len(pos) == 1 and not kw and not isinstance(a0, (Ser, Frame)):
            return a0 if isinstance(a0, (list, tuple)) else to_term(a0)          # an array holding the same elements in the same order
        if name in ("np.unique",):
            return ("unique", M.as_ser_term(a0), a0.ctx if isinstance(a0, Ser) else None)
        if name in ("np.isnan",):
            t = T.not_(("notnull", M.as_ser_term(a0)))
            return a0.with_term(t) if isinstance(a0, Ser) else t
        if name in ("collections.defaultdict", "defaultdict"):
            d = DefaultDict()
            fac = ast.unparse(node.args[0]) if getattr(node, "args", None) else "none"
            d.factory = fac if fac in ("list", "int", "str", "dict", "set", "float") else "none"
            if pos and isinstance(pos[0], FuncRef):
                d.factory_fn = pos[0]
            return d
        if name in ("collections.OrderedDict", "OrderedDict"):
            return {}
        if short == "namedtuple" and len(pos) >= 2 and isinstance(pos[0], str):
            fields = pos[1].split() if isinstance(pos[1], str) else (list(pos[1]) if isinstance(pos[1], list) else None)
            if fields and all(isinstance(x, str) for x in fields):
                return ("ntclass", pos[0], tuple(f.strip(",") for f in fields))
        if name.endswith("cmp_to_key"):
            return ("cmp_to_key", to_term(a0))
        if name.endswith("deepcopy") or name == "copy.copy":
            self.log("deepcopy", node, arg=to_term(a0))
            return a0
        if name == "re.compile":
            return ("regex", to_term(a0))
        if name in ("re.match", "re.search", "re.fullmatch"):
            if len(pos) == 2 and all(isinstance(x, str) for x in pos) and not kw:
                import re as _re
                try:
                    m_ = getattr(_re, short)(pos[0], pos[1])          # pattern and subject are literals: the library's own answer
                    return None if m_ is None else ReMatch(m_)
                except _re.error:
                    pass
            return ("call", name, to_term(pos[0]), to_term(pos[1]))
        if name == "re.sub" and len(pos) == 3 and all(isinstance(x, str) for x in pos) and not kw:
            import re as _re
            try:
                return _re.sub(pos[0], pos[1], pos[2])
            except _re.error:
                pass
        if name.startswith("os.path."):
            if all(isinstance(p, str) for p in pos) and short in ("join", "basename", "dirname"):
                import os
                return getattr(os.path, short)(*pos)
            return ("call", name) + tuple(to_term(p) for p in pos)
        self.log("external-call", node, callee=name, args=[to_term(p) for p in pos], kw={k: to_term(v) for k, v in kw.items()})
        return ("call", name) + tuple(to_term(p) for p in pos) + tuple(("kw", k, to_term(v)) for k, v in sorted(kw.items()))

    def make_frame(self, data: Any, kw, node, name: str) -> Frame:
        base = ("newframe", self.I.new_id())
        if isinstance(data, Ser) and data.frame is not None:
            g = self._series_to_frame(data, None, node) if hasattr(data, "renamed_from") else data.frame.derive()
            self.log("frame-from-series", node, dst=g.obj)
            return g
        if isinstance(data, Frame):
            return data.derive()
        if isinstance(data, dict) and data and all(isinstance(v, Ser) and v.frame is not None for v in data.values()) and all(isinstance(k, str) for k in data) \
                and len({(v.ctx, v.frame.obj) for v in data.values()}) == 1 and "index" not in kw:
            src = next(iter(data.values())).frame          # columns computed from ONE frame: same rows, same index, the given names
            g = src.derive(known=[])
            g.cols, g.dropped, g.resolver = {}, set(), None
            for k, v in data.items():
                g.setcol(k, v.term)
            self.log("frame-from-columns", node, src=src.obj, dst=g.obj, cols=list(data))
            return g
        if isinstance(data, dict):
            g = Frame(base, known=[])
            for k, v in data.items():
                if isinstance(k, str):
                    g.setcol(k, ("coldata", M_term(v)))
            self.log("frame-literal", node, dst=g.obj, cols={str(k): M_term(v) for k, v in data.items()})
            return g
        # a concrete list of records with the same string keys: one column per key holding the records' values in order (== the dict-of-lists form)
        if isinstance(data, list) and data and all(isinstance(r_, dict) and r_ and all(isinstance(k_, str) for k_ in r_) for r_ in data) and len({tuple(r_) for r_ in data}) == 1 \
                and not any(isinstance(r_, Each) for r_ in data) and "columns" not in kw and "index" not in kw:
            g = Frame(base, known=[])
            for k_ in data[0]:
                g.setcol(k_, ("coldata", M_term([r_[k_] for r_ in data])))
            self.log("frame-literal", node, dst=g.obj, cols={k_: M_term([r_[k_] for r_ in data]) for k_ in data[0]})
            return g
        dt = to_term(data)
        g = Frame(("records", dt, tuple(sorted((k, to_term(v)) for k, v in kw.items()))))
        if dt[0] == "comp" and isinstance(dt[2], tuple) and dt[2] and dt[2][0] == "dict" and all(T.is_const(k) and isinstance(k[1], str) for k, _ in dt[2][1]):
            g.known = []
            for k, v in dt[2][1]:
                g.setcol(k[1], ("reccol", g.base, v))
        self.log("frame-from-records", node, dst=g.obj, data=dt)
        return g

    # ------------------------------------------------------------------ builtins
    def builtin(self, fn: str, pos: List[Any], kw: Dict[str, Any], node) -> Any:
        I = self.I
        if any(isinstance(p_, GenCall) for p_ in pos) and fn not in ("iter", "next", "isinstance", "type", "id"):
            pos = [I.materialise(p_) if isinstance(p_, GenCall) else p_ for p_ in pos]          # the builtin consumes the generator
        a0 = pos[0] if pos else None
        conc = I._concrete_seq(a0) if pos else None
        if fn == "len":
            if isinstance(a0, (list, dict, set, str)) and not (isinstance(a0, list) and any(isinstance(x, Each) for x in a0)) \
                    and not (isinstance(a0, dict) and any(isinstance(k, tuple) and k and k[0] == "each" for k in a0)):
                return len(a0)
            if isinstance(a0, PyTuple):
                return len(a0.items)
            if isinstance(a0, Frame):
                return ("nrows", a0.ctx())
            if isinstance(a0, Ser):
                return ("nrows", a0.ctx)
            return ("len", to_term(a0))
        if fn in ("list", "tuple", "sorted", "set", "frozenset", "reversed"):
            if not pos:
                return {"list": [], "tuple": PyTuple([]), "set": set(), "frozenset": set(), "sorted": [], "reversed": []}[fn]
            if fn == "list" and isinstance(a0, list):
                return list(a0)          # a copy (also of a list whose elements stand for the iterations of a symbolic loop)
            if conc is not None:
                if fn == "list":
                    return list(conc)
                if fn == "tuple":
                    return PyTuple(conc)
                if fn in ("set", "frozenset"):
                    try:
                        return set(I._hashable(x) for x in conc)
                    except TypeError:
                        pass
                if fn == "sorted" and all(isinstance(x, (int, float, str)) for x in conc) and not kw:
                    try:
                        return sorted(conc)
                    except TypeError:
                        pass
                if fn == "reversed":
                    return list(reversed(conc))
            t = to_term(a0) if not isinstance(a0, Ser) else ("valuesof", a0.term, a0.ctx)
            extra = tuple((k, to_term(v)) for k, v in sorted(kw.items()))
            return (fn, t) + ((extra,) if extra else ())
        if fn == "dict":
            if not pos:
                return dict(kw)
            if isinstance(a0, dict):
                return dict(a0)
            if isinstance(a0, tuple) and a0 and a0[0] == "zip":
                return ("dictzip",) + tuple(x[1] if isinstance(x, tuple) and len(x) == 3 and x[0] == "tolist" else x for x in a0[1])
            if conc is not None and all(isinstance(x, PyTuple) and len(x.items) == 2 for x in conc):
                return {I._hashable(x.items[0]): x.items[1] for x in conc}          # dict(iterable of (key, value) pairs)
            return ("dict", to_term(a0))
        if fn == "filter" and len(pos) == 2 and I._concrete_seq(pos[1]) is not None and isinstance(pos[0], FuncRef):
            # filter(f, xs) over a concrete sequence whose tests are all decided: the kept elements in order
            kept, decided = [], True
            for x in I._concrete_seq(pos[1]):
                c = I.truth(self.M.invoke(pos[0], [x], {}, node, "filter-callee"))
                if not T.is_const(c):
                    decided = False
                    break
                if c[1]:
                    kept.append(x)
            if decided:
                return kept
        if fn == "map" and len(pos) >= 2 and all(I._concrete_seq(p) is not None for p in pos[1:]) and isinstance(pos[0], (FuncRef, Obj, ClassRef)):
            # map(f, xs) over concrete sequences: the list of f's results (laziness is not modelled; callers only iterate it once)
            seqs = [I._concrete_seq(p) for p in pos[1:]]
            return [self.M.invoke(pos[0], list(args), {}, node, "map-callee") for args in zip(*seqs)]
        if fn == "zip":
            # law (transpose): zip(*[(a(x), b(x), ...) for x in L]) == ([a(x) for x in L], [b(x) for x in L], ...)
            if len(pos) == 1 and isinstance(a0, tuple) and len(a0) == 2 and a0[0] == "starred" and isinstance(a0[1], tuple) and len(a0[1]) == 5 and a0[1][0] == "comp" and a0[1][1] == "list" \
                    and isinstance(a0[1][2], tuple) and len(a0[1][2]) == 2 and a0[1][2][0] == "tuple" and not kw:
                c = a0[1]
                return [("comp", "list", b, c[3], c[4]) for b in c[2][1]]
            # itertools.count(k) next to concrete sequences: the running number
            if pos and any(isinstance(p, tuple) and len(p) == 2 and p[0] == "count" and isinstance(p[1], int) for p in pos) and \
                    all((isinstance(p, tuple) and len(p) == 2 and p[0] == "count") or I._concrete_seq(p) is not None for p in pos) and any(I._concrete_seq(p) is not None for p in pos):
                n_ = min(len(I._concrete_seq(p)) for p in pos if I._concrete_seq(p) is not None)
                cols_ = [list(range(p[1], p[1] + n_)) if (isinstance(p, tuple) and len(p) == 2 and p[0] == "count") else I._concrete_seq(p)[:n_] for p in pos]
                return [PyTuple(list(x)) for x in zip(*cols_)]
            if all(I._concrete_seq(p) is not None for p in pos) and pos:
                return [PyTuple(list(x)) for x in zip(*[I._concrete_seq(p) for p in pos])]
            if pos and all(isinstance(p, Ser) for p in pos):
                # iterating Series / arrays yields their values in row order: the same as zipping their tolist()s (the row-walk law of iter_element applies)
                return ("zip", tuple(("tolist", p.term, p.ctx) for p in pos))
            return ("zip", tuple(self.M.as_ser_term(p) if isinstance(p, Ser) else to_term(p) for p in pos))
        if fn == "enumerate":
            start = pos[1] if len(pos) > 1 else kw.get("start", 0)
            if conc is not None and isinstance(start, int):
                return [PyTuple([i, x]) for i, x in enumerate(conc, start)]
            return ("enumerate", to_term(a0), to_term(start))
        if fn == "range":
            if all(isinstance(p, int) for p in pos):
                return list(range(*pos))
            return ("range",) + tuple(to_term(p) for p in pos)
        if fn in ("min", "max"):
            if len(pos) == 1:
                if conc is not None and all(isinstance(x, (int, float)) for x in conc) and conc:
                    return (min if fn == "min" else max)(conc)
                if isinstance(a0, Ser):
                    return T.agg(fn, a0.term, a0.ctx)
                return ("reduce", fn, to_term(a0))
            ts = [self.M.as_ser_term(p) for p in pos]
            if all(isinstance(p, (int, float)) for p in pos):
                return (min if fn == "min" else max)(pos)
            if len(ts) == 2:
                return T.min2(*ts) if fn == "min" else T.max2(*ts)
            return (fn + "n",) + tuple(sorted(ts, key=repr))
        if fn == "sum":
            if isinstance(a0, Ser):
                return T.agg("sum", a0.term, a0.ctx)
            return ("reduce", "sum", to_term(a0))
        if fn in ("int", "float", "str", "bool"):
            if not pos:
                return {"int": 0, "float": 0.0, "str": "", "bool": False}[fn]
            if isinstance(a0, (int, float, str, bool)):
                try:
                    return {"int": int, "float": float, "str": str, "bool": bool}[fn](a0)
                except Exception:
                    pass
            t = self.M.as_ser_term(a0)
            if fn in ("int", "float"):
                return ("cast", fn, t)
            if fn == "str":
                return ("str", t)
            return self.I.truth(a0)
        if fn == "round":
            return ("round", self.M.as_ser_term(a0), to_term(pos[1]) if len(pos) > 1 else T.C(0)) if not isinstance(a0, Ser) else \
                a0.with_term(("round", a0.term, to_term(pos[1]) if len(pos) > 1 else T.C(0)))
        if fn == "abs":
            return ("abs", self.M.as_ser_term(a0))
        if fn == "isinstance":
            if isinstance(a0, Columns) and "MultiIndex" in ast.unparse(node.args[1]):
                n = a0.names()
                if n is not None:
                    return any("\x1f" in str(c) for c in n)
            if isinstance(a0, Frame):
                return T.C("DataFrame" in ast.unparse(node.args[1]))
            if isinstance(a0, (list, dict, str, int, float)) and not isinstance(a0, bool):
                tn = ast.unparse(node.args[1])
                m = {"list": list, "dict": dict, "str": str, "int": int, "float": float, "tuple": tuple, "List": list, "Dict": dict}
                if tn in m:
                    return isinstance(a0, m[tn])
                # a tuple of known types: isinstance(x, (int, list))
                t2 = node.args[1]
                if isinstance(t2, ast.Tuple) and all(isinstance(e_, ast.Name) and e_.id in m for e_ in t2.elts):
                    return isinstance(a0, tuple(m[e_.id] for e_ in t2.elts))
            return ("isinstance", to_term(a0), ast.unparse(node.args[1]))
        if fn in ("hasattr",):
            return ("hasattr", to_term(a0), to_term(pos[1]))
        if fn == "getattr":
            if isinstance(pos[1], str):
                return self.M.getattr(a0, pos[1], node)
            return ("getattr", to_term(a0), to_term(pos[1]))
        if fn == "setattr" and len(pos) == 3 and isinstance(a0, Obj) and isinstance(pos[1], str) and I.run.loop_depth == 0:
            self.log("attr-store", node, obj=a0.name, attr=pos[1], value=to_term(pos[2]), how="setattr")
            a0.attrs[pos[1]] = pos[2]          # setattr(obj, '<name>', v) with a known name is obj.<name> = v
            return None
        if fn == "iter" and len(pos) == 1 and isinstance(a0, (list, PyTuple)) and I.run.loop_depth == 0 and not any(isinstance(x, Each) for x in (a0 if isinstance(a0, list) else a0.items)):
            return ListIter(a0 if isinstance(a0, list) else a0.items)          # a stateful iterator over known elements
        if fn in ("iter",):
            return ("iter", to_term(a0))
        if fn == "next" and isinstance(a0, ListIter):
            if a0.pos < len(a0.items):
                a0.pos += 1
                return a0.items[a0.pos - 1]
            if len(pos) == 2:
                return pos[1]
            from .interp import _Raise
            r_ = _Raise("StopIteration")
            r_.concrete = True
            raise r_
        if fn == "slice" and 1 <= len(pos) <= 3 and not kw:
            # slice(a, b[, c]) is the object x[a:b:c] subscripts with
            lo, hi, st = (None, pos[0], None) if len(pos) == 1 else (pos[0], pos[1], pos[2] if len(pos) == 3 else None)
            return ("slice", tuple(None if x is None else I._hashable(x) for x in (lo, hi, st)))
        if fn == "next" and isinstance(a0, GuardedSeq) and len(pos) == 2:
            # the first element whose condition holds, else the default
            r = pos[1]
            for c_, v_ in reversed(a0.entries):
                if c_ == T.TRUE:
                    r = v_
                else:
                    r = I.pm.merge_values(c_, v_, r) if hasattr(I.pm, "merge_values") else T.ite(c_, to_term(v_), to_term(r))
            return r
        if fn == "next" and conc is not None:
            # the first element of an iterator over known elements (each call site sees a fresh iterator in the code analysed)
            if conc:
                return conc[0]
            if len(pos) == 2:
                return pos[1]
        if fn == "next" and len(pos) == 2 and isinstance(a0, tuple) and len(a0) == 5 and a0[0] == "comp" and a0[1] in ("list", "gen"):
            # next((v for x in X if c), d) in the "some element" abstraction of a symbolic loop: v where c holds for the element, else d
            # (the same term `r = d; for x in X: if c: r = v` evaluates to; WHICH of several matching elements is taken is not represented in either)
            return T.ite(a0[4], a0[2], to_term(pos[1])) if a0[4] != T.TRUE else a0[2]
        if fn == "next":
            return ("next", to_term(a0)) + ((to_term(pos[1]),) if len(pos) == 2 else ())
        if fn in ("any", "all"):
            return (fn, to_term(a0))
        if fn == "map" and len(pos) == 2 and I._concrete_seq(pos[1]) is not None and not any(isinstance(x, Each) for x in I._concrete_seq(pos[1])) and len(I._concrete_seq(pos[1])) <= 16 \
                and (isinstance(pos[0], (FuncRef, Obj)) or (isinstance(pos[0], tuple) and pos[0] and pos[0][0] in ("attr", "method"))):
            # map(f, xs) over known elements: [f(x) for x in xs] (consumed by a loop / comprehension / list() in the code analysed)
            return [self.M.invoke(pos[0], [x], {}, node, "map-callee") for x in I._concrete_seq(pos[1])]
        if fn in ("map", "filter"):
            return (fn, to_term(pos[0]), to_term(pos[1]) if len(pos) > 1 else None)
        if fn in ("open",):
            self.log("open", node, args=[to_term(p) for p in pos])
            return Obj(f"file#{I.new_id()}")
        if fn in ("super",):
            return Obj("super")
        if fn in ("ValueError", "KeyError", "TypeError", "RuntimeError", "Exception", "AssertionError", "NotImplementedError"):
            return ("exception", fn)
        if fn in ("id", "type", "repr", "hash", "print", "vars", "dir"):
            return ("call", fn, to_term(a0))
        self.log("external-call", node, callee=fn, args=[to_term(p) for p in pos])
        return ("call", fn) + tuple(to_term(p) for p in pos)


def M_term(v: Any) -> T.Term:
    if isinstance(v, Ser):
        return v.term
    return to_term(v)
