"""Small syntax-tree helpers shared by the rule files (def-use inside one function, attribute
stores, string keys ...). All location by role, never by line number."""
from __future__ import annotations

import ast
from typing import Dict, Iterator, List, Optional, Set, Tuple

from .progdb import walk_no_nested, call_name, kwarg, lit, Module, AnalysisError


def assignments(func: ast.AST, nested: bool = True) -> Iterator[Tuple[ast.expr, ast.expr, ast.stmt]]:
    """(target, value, stmt) for every simple/annotated assignment (tuple targets are unpacked
    pairwise when the value is a tuple of the same length, else yielded whole)."""
    it = ast.walk(func) if nested else walk_no_nested(func)
    for n in it:
        if isinstance(n, ast.Assign):
            for t in n.targets:
                if isinstance(t, (ast.Tuple, ast.List)) and isinstance(n.value, (ast.Tuple, ast.List)) and len(t.elts) == len(n.value.elts):
                    for a, b in zip(t.elts, n.value.elts):
                        yield a, b, n
                else:
                    yield t, n.value, n
        elif isinstance(n, ast.AnnAssign) and n.value is not None:
            yield n.target, n.value, n
        elif isinstance(n, ast.NamedExpr):
            yield n.target, n.value, n  # type: ignore
        elif isinstance(n, (ast.With,)):
            for item in n.items:
                if item.optional_vars is not None:
                    yield item.optional_vars, item.context_expr, n


def defs_of(func: ast.AST, name: str) -> List[ast.expr]:
    return [v for t, v, _ in assignments(func) if isinstance(t, ast.Name) and t.id == name]


def single_def(func: ast.AST, name: str) -> Optional[ast.expr]:
    d = defs_of(func, name)
    return d[0] if len(d) == 1 else None


def attr_stores(func: ast.AST, obj: str) -> List[Tuple[str, ast.expr, ast.stmt]]:
    """(attr, value, stmt) for `obj.attr = value` (also annotated / tuple-unpacked)"""
    out = []
    for t, v, s in assignments(func):
        if isinstance(t, ast.Attribute) and isinstance(t.value, ast.Name) and t.value.id == obj:
            out.append((t.attr, v, s))
    return out


def attr_store_names(func: ast.AST, obj: str) -> Set[str]:
    """every attribute of `obj` that is (re)bound: assignment, augmented assignment, tuple target,
    for target, with target"""
    out: Set[str] = set()
    for n in ast.walk(func):
        if isinstance(n, ast.Attribute) and isinstance(n.ctx, ast.Store) and isinstance(n.value, ast.Name) and n.value.id == obj:
            out.add(n.attr)
    return out


def attr_loads(node: ast.AST, obj: Optional[str] = None) -> Iterator[ast.Attribute]:
    for n in ast.walk(node):
        if isinstance(n, ast.Attribute) and isinstance(n.ctx, ast.Load):
            if obj is None or (isinstance(n.value, ast.Name) and n.value.id == obj):
                yield n


def calls(node: ast.AST, nested: bool = True) -> Iterator[ast.Call]:
    it = ast.walk(node) if nested else walk_no_nested(node)
    for n in it:
        if isinstance(n, ast.Call):
            yield n


def calls_named(node: ast.AST, suffix: str) -> List[ast.Call]:
    """calls whose dotted callee text ends with `suffix` (e.g. '.to_csv', 'pickle.dump')"""
    out = []
    for c in calls(node):
        cn = call_name(c)
        if cn == suffix or cn.endswith("." + suffix.lstrip(".")):
            out.append(c)
    return out


def is_self_attr(e: ast.AST, attr: Optional[str] = None, obj: str = "self") -> bool:
    return (isinstance(e, ast.Attribute) and isinstance(e.value, ast.Name) and e.value.id == obj
            and (attr is None or e.attr == attr))


def str_const(e: Optional[ast.AST]) -> Optional[str]:
    if isinstance(e, ast.Constant) and isinstance(e.value, str):
        return e.value
    return None


def name_id(e: Optional[ast.AST]) -> Optional[str]:
    return e.id if isinstance(e, ast.Name) else None


def stmts_in_order(func: ast.AST) -> List[ast.stmt]:
    """all statements of a function in source order (no nested defs)"""
    out = [n for n in walk_no_nested(func) if isinstance(n, ast.stmt) and n is not func]
    out.sort(key=lambda s: (s.lineno, s.col_offset))
    return out


def dataclass_fields(cls: ast.ClassDef) -> List[str]:
    return [st.target.id for st in cls.body if isinstance(st, ast.AnnAssign) and isinstance(st.target, ast.Name)]


def self_method_calls(func: ast.AST, obj: str = "self") -> Set[str]:
    out = set()
    for c in calls(func):
        f = c.func
        if isinstance(f, ast.Attribute) and isinstance(f.value, ast.Name) and f.value.id == obj:
            out.add(f.attr)
    return out


def method_closure(mod: Module, cls: str, roots: List[str]) -> List[str]:
    """methods of `cls` transitively called through self.<m>() from roots"""
    seen: List[str] = []
    todo = list(roots)
    while todo:
        m = todo.pop()
        if m in seen:
            continue
        q = f"{cls}.{m}"
        if q not in mod.functions:
            continue
        seen.append(m)
        for callee in sorted(self_method_calls(mod.functions[q])):
            if callee not in seen:
                todo.append(callee)
    return seen


def param_names(func: ast.FunctionDef) -> List[str]:
    a = func.args
    return [x.arg for x in a.posonlyargs + a.args] + [x.arg for x in a.kwonlyargs]


def bind_call(func: ast.FunctionDef, call: ast.Call, skip_self: bool = True) -> Dict[str, ast.expr]:
    """bind a call's positional / keyword arguments to the callee's parameter names"""
    names = [x.arg for x in func.args.posonlyargs + func.args.args]
    if skip_self and names and names[0] in ("self", "cls"):
        names = names[1:]
    out: Dict[str, ast.expr] = {}
    for i, a in enumerate(call.args):
        if isinstance(a, ast.Starred):
            raise AnalysisError("starred argument at call site")
        if i >= len(names):
            raise AnalysisError(f"too many positional arguments at call of {func.name}")
        out[names[i]] = a
    for k in call.keywords:
        if k.arg is None:
            raise AnalysisError("**kwargs at call site")
        out[k.arg] = k.value
    return out


def param_default(func: ast.FunctionDef, name: str) -> Optional[ast.expr]:
    a = func.args
    pos = a.posonlyargs + a.args
    d = a.defaults
    off = len(pos) - len(d)
    for i, p in enumerate(pos):
        if p.arg == name:
            return d[i - off] if i >= off else None
    for p, dv in zip(a.kwonlyargs, a.kw_defaults):
        if p.arg == name:
            return dv
    return None
