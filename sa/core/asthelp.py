"""Small syntax-tree helpers shared by the rule files (def-use inside one function, attribute
stores, string keys ...). All location by role, never by line number."""
from __future__ import annotations

import ast
from typing import Dict, Iterator, List, Optional, Set, Tuple

from .progdb import walk_no_nested, call_name, kwarg, lit, Module, AnalysisError, bound_args
from . import progdb as _progdb


def assignments(func: ast.AST, nested: bool = True) -> Iterator[Tuple[ast.expr, ast.expr, ast.stmt]]:
    """(target, value, stmt) for every simple/annotated assignment (tuple targets are unpacked
    pairwise when the value is a tuple of the same length, else yielded whole)."""
    it = ast.walk(func) if nested else walk_no_nested(func)
    for n in it:
        if isinstance(n, ast.Assign):
            for t in n.targets:
                if isinstance(t, (ast.Tuple, ast.List)) and isinstance(n.value, (ast.Tuple, ast.List)) and len(t.elts) == len(n.value.elts):
                    for a, b in zip(t.elts, n.value.elts):
                        yield a, b, n
                else:
                    yield t, n.value, n
        elif isinstance(n, ast.AnnAssign) and n.value is not None:
            yield n.target, n.value, n
        elif isinstance(n, ast.NamedExpr):
            yield n.target, n.value, n  # type: ignore
        elif isinstance(n, (ast.With,)):
            for item in n.items:
                if item.optional_vars is not None:
                    yield item.optional_vars, item.context_expr, n


def defs_of(func: ast.AST, name: str) -> List[ast.expr]:
    return [v for t, v, _ in assignments(func) if isinstance(t, ast.Name) and t.id == name]


def single_def(func: ast.AST, name: str) -> Optional[ast.expr]:
    d = defs_of(func, name)
    return d[0] if len(d) == 1 else None


def attr_stores(func: ast.AST, obj: str) -> List[Tuple[str, ast.expr, ast.stmt]]:
    """(attr, value, stmt) for `obj.attr = value` (also annotated / tuple-unpacked)"""
    out = []
    for t, v, s in assignments(func):
        if isinstance(t, ast.Attribute) and isinstance(t.value, ast.Name) and t.value.id == obj:
            out.append((t.attr, v, s))
    return out


def attr_store_names(func: ast.AST, obj: str) -> Set[str]:
    """every attribute of `obj` that is (re)bound: assignment, augmented assignment, tuple target,
    for target, with target"""
    out: Set[str] = set()
    for n in ast.walk(func):
        if isinstance(n, ast.Attribute) and isinstance(n.ctx, ast.Store) and isinstance(n.value, ast.Name) and n.value.id == obj:
            out.add(n.attr)
    return out


def attr_loads(node: ast.AST, obj: Optional[str] = None) -> Iterator[ast.Attribute]:
    for n in ast.walk(node):
        if isinstance(n, ast.Attribute) and isinstance(n.ctx, ast.Load):
            if obj is None or (isinstance(n.value, ast.Name) and n.value.id == obj):
                yield n


def calls(node: ast.AST, nested: bool = True) -> Iterator[ast.Call]:
    it = ast.walk(node) if nested else walk_no_nested(node)
    for n in it:
        if isinstance(n, ast.Call):
            yield n


def calls_named(node: ast.AST, suffix: str) -> List[ast.Call]:
    """calls whose dotted callee text ends with `suffix` (e.g. '.to_csv', 'pickle.dump')"""
    out = []
    for c in calls(node):
        cn = call_name(c)
        if cn == suffix or cn.endswith("." + suffix.lstrip(".")):
            out.append(c)
    return out


def is_self_attr(e: ast.AST, attr: Optional[str] = None, obj: str = "self") -> bool:
    return (isinstance(e, ast.Attribute) and isinstance(e.value, ast.Name) and e.value.id == obj
            and (attr is None or e.attr == attr))


def str_const(e: Optional[ast.AST]) -> Optional[str]:
    if isinstance(e, ast.Constant) and isinstance(e.value, str):
        return e.value
    return None


def name_id(e: Optional[ast.AST]) -> Optional[str]:
    return e.id if isinstance(e, ast.Name) else None


def stmts_in_order(func: ast.AST) -> List[ast.stmt]:
    """all statements of a function in source order (no nested defs)"""
    out = [n for n in walk_no_nested(func) if isinstance(n, ast.stmt) and n is not func]
    out.sort(key=lambda s: (s.lineno, s.col_offset))
    return out


def dataclass_fields(cls: ast.ClassDef) -> List[str]:
    return [st.target.id for st in cls.body if isinstance(st, ast.AnnAssign) and isinstance(st.target, ast.Name)]


def self_method_calls(func: ast.AST, obj: str = "self") -> Set[str]:
    out = set()
    for c in calls(func):
        f = c.func
        if isinstance(f, ast.Attribute) and isinstance(f.value, ast.Name) and f.value.id == obj:
            out.add(f.attr)
    return out


def method_closure(mod: Module, cls: str, roots: List[str]) -> List[str]:
    """methods of `cls` transitively called through self.<m>() from roots"""
    seen: List[str] = []
    todo = list(roots)
    while todo:
        m = todo.pop()
        if m in seen:
            continue
        q = f"{cls}.{m}"
        if q not in mod.functions:
            continue
        seen.append(m)
        for callee in sorted(self_method_calls(mod.functions[q])):
            if callee not in seen:
                todo.append(callee)
    return seen


def param_names(func: ast.FunctionDef) -> List[str]:
    a = func.args
    return [x.arg for x in a.posonlyargs + a.args] + [x.arg for x in a.kwonlyargs]


def bind_call(func: ast.FunctionDef, call: ast.Call, skip_self: bool = True) -> Dict[str, ast.expr]:
    """bind a call's positional / keyword arguments to the callee's parameter names"""
    names = [x.arg for x in func.args.posonlyargs + func.args.args]
    if skip_self and names and names[0] in ("self", "cls"):
        names = names[1:]
    out: Dict[str, ast.expr] = {}
    for i, a in enumerate(call.args):
        if isinstance(a, ast.Starred):
            raise AnalysisError("starred argument at call site")
        if i >= len(names):
            raise AnalysisError(f"too many positional arguments at call of {func.name}")
        out[names[i]] = a
    for k in call.keywords:
        if k.arg is None:
            raise AnalysisError("**kwargs at call site")
        out[k.arg] = k.value
    return out


def param_default(func: ast.FunctionDef, name: str) -> Optional[ast.expr]:
    a = func.args
    pos = a.posonlyargs + a.args
    d = a.defaults
    off = len(pos) - len(d)
    for i, p in enumerate(pos):
        if p.arg == name:
            return d[i - off] if i >= off else None
    for p, dv in zip(a.kwonlyargs, a.kw_defaults):
        if p.arg == name:
            return dv
    return None


# ----------------------------------------------------------------------------------------------------------------
# name-agnostic structural matching:  pattern source with metavariables
#   $x   matches any Name (bound consistently across one Bindings object)
#   $$x  matches any expression (bound consistently, compared structurally)
# comparisons are put in a canonical orientation on both sides before matching, so `a > b` == `b < a`
# ----------------------------------------------------------------------------------------------------------------
_FLIPC = {ast.Lt: ast.Gt, ast.Gt: ast.Lt, ast.LtE: ast.GtE, ast.GtE: ast.LtE}


class _Canon(ast.NodeTransformer):
    def visit_Compare(self, n):
        self.generic_visit(n)
        if len(n.ops) == 1:
            l, r = n.left, n.comparators[0]
            op = type(n.ops[0])
            if op in _FLIPC or op in (ast.Eq, ast.NotEq):
                if ast.dump(l) > ast.dump(r):
                    return ast.Compare(left=r, ops=[(_FLIPC.get(op, op))()], comparators=[l])
        return n


def canon(node: ast.AST) -> ast.AST:
    # orientation of comparisons is handled inside the matcher (both orientations are tried);
    # `x op= e` is matched in its expanded form `x = x op e`
    if isinstance(node, ast.AugAssign) and isinstance(node.target, ast.Name):
        return ast.Assign(targets=[ast.Name(id=node.target.id, ctx=ast.Store())], value=ast.BinOp(left=ast.Name(id=node.target.id, ctx=ast.Load()), op=node.op, right=node.value))
    return node


def self_updates(root: ast.AST, name: Optional[str] = None) -> List[ast.stmt]:
    """statements `x op= e` / `x = x op e` under root (for the given name, or any)"""
    out = []
    for n in ast.walk(root):
        if isinstance(n, ast.AugAssign) and isinstance(n.target, ast.Name) and (name is None or n.target.id == name):
            out.append(n)
        elif isinstance(n, ast.Assign) and len(n.targets) == 1 and isinstance(n.targets[0], ast.Name) and isinstance(n.value, ast.BinOp) and \
                isinstance(n.value.left, ast.Name) and n.value.left.id == n.targets[0].id and (name is None or n.targets[0].id == name):
            out.append(n)
    return out


def _pat(src: str) -> ast.AST:
    s = src.replace("$$", "__mvx_").replace("$", "__mv_")
    tree = ast.parse(s.strip())
    _progdb._canonicalise_calls(tree, _progdb.SIGS)        # patterns may be written in either argument style
    node = tree.body[0]
    if isinstance(node, ast.Expr):
        node = node.value
    return canon(node)


class Bindings(dict):
    pass


def _m(p, n, b: Bindings) -> bool:
    if isinstance(p, ast.Name) and p.id.startswith("__mvx_"):
        key = p.id
        if key in b:
            return ast.dump(b[key]) == ast.dump(n) if isinstance(n, ast.AST) else False
        if not isinstance(n, ast.AST):
            return False
        b[key] = n
        return True
    if isinstance(p, ast.Name) and p.id.startswith("__mv_"):
        if not isinstance(n, ast.Name):
            return False
        key = p.id
        if key in b:
            return b[key] == n.id
        b[key] = n.id
        return True
    if isinstance(p, ast.arg) and isinstance(n, ast.arg):
        return _m(ast.Name(id=p.arg), ast.Name(id=n.arg), b)
    if type(p) is not type(n):
        return False
    if isinstance(p, ast.Compare) and len(p.ops) == 1 and len(n.ops) == 1 and (type(n.ops[0]) in _FLIPC or isinstance(n.ops[0], (ast.Eq, ast.NotEq))):
        for cand in (n, ast.Compare(left=n.comparators[0], ops=[_FLIPC.get(type(n.ops[0]), type(n.ops[0]))()], comparators=[n.left])):
            b2 = Bindings(b)
            if type(p.ops[0]) is type(cand.ops[0]) and _m(p.left, cand.left, b2) and _m(p.comparators[0], cand.comparators[0], b2):
                b.update(b2)
                return True
        return False
    if isinstance(p, ast.AST):
        for f in p._fields:
            if f in ("ctx", "lineno", "col_offset", "end_lineno", "end_col_offset", "type_comment", "kind"):
                continue
            if not _m(getattr(p, f, None), getattr(n, f, None), b):
                return False
        return True
    if isinstance(p, list):
        return len(p) == len(n) and all(_m(x, y, b) for x, y in zip(p, n))
    return p == n


def match(pattern: str, node: ast.AST, b: Optional[Bindings] = None) -> Optional[Bindings]:
    """match one statement / expression pattern against a node; returns the (extended) bindings or None"""
    b2 = Bindings(b or {})
    p = _pat(pattern)
    n = canon(node)
    if isinstance(n, ast.Expr) and not isinstance(p, ast.Expr):
        n = n.value
    if isinstance(n, ast.AnnAssign) and isinstance(p, ast.Assign) and n.value is not None:
        n = ast.Assign(targets=[n.target], value=n.value)
    return b2 if _m(p, n, b2) else None


def find_match(pattern: str, root: ast.AST, b: Optional[Bindings] = None, nested: bool = True):
    """all (node, bindings) under root matching the pattern"""
    out = []
    it = ast.walk(root) if nested else walk_no_nested(root)
    p = _pat(pattern)
    want_stmt = isinstance(p, ast.stmt)
    for n in it:
        if want_stmt != isinstance(n, ast.stmt) and not (isinstance(n, ast.AnnAssign) and isinstance(p, ast.Assign)):
            continue
        r = match(pattern, n, b)
        if r is not None:
            out.append((n, r))
    return out


def match_seq(patterns: List[str], stmts: List[ast.stmt], b: Optional[Bindings] = None) -> Optional[Bindings]:
    """the patterns occur in this order (not necessarily adjacent) among stmts, with consistent bindings"""
    cur = Bindings(b or {})
    i = 0
    for pat in patterns:
        ok = False
        while i < len(stmts):
            r = match(pat, stmts[i], cur)
            i += 1
            if r is not None:
                cur = r
                ok = True
                break
        if not ok:
            return None
    return cur


def rebinds_of_params(func: ast.FunctionDef, params: List[str]) -> List[Tuple[str, str, str]]:
    """(param, statement text, verdict) for every re-binding of a forwarded parameter inside a facade.
    verdict 'default-if-none'  : `if p is None [or len(p) == 0]: p = <default>`  (documented defaulting, harmless)
            'one-rank-default' : the default is computed from a single rank's trace (get_trace(r) / traces[r]) although the call serves several ranks
            'suspicious'       : any other re-binding (e.g. `p = p or default`, which replaces legitimate falsy values such as 0)"""
    out = []
    for n in walk_no_nested(func):
        tgts = []
        if isinstance(n, ast.Assign):
            tgts = [t for t in n.targets if isinstance(t, ast.Name)]
        elif isinstance(n, (ast.AugAssign, ast.AnnAssign)) and isinstance(n.target, ast.Name):
            tgts = [n.target]
        for t in tgts:
            if t.id not in params:
                continue
            verdict = "suspicious"
            cur = None
            # enclosing if
            for cand in ast.walk(func):
                if isinstance(cand, ast.If) and any(n is x for x in cand.body):
                    cur = cand
            if cur is not None:
                tests = [cur.test] if not isinstance(cur.test, ast.BoolOp) else list(cur.test.values)
                if all(match(f"{t.id} is None", x) is not None or match(f"len({t.id}) == 0", x) is not None or match(f"{t.id} == []", x) is not None or match(f"{t.id} == ''", x) is not None for x in tests) \
                        and any(match(f"{t.id} is None", x) is not None or match(f"{t.id} == ''", x) is not None for x in tests):
                    verdict = "default-if-none"
                    # ... unless the default is read out of ONE rank's trace (and then handed to every requested rank)
                    feeds = [n.value] if getattr(n, "value", None) is not None else []
                    local = {}
                    for t2, v2, s2 in assignments(cur):
                        if isinstance(t2, ast.Name) and s2 is not n:
                            local.setdefault(t2.id, []).append(v2)
                    seen_names = set()
                    work = list(feeds)
                    while work:
                        e = work.pop()
                        for x in ast.walk(e):
                            if isinstance(x, ast.Name) and x.id in local and x.id not in seen_names:
                                seen_names.add(x.id)
                                work.extend(local[x.id])
                            if (isinstance(x, ast.Call) and isinstance(x.func, ast.Attribute) and x.func.attr == "get_trace") or \
                                    (isinstance(x, ast.Subscript) and isinstance(x.value, ast.Attribute) and x.value.attr == "traces"):
                                verdict = "one-rank-default"
            out.append((t.id, " ".join(ast.unparse(n).split())[:100], verdict))
    return out


_MUT_METHODS = {"append", "extend", "insert", "pop", "remove", "clear", "sort", "reverse", "update", "setdefault", "popitem", "add", "discard"}


def shared_state_mutations(mod: Module, func: ast.AST) -> List[Tuple[str, str]]:
    """mutations, inside `func`, of containers that outlive the call: module-level names, class-level constants reached through cls./self./ClassName.
    (directly or through a local alias).  Returns (what, statement text)."""
    module_level = {n for n, v in mod.constants.items() if isinstance(v, (ast.List, ast.Dict, ast.Set, ast.Call, ast.ListComp, ast.DictComp))}
    class_consts = set()
    for c in mod.classes.values():
        for st in c.body:
            if isinstance(st, (ast.Assign, ast.AnnAssign)):
                tg = st.targets[0] if isinstance(st, ast.Assign) else st.target
                val = st.value
                if isinstance(tg, ast.Name) and isinstance(val, (ast.List, ast.Dict, ast.Set)):
                    class_consts.add(tg.id)
    params = set(param_names(func)) if isinstance(func, ast.FunctionDef) else set()

    def shared(e) -> Optional[str]:
        if isinstance(e, ast.Name) and e.id in module_level and e.id not in params:
            return f"module-level {e.id}"
        if isinstance(e, ast.Attribute) and e.attr in class_consts and isinstance(e.value, ast.Name) and (e.value.id in ("cls", "self") or e.value.id in mod.classes):
            return f"class-level {e.attr}"
        return None
    alias = {}
    for t, v, st in assignments(func):
        if isinstance(t, ast.Name):
            sh = shared(v)
            if sh:
                alias[t.id] = sh
    local_defs = {t.id for t, v, st in assignments(func) if isinstance(t, ast.Name)}

    def denotes(e):
        sh = shared(e)
        if sh and not (isinstance(e, ast.Name) and e.id in local_defs and e.id not in alias):
            return sh
        if isinstance(e, ast.Name) and e.id in alias:
            return alias[e.id] + f" (through alias {e.id})"
        return None
    out = []
    globals_ = {nm for n in ast.walk(func) if isinstance(n, ast.Global) for nm in n.names}
    for n in ast.walk(func):
        if isinstance(n, ast.Call) and isinstance(n.func, ast.Attribute) and n.func.attr in _MUT_METHODS:
            d = denotes(n.func.value)
            if d:
                out.append((f"{n.func.attr}() on {d}", " ".join(ast.unparse(n).split())[:100]))
        if isinstance(n, (ast.Assign, ast.AugAssign, ast.Delete)):
            tgts = n.targets if isinstance(n, (ast.Assign, ast.Delete)) else [n.target]
            for t in tgts:
                if isinstance(t, ast.Subscript):
                    d = denotes(t.value)
                    if d:
                        out.append((f"item store into {d}", " ".join(ast.unparse(n).split())[:100]))
                # a class attribute (re)bound from inside a function: state that outlives the call and is shared by every object
                if isinstance(t, ast.Attribute) and isinstance(t.value, ast.Name) and (t.value.id == "cls" or t.value.id in mod.classes) and t.value.id not in params - {"cls"}:
                    out.append((f"class attribute {t.attr} assigned", " ".join(ast.unparse(n).split())[:100]))
                if isinstance(t, ast.Name) and t.id in globals_:
                    out.append((f"module-level name {t.id} assigned (global)", " ".join(ast.unparse(n).split())[:100]))
    return out


def norm_if(n: ast.If):
    """(test, body, orelse) with a leading `not` removed by swapping the branches"""
    test, body, orelse = n.test, n.body, n.orelse
    while isinstance(test, ast.UnaryOp) and isinstance(test.op, ast.Not) and orelse:
        test, body, orelse = test.operand, orelse, body
    return test, body, orelse


def expand(func: ast.AST, node: ast.AST, depth: int = 3) -> ast.AST:
    """copy of `node` in which local names that have exactly ONE definition in `func` (a plain expression) are replaced by that expression"""
    import copy as _copy
    defs: Dict[str, List[ast.expr]] = {}
    for t, v, st in assignments(func, nested=False):
        if isinstance(t, ast.Name):
            defs.setdefault(t.id, []).append(v)
    # names that are loop targets / augmented are not expandable
    multi = {n.target.id for n in walk_no_nested(func) if isinstance(n, ast.AugAssign) and isinstance(n.target, ast.Name)}
    for n in walk_no_nested(func):
        if isinstance(n, ast.For):
            for x in ast.walk(n.target):
                if isinstance(x, ast.Name):
                    multi.add(x.id)

    class X(ast.NodeTransformer):
        def __init__(self, d):
            self.d = d

        def visit_Name(self, n):
            if isinstance(n.ctx, ast.Load) and n.id in defs and len(defs[n.id]) == 1 and n.id not in multi and self.d > 0 and isinstance(defs[n.id][0], (ast.Subscript, ast.Attribute, ast.BinOp, ast.Name, ast.Constant)):
                return X(self.d - 1).visit(_copy.deepcopy(defs[n.id][0]))
            return n
    return X(depth).visit(_copy.deepcopy(node))


_FRESH_COPIERS = {"deepcopy", "copy.deepcopy"}
_SHALLOW_COPIERS = {"copy", "copy.copy"}


def param_container_mutations(func: ast.AST, params: List[str]) -> List[Tuple[str, str]]:
    """stores that change the caller's object graph reachable from a parameter: `p.attr = v`, `p.attr[k] = v`, `del p.attr[k]`,
    `p.attr.<mutating method>()`, directly or through a local alias (`x = p`, `x = p.attr`) or a SHALLOW copy (`x = copy(p)`:
    x.attr is still the caller's container, so `x.attr[k] = v` mutates it while `x.attr = v` does not).  deepcopy() is fresh.
    Column stores into a frame held by the object (`p.attr[k]['col'] = ...`) are not reported.  Returns (what, statement text)."""
    obj_alias: Dict[str, str] = {p: f"parameter {p}" for p in params}          # name -> the caller's object itself
    shallow: Dict[str, str] = {}                                               # name -> shallow copy of the caller's object
    cont_alias: Dict[str, str] = {}                                            # name -> a container attribute of the caller's object
    changed = True
    while changed:
        changed = False
        for t, v, st in assignments(func):
            if not isinstance(t, ast.Name) or t.id in params:
                continue
            cn = call_name(v) if isinstance(v, ast.Call) else None
            if isinstance(v, ast.Name) and v.id in obj_alias and t.id not in obj_alias:
                obj_alias[t.id] = obj_alias[v.id] + f" (alias {t.id})"
                changed = True
            elif cn in _SHALLOW_COPIERS and v.args and isinstance(v.args[0], ast.Name) and v.args[0].id in obj_alias and t.id not in shallow:
                shallow[t.id] = f"shallow copy {t.id} of {obj_alias[v.args[0].id]}"
                changed = True
            elif isinstance(v, ast.Attribute) and isinstance(v.value, ast.Name) and (v.value.id in obj_alias or v.value.id in shallow) and t.id not in cont_alias:
                cont_alias[t.id] = f"{v.value.id}.{v.attr} of {obj_alias.get(v.value.id) or shallow.get(v.value.id)} (alias {t.id})"
                changed = True

    def container(e) -> Optional[str]:
        if isinstance(e, ast.Attribute) and isinstance(e.value, ast.Name):
            if e.value.id in obj_alias:
                return f"{e.value.id}.{e.attr} of {obj_alias[e.value.id]}"
            if e.value.id in shallow:
                return f"{e.value.id}.{e.attr} shared with the caller through the {shallow[e.value.id]}"
        if isinstance(e, ast.Name) and e.id in cont_alias:
            return cont_alias[e.id]
        return None
    out = []
    for n in ast.walk(func):
        if isinstance(n, ast.Call) and isinstance(n.func, ast.Name) and n.func.id in ("setattr", "delattr") and n.args and isinstance(n.args[0], ast.Name) and n.args[0].id in obj_alias:
            out.append((f"{n.func.id}() on {obj_alias[n.args[0].id]}", " ".join(ast.unparse(n).split())[:100]))          # an attribute store spelt as a builtin call
        if isinstance(n, ast.Call) and isinstance(n.func, ast.Attribute) and n.func.attr in _MUT_METHODS:
            d = container(n.func.value)
            if d:
                out.append((f"{n.func.attr}() on {d}", " ".join(ast.unparse(n).split())[:100]))
        if isinstance(n, (ast.Assign, ast.AugAssign, ast.Delete)):
            tgts = n.targets if isinstance(n, (ast.Assign, ast.Delete)) else [n.target]
            flat = []
            for t in tgts:
                flat += list(t.elts) if isinstance(t, (ast.Tuple, ast.List)) else [t]
            for t in flat:
                if isinstance(t, ast.Subscript):
                    d = container(t.value)
                    if d:
                        out.append((f"item store into {d}", " ".join(ast.unparse(n).split())[:100]))
                elif isinstance(t, ast.Attribute) and isinstance(t.value, ast.Name) and t.value.id in obj_alias:
                    out.append((f"attribute store {t.value.id}.{t.attr} on {obj_alias[t.value.id]}", " ".join(ast.unparse(n).split())[:100]))
    return out


_SCHEMA_ATTRS = {"columns", "dtypes", "shape", "names", "ndim"}


def first_iteration_latches(func: ast.AST) -> List[Tuple[str, str]]:
    """`for <targets> in ...:` loops in which a name is (re)assigned only under a guard that tests the same name for emptiness / None and the
    assigned value is computed from the loop's own per-iteration data: the value of the FIRST iteration is silently reused by all later ones.
    (A guard-protected value that does not depend on the loop variables is a hoisted constant and is not reported; schema reads such as
    .columns / .dtypes are not row data.)  Returns (name, description)."""
    out = []
    for loop in [n for n in ast.walk(func) if isinstance(n, ast.For)]:
        tvars = {x.id for x in ast.walk(loop.target) if isinstance(x, ast.Name)}
        if not tvars:
            continue
        # names that depend on the loop variables (fixpoint over plain assignments in the body)
        dep = set(tvars)

        def data_names(e: ast.AST) -> Set[str]:
            """names whose ROW DATA the expression reads (a bare `.columns` style read is not data)"""
            skip = set()
            for a in ast.walk(e):
                if isinstance(a, ast.Attribute) and a.attr in _SCHEMA_ATTRS:
                    for x in ast.walk(a.value):
                        skip.add(id(x))
            return {x.id for x in ast.walk(e) if isinstance(x, ast.Name) and id(x) not in skip}
        body_assigns = []
        for st in loop.body:
            for t, v, s_ in assignments(st):
                body_assigns.append((t, v, s_))
        changed = True
        while changed:
            changed = False
            for t, v, s_ in body_assigns:
                names = [x.id for x in ast.walk(t) if isinstance(x, ast.Name) and isinstance(x.ctx, ast.Store)]
                if data_names(v) & dep:
                    for nm in names:
                        if nm not in dep:
                            dep.add(nm)
                            changed = True
        for iff in [n for st in loop.body for n in ast.walk(st) if isinstance(n, ast.If)]:
            test, body, orelse = norm_if(iff)
            negated = isinstance(iff.test, ast.UnaryOp) and isinstance(iff.test.op, ast.Not) and not iff.orelse
            for t, v, s_ in [(t, v, s_) for st in iff.body for t, v, s_ in assignments(st)]:
                if not isinstance(t, ast.Name):
                    continue
                nm = t.id
                guards = (f"not {nm}", f"{nm} is None", f"len({nm}) == 0", f"{nm} == {{}}", f"{nm} == []", f"not len({nm})", f"{nm}.empty")
                if not any(match(g, iff.test) is not None for g in guards):
                    continue
                if nm in {x.id for x in ast.walk(v) if isinstance(x, ast.Name)}:
                    continue                                   # accumulator / self-update, not a latch
                others = [1 for t2, v2, s2 in body_assigns if isinstance(t2, ast.Name) and t2.id == nm and s2 is not s_]
                if others:
                    continue
                if data_names(v) & (dep - {nm}):
                    out.append((nm, f"line {s_.lineno}: `{nm}` is computed from this iteration's data ({', '.join(sorted(data_names(v) & (dep - {nm})))}) only while it is still empty "
                                    f"(`if {ast.unparse(iff.test)}`) and reused by every later iteration of `for {ast.unparse(loop.target)} in {ast.unparse(loop.iter)[:40]}`"))
    return out


def cross_iteration_flows(func: ast.AST) -> List[Tuple[str, str]]:
    """`for` loops in which a container created BEFORE the loop is filled with values computed from the loop's own data and is also
    READ inside the loop for something other than bookkeeping: the value read in iteration n was produced by an earlier iteration, so
    the per-iteration result depends on the iterations before it (e.g. an allow-list of names remembered from the first rank).
    Bookkeeping reads are: membership tests, being the receiver of a nested store / in-place accumulation (C[a][b] = v, C[a].append(v))
    and the final use after the loop.  Returns (container, description)."""
    out = []
    pre_defs = {}
    for t, v, st in assignments(func, nested=False):
        if isinstance(t, ast.Name) and (isinstance(v, (ast.Dict, ast.List, ast.Set)) or (isinstance(v, ast.Call) and call_name(v) in ("dict", "list", "set", "defaultdict", "collections.defaultdict", "OrderedDict"))):
            pre_defs.setdefault(t.id, st.lineno)
    for loop in [n for n in walk_no_nested(func) if isinstance(n, ast.For)]:
        tvars = {x.id for x in ast.walk(loop.target) if isinstance(x, ast.Name)}
        if not tvars:
            continue
        it_txt = ast.unparse(loop.iter)
        if not ("rank" in tvars or "traces" in it_txt or "ranks" in it_txt):
            continue              # only loops over ranks: sweeps over events legitimately carry state from row to row
        # names depending on the loop variables
        dep = set(tvars)
        body_assigns = [(t, v, s_) for st in loop.body for t, v, s_ in assignments(st)]
        changed = True
        while changed:
            changed = False
            for t, v, s_ in body_assigns:
                if {x.id for x in ast.walk(v) if isinstance(x, ast.Name)} & dep:
                    for x in ast.walk(t):
                        if isinstance(x, ast.Name) and isinstance(x.ctx, ast.Store) and x.id not in dep:
                            dep.add(x.id)
                            changed = True
        parent = {}
        for n in ast.walk(loop):
            for ch in ast.iter_child_nodes(n):
                parent[id(ch)] = n
        for cname, line in pre_defs.items():
            if line >= loop.lineno or cname in tvars:
                continue
            # stores of loop-dependent data into the container (top-level key only: C[k] = v)
            stores = [s_ for t, v, s_ in body_assigns if isinstance(t, ast.Subscript) and isinstance(t.value, ast.Name) and t.value.id == cname
                      and ({x.id for x in ast.walk(v) if isinstance(x, ast.Name)} & dep)]
            if not stores:
                continue
            reads = []
            for n in ast.walk(loop):
                if isinstance(n, ast.Name) and n.id == cname and isinstance(n.ctx, ast.Load):
                    p = parent.get(id(n))
                    # membership test
                    if isinstance(p, ast.Compare) and any(isinstance(o, (ast.In, ast.NotIn)) for o in p.ops) and any(n is c_ for c_ in p.comparators):
                        continue
                    # C[k] ... as a store target, or C[k][j] = v / C[k].append(v)
                    if isinstance(p, ast.Subscript) and p.value is n:
                        gp = parent.get(id(p))
                        if isinstance(p.ctx, ast.Store):
                            continue
                        if isinstance(gp, ast.Subscript) and isinstance(gp.ctx, ast.Store) and gp.value is p:
                            continue
                        if isinstance(gp, ast.Attribute) and gp.attr in _MUT_METHODS and isinstance(parent.get(id(gp)), ast.Call):
                            continue
                        reads.append(p)
                        continue
                    if isinstance(p, ast.Attribute) and p.value is n:
                        if p.attr in _MUT_METHODS or p.attr in ("keys",):
                            continue
                        if p.attr in ("get", "items", "values", "pop", "copy", "__getitem__"):
                            reads.append(p)
                            continue
                    # passed whole to a call / returned inside the loop: a read of everything stored so far
                    if isinstance(p, (ast.Call, ast.keyword, ast.Return)):
                        reads.append(n)
            # a read under the key that was stored EARLIER IN THE SAME ITERATION is this iteration's own value
            store_keys = {ast.unparse(t.slice): s_.lineno for t, v, s_ in body_assigns if isinstance(t, ast.Subscript) and isinstance(t.value, ast.Name) and t.value.id == cname and s_ in stores}

            def read_key(r_):
                if isinstance(r_, ast.Subscript):
                    return ast.unparse(r_.slice)
                pc = parent.get(id(r_))
                if isinstance(r_, ast.Attribute) and r_.attr in ("get", "pop") and isinstance(pc, ast.Call) and pc.args:
                    return ast.unparse(pc.args[0])
                return None
            reads = [r_ for r_ in reads if not (read_key(r_) in store_keys and store_keys[read_key(r_)] < r_.lineno)]
            if reads:
                r0 = reads[0]
                out.append((cname, f"`{cname}` (created at line {line}) is filled from this iteration's data (line {stores[0].lineno}) and read at line {r0.lineno} "
                                   f"(`{' '.join(ast.unparse(parent.get(id(r0), r0)).split())[:70]}`) inside `for {ast.unparse(loop.target)} in {ast.unparse(loop.iter)[:40]}`"))
    return out


def rowwise_state(outer: ast.AST, fn: ast.AST) -> List[str]:
    """stores made by a row-wise function `fn` (passed to DataFrame.apply(axis=1) / Series.apply / map) into containers that live OUTSIDE the call:
    names that are neither parameters nor plain local assignments of fn.  Such a function's result for one row depends on the rows seen before it."""
    if isinstance(fn, ast.Lambda):
        return []
    params = set(param_names(fn)) if isinstance(fn, ast.FunctionDef) else set()
    locals_ = {t.id for t, v, s_ in assignments(fn, nested=False) if isinstance(t, ast.Name)} | params
    for n in walk_no_nested(fn):
        if isinstance(n, (ast.For, ast.comprehension)):
            for x in ast.walk(n.target):
                if isinstance(x, ast.Name):
                    locals_.add(x.id)
    out = []
    for n in walk_no_nested(fn):
        if isinstance(n, (ast.Assign, ast.AugAssign)):
            for t in (n.targets if isinstance(n, ast.Assign) else [n.target]):
                if isinstance(t, ast.Subscript) and isinstance(t.value, ast.Name) and t.value.id not in locals_:
                    out.append(" ".join(ast.unparse(n).split())[:90])
        if isinstance(n, ast.Call) and isinstance(n.func, ast.Attribute) and n.func.attr in _MUT_METHODS and isinstance(n.func.value, ast.Name) and n.func.value.id not in locals_:
            out.append(" ".join(ast.unparse(n).split())[:90])
        if isinstance(n, (ast.Nonlocal, ast.Global)):
            out.append(" ".join(ast.unparse(n).split())[:90])
    return out


def shared_mutable_values(func: ast.AST) -> List[str]:
    """constructions that make several keys / slots share ONE mutable object: dict.fromkeys(keys, [] | {} | set()), [[]] * n, [{}] * n,
    and mutable default arguments that the function mutates"""
    def mutable(e):
        return isinstance(e, (ast.List, ast.Dict, ast.Set, ast.ListComp, ast.DictComp, ast.SetComp)) or \
            (isinstance(e, ast.Call) and call_name(e) in ("list", "dict", "set", "defaultdict", "collections.defaultdict", "deque", "collections.deque"))
    out = []
    for n in ast.walk(func):
        if isinstance(n, ast.Call) and call_name(n).endswith("fromkeys") and len(n.args) == 2 and mutable(n.args[1]):
            out.append(" ".join(ast.unparse(n).split())[:80])
        if isinstance(n, ast.BinOp) and isinstance(n.op, ast.Mult):
            for a in (n.left, n.right):
                if isinstance(a, ast.List) and a.elts and all(mutable(e) for e in a.elts):
                    out.append(" ".join(ast.unparse(n).split())[:80])
    if isinstance(func, (ast.FunctionDef, ast.AsyncFunctionDef)):
        a = func.args
        pos = a.posonlyargs + a.args
        for p_, d in list(zip(pos[len(pos) - len(a.defaults):], a.defaults)) + [(p_, d) for p_, d in zip(a.kwonlyargs, a.kw_defaults) if d is not None]:
            if mutable(d):
                muts = [c for c in ast.walk(func) if isinstance(c, ast.Call) and isinstance(c.func, ast.Attribute) and c.func.attr in _MUT_METHODS and isinstance(c.func.value, ast.Name) and c.func.value.id == p_.arg]
                stores = [t for t, v, s_ in assignments(func) if isinstance(t, ast.Subscript) and isinstance(t.value, ast.Name) and t.value.id == p_.arg]
                if muts or stores:
                    out.append(f"mutable default {p_.arg}={ast.unparse(d)} is mutated in the body")
    return out


def generators_consumed_twice(func: ast.AST) -> List[str]:
    """names bound only to generator expressions (or map / filter / zip results) that are fully CONSUMED more than once - by a `for` loop or by
    list / len(list()) / sum / sorted / set / tuple / any / all / max / min: the second consumer sees nothing.  Wrapping the generator in
    another generator (chaining) and stepping it with next() are not consumptions."""
    gens: Dict[str, List[ast.expr]] = {}
    other: Set[str] = set()
    for t, v, s_ in assignments(func, nested=False):
        if isinstance(t, ast.Name):
            if isinstance(v, ast.GeneratorExp) or (isinstance(v, ast.Call) and call_name(v) in ("map", "filter", "zip")):
                gens.setdefault(t.id, []).append(v)
            else:
                other.add(t.id)
    parent = {id(ch): n for n in ast.walk(func) for ch in ast.iter_child_nodes(n)}
    eaters = {"list", "sum", "sorted", "set", "tuple", "any", "all", "max", "min", "dict", "frozenset", "len"}
    out = []
    for name, defs in gens.items():
        if name in other:
            continue
        uses = []
        for n in walk_no_nested(func):
            if isinstance(n, ast.Name) and n.id == name and isinstance(n.ctx, ast.Load):
                p_ = parent.get(id(n))
                if isinstance(p_, ast.For) and p_.iter is n:
                    uses.append(n)
                elif isinstance(p_, ast.Call) and isinstance(p_.func, ast.Name) and p_.func.id in eaters and n in p_.args:
                    uses.append(n)
                elif isinstance(p_, ast.Call) and isinstance(p_.func, ast.Attribute) and p_.func.attr in ("extend", "update", "join") and n in p_.args:
                    uses.append(n)
        if len(uses) > 1:
            out.append(f"`{name}` is a generator ({' '.join(ast.unparse(defs[0]).split())[:50]}) consumed at lines {sorted(n.lineno for n in uses)}")
    return out


def late_bound_lazies(func: ast.AST) -> List[str]:
    """generator expressions / lambdas created inside a loop that are KEPT (assigned to a name, an attribute or a container slot, appended, yielded ...)
    instead of being consumed on the spot, and whose body reads a name that the loop re-binds (the loop target or a variable assigned in the loop body):
    when they finally run, they see the value of the LAST iteration.  (The outermost iterable of a generator expression is evaluated eagerly and does not count.)"""
    out: List[str] = []
    parent = {id(ch): n for n in ast.walk(func) for ch in ast.iter_child_nodes(n)}
    eaters = {"list", "sum", "sorted", "set", "tuple", "any", "all", "max", "min", "dict", "frozenset", "len", "next", "enumerate", "zip", "map", "filter", "reversed", "iter"}
    for lp in [n for n in walk_no_nested(func) if isinstance(n, (ast.For, ast.While))]:
        rebound = {n.id for b in lp.body for n in ast.walk(b) if isinstance(n, ast.Name) and isinstance(n.ctx, ast.Store)}
        if isinstance(lp, ast.For):
            rebound |= {n.id for n in ast.walk(lp.target) if isinstance(n, ast.Name)}
        for g in [n for b in lp.body for n in ast.walk(b) if isinstance(n, (ast.GeneratorExp, ast.Lambda))]:
            own = {n.id for gen in getattr(g, "generators", []) for n in ast.walk(gen.target) if isinstance(n, ast.Name)}
            if isinstance(g, ast.Lambda):
                own |= {a.arg for a in g.args.args + g.args.kwonlyargs}
                body_nodes = list(ast.walk(g.body))
            else:
                body_nodes = [n for n in ast.walk(g.elt)] + [n for gen in g.generators for c in gen.ifs for n in ast.walk(c)] + [n for gen in g.generators[1:] for n in ast.walk(gen.iter)]
            free = {n.id for n in body_nodes if isinstance(n, ast.Name) and isinstance(n.ctx, ast.Load)} - own
            captured = sorted(free & rebound)
            if not captured:
                continue
            # kept or consumed?  climb through tuples / parentheses to the statement that uses it
            cur, p_ = g, parent.get(id(g))
            while isinstance(p_, (ast.Tuple, ast.List, ast.Dict, ast.Starred, ast.IfExp)):
                cur, p_ = p_, parent.get(id(p_))
            kept = False
            if isinstance(p_, (ast.Assign, ast.AnnAssign, ast.AugAssign)) and getattr(p_, "value", None) is cur:
                kept = True
            elif isinstance(p_, ast.Call) and isinstance(p_.func, ast.Attribute) and p_.func.attr in ("append", "add", "setdefault", "insert", "extend") and cur in p_.args and isinstance(g, ast.Lambda):
                kept = True
            elif isinstance(p_, ast.Call) and isinstance(p_.func, ast.Attribute) and p_.func.attr in ("append", "add", "setdefault", "insert") and cur in p_.args:
                kept = True
            elif isinstance(p_, (ast.Yield, ast.Return)):
                kept = isinstance(p_, ast.Yield)
            if kept and isinstance(p_, (ast.Assign, ast.AnnAssign)) and isinstance(g, ast.GeneratorExp):
                # a generator bound to a plain local that is consumed later IN THE SAME iteration is fine: look for a consumer inside the loop body
                tg = p_.targets[0] if isinstance(p_, ast.Assign) else p_.target
                if isinstance(tg, ast.Name):
                    uses = [n for b in lp.body for n in ast.walk(b) if isinstance(n, ast.Name) and n.id == tg.id and isinstance(n.ctx, ast.Load)]
                    if uses:
                        kept = False
            if kept and isinstance(g, ast.Lambda) and isinstance(p_, (ast.Assign, ast.AnnAssign)):
                tg = p_.targets[0] if isinstance(p_, ast.Assign) else p_.target
                if isinstance(tg, ast.Name):
                    kept = False          # a local helper lambda used within the iteration
            if kept:
                out.append(f"{'generator' if isinstance(g, ast.GeneratorExp) else 'lambda'} at line {g.lineno} is kept beyond its iteration and reads {captured} (re-bound by the loop at line {lp.lineno})")
    return out


# ----------------------------------------------------------------------------------------------------------------
# virtual inlining of private helpers ("extract method" is not a behaviour change)
# ----------------------------------------------------------------------------------------------------------------
_inl_counter = [0]


def _callee_of(mod: Module, cls: Optional[str], call: ast.Call, scope: Optional[str] = None):
    """(FunctionDef, skip_first_param) for self._m(..) / cls._m(..) / ClassName._m(..) of the same class and for module-level _f(..)"""
    f = call.func
    if isinstance(f, ast.Attribute) and isinstance(f.value, ast.Name) and cls is not None and (f.value.id in ("self", "cls") or f.value.id == cls):
        d = mod.functions.get(f"{cls}.{f.attr}")
        if d is not None:
            decos = [ast.unparse(x) for x in d.decorator_list]
            if any(k in x for x in decos for k in ("cache", "property", "timeit")):
                return None
            return d, (0 if "staticmethod" in decos else 1)
    if isinstance(f, ast.Attribute) and isinstance(f.value, ast.Name) and f.value.id not in ("self", "cls") and f.value.id != cls:
        # (c) OtherClass.method(..) of a class of this module (classmethod / staticmethod);  (d) obj.method(..) where `method` is defined exactly once in hta (a method of
        # this module, not a name that library objects have too): the receiver is bound to the method's first parameter.  Private classes / private methods only.
        from . import progdb as _pdb
        other = mod.classes.get(f.value.id)
        if other is not None:
            d = mod.functions.get(f"{f.value.id}.{f.attr}")
            if d is not None and (f.attr.startswith("_") or f.value.id.startswith("_")):
                decos = [ast.unparse(x) for x in d.decorator_list]
                if "staticmethod" in decos and len(decos) == 1:
                    return d, 0
                if "classmethod" in decos and len(decos) == 1:
                    return d, 1, ast.Name(id=f.value.id, ctx=ast.Load())
            return None
        e = getattr(_pdb, "SIGS", {}).get(f.attr)
        if e is not None and e[1] == "method" and f.attr not in _pdb._foreign_attrs():
            owners = [q for q, cand in mod.functions.items() if q.count(".") == 1 and q.endswith("." + f.attr) and q.split(".")[0] in mod.classes]
            if len(owners) == 1 and (f.attr.startswith("_") or owners[0].split(".")[0].startswith("_")):
                d = mod.functions[owners[0]]
                if not d.decorator_list and d.args.args:
                    return d, 1, f.value
        return None
    if isinstance(f, ast.Name):
        d = mod.functions.get(f.id) if f.id.startswith("_") else None
        if d is None:
            # a helper nested in the function being analysed or in one of its enclosing functions (a closure: any name)
            parts = (scope or "").split(".")
            for k in range(len(parts), 0, -1):
                cand = mod.functions.get(".".join(parts[:k] + [f.id]))
                if cand is not None and k >= (2 if cls is not None else 1):
                    d = cand
                    break
        if d is None and f.id.startswith("_"):
            for q, cand in mod.functions.items():
                if q.endswith("." + f.id) and cand.name == f.id:
                    d = cand
        if d is not None and not d.decorator_list:
            return d, 0
    return None


def inline_helpers(mod: Module, func: ast.FunctionDef, depth: int = 2, only_private: bool = True, qual: Optional[str] = None, exclude: Tuple[str, ...] = ()) -> ast.FunctionDef:
    """a COPY of func in which statement-level calls of private helpers of the same class / module are replaced by the helper's body
    (parameters substituted by the argument expressions, the helper's locals renamed).  Handled call forms:  `helper(...)` as a statement,
    `x = helper(...)` and `return helper(...)` when the helper's only `return <expr>` is its last statement.  Anything else is left as a call.
    The parent map of `mod` is extended with the new nodes so that rules can keep using mod.parent / mod.loc."""
    import copy as _copy
    qual = qual or mod.qualname_of(func)
    cls = qual.split(".")[0] if "." in qual and qual.split(".")[0] in mod.classes else None
    out = _copy.deepcopy(func)

    local_defs: Dict[str, ast.FunctionDef] = {}

    def _callee(c: ast.Call):
        r = _callee_of(mod, cls, c, qual)
        if r is None and isinstance(c.func, ast.Name) and c.func.id in local_defs:
            # a closure that arrived with the body of an inlined helper
            return local_defs[c.func.id], 0
        return r

    def simple_returns(d: ast.FunctionDef) -> Optional[bool]:
        rets = [n for n in walk_no_nested(d) if isinstance(n, ast.Return)]
        if any(isinstance(n, (ast.Yield, ast.YieldFrom)) for n in walk_no_nested(d)):
            return None
        if not rets:
            return False
        if len(rets) == 1 and d.body and d.body[-1] is rets[0]:
            return True
        # `with ...: return X` as the last statement: the return is the tail of the trailing with-block(s)
        if len(rets) == 1 and d.body:
            cur = d.body[-1]
            while isinstance(cur, ast.With) and cur.body:
                if cur.body[-1] is rets[0]:
                    return True
                cur = cur.body[-1]
        if all(r.value is None for r in rets):
            return None          # early exits: not inlined
        return None

    def expand(call: ast.Call, kind: str, target) -> Optional[List[ast.stmt]]:
        res = _callee(call)
        if res is None:
            return None
        d, skip = res[0], res[1]
        recv = res[2] if len(res) > 2 else None
        is_closure = mod.qualname_of(d).count(".") >= (2 if cls is not None else 1) or any(d is n_ for n_ in local_defs.values())
        if only_private and not d.name.startswith("_") and not is_closure and recv is None:
            return None
        if d is func or d.name == func.name or d.name in exclude:
            return None
        sr = simple_returns(d)
        if sr is None or (kind != "expr" and sr is not True):
            return None
        a = d.args
        if a.vararg or a.kwarg or a.posonlyargs or any(isinstance(x, ast.Starred) for x in call.args) or any(k.arg is None for k in call.keywords):
            return None
        params = [p.arg for p in a.args][skip:]
        defaults = dict(zip([p.arg for p in a.args][len(a.args) - len(a.defaults):], a.defaults))
        bound: Dict[str, ast.expr] = {}
        if recv is not None and skip == 1:
            bound[a.args[0].arg] = recv          # the receiver (an object or a class of this module) takes the place of self / cls
        for p_, v in zip(params, call.args):
            bound[p_] = v
        for k in call.keywords:
            bound[k.arg] = k.value
        for p_ in params:
            if p_ not in bound:
                if p_ in defaults:
                    bound[p_] = defaults[p_]
                else:
                    return None
        _inl_counter[0] += 1
        sfx = f"__inl{_inl_counter[0]}"
        body = _copy.deepcopy(d.body)
        if body and isinstance(body[0], ast.Expr) and isinstance(body[0].value, ast.Constant) and isinstance(body[0].value.value, str):
            body = body[1:]
        assigned = {t.id for st in body for t, v, s_ in assignments(st) if isinstance(t, ast.Name)}
        outer_names = {nm for st in body for n in ast.walk(st) if isinstance(n, (ast.Nonlocal, ast.Global)) for nm in n.names}
        for st in body:
            for n in ast.walk(st):
                if isinstance(n, (ast.For, ast.comprehension)):
                    for x in ast.walk(n.target):
                        if isinstance(x, ast.Name):
                            assigned.add(x.id)
        assigned -= outer_names          # names of the enclosing scope keep their identity
        pre: List[ast.stmt] = []
        subst: Dict[str, ast.expr] = {}
        for p_, v in bound.items():
            if p_ in assigned or not (isinstance(v, (ast.Name, ast.Attribute, ast.Constant, ast.Subscript)) or (isinstance(v, ast.UnaryOp) and isinstance(v.operand, ast.Constant))):
                nm = p_ + sfx
                pre.append(ast.copy_location(ast.Assign(targets=[ast.Name(id=nm, ctx=ast.Store())], value=_copy.deepcopy(v)), call))
                subst[p_] = ast.Name(id=nm, ctx=ast.Load())
            else:
                subst[p_] = v
        rename = {n: n + sfx for n in assigned if n not in bound}
        rename.update({p_: subst[p_].id for p_ in bound if p_ in assigned})

        class R(ast.NodeTransformer):
            def visit_Name(self, n):
                if n.id in rename:
                    return ast.copy_location(ast.Name(id=rename[n.id], ctx=n.ctx), n)
                if n.id in subst and isinstance(n.ctx, ast.Load):
                    return ast.copy_location(_copy.deepcopy(subst[n.id]), n)
                return n
        body = [R().visit(st) for st in body]
        if sr is True:
            # locate the (single) trailing return, possibly inside trailing with-blocks, and turn it into the requested statement in place
            holder, cur = body, body[-1]
            while isinstance(cur, ast.With):
                holder, cur = cur.body, cur.body[-1]
            ret = cur
            if kind == "assign":
                repl = ast.copy_location(ast.Assign(targets=[target], value=ret.value), call)
            elif kind == "return":
                repl = ast.copy_location(ast.Return(value=ret.value), call)
            else:
                repl = ast.copy_location(ast.Expr(value=ret.value), call)
            holder[-1] = repl
        for st in pre + body:
            ast.fix_missing_locations(st)
        # position: every inlined node sits at the CALL SITE's line (so that line-order comparisons with the caller's statements stay meaningful);
        # the order inside the inlined body is kept in col_offset; the real line is remembered for reports (Module.loc)
        seq = 0
        for st in pre + body:
            for n in ast.walk(st):
                if hasattr(n, "lineno"):
                    if not hasattr(n, "_orig_lineno"):
                        n._orig_lineno = n.lineno
                    seq += 1
                    n.lineno = call.lineno
                    n.end_lineno = call.lineno
                    n.col_offset = 1000 * (getattr(call, "col_offset", 0) // 1000 + 1) + seq
        return pre + body


    def hoist(st: ast.stmt) -> List[ast.stmt]:
        """`y = g(_helper(a))` -> `t = _helper(a); y = g(t)` for private helpers with one trailing return (evaluation order is kept:
        only the FIRST such inner call of a statement is hoisted, and only when nothing but names/constants/attributes precedes it)"""
        val = getattr(st, "value", None)
        if not isinstance(st, (ast.Assign, ast.Expr, ast.Return, ast.AnnAssign)) or val is None:
            return [st]
        for c in ast.walk(val):
            if c is val or not isinstance(c, ast.Call):
                continue
            res_ = _callee(c)
            if res_ is None or res_[0].name in exclude or not (res_[0].name.startswith("_") or "." in mod.qualname_of(res_[0]).replace((cls or "") + ".", "", 1) or any(res_[0] is n_ for n_ in local_defs.values())) \
                    or simple_returns(res_[0]) is not True:
                continue
            _inl_counter[0] += 1
            tmp = f"__hoist{_inl_counter[0]}"

            class Rp(ast.NodeTransformer):
                def visit_Call(self, n):
                    if n is c:
                        return ast.copy_location(ast.Name(id=tmp, ctx=ast.Load()), n)
                    return self.generic_visit(n)
            pre = ast.copy_location(ast.Assign(targets=[ast.Name(id=tmp, ctx=ast.Store())], value=c), st)
            st.value = Rp().visit(val)
            ast.fix_missing_locations(pre)
            ast.fix_missing_locations(st)
            return [pre, st]
        return [st]

    def fuse_generator(st: ast.For) -> Optional[List[ast.stmt]]:
        """`for T in _gen(args): BODY`  ->  the generator's body with every `yield v` statement replaced by `T = v; BODY` (generator fusion).
        Only when the helper is a plain generator (yields as statements, no return value) and BODY has no break / continue of this loop / orelse."""
        if not isinstance(st.iter, ast.Call) or st.orelse:
            return None
        res = _callee(st.iter)
        if res is None:
            return None
        d, skip = res[0], res[1]
        recv = res[2] if len(res) > 2 else None
        if d.name in exclude or d is func:
            return None
        own = list(walk_no_nested(d))
        ys = [n for n in own if isinstance(n, (ast.Yield, ast.YieldFrom))]
        if not ys or any(isinstance(n, ast.YieldFrom) for n in ys) or any(isinstance(n, ast.Return) and n.value is not None for n in own):
            return None
        ystmts = [n for n in own if isinstance(n, ast.Expr) and isinstance(n.value, ast.Yield)]
        if len(ystmts) != len(ys):
            return None          # a yield used as an expression (sent values)

        def leaves_loop(body):
            for b in body:
                for n in ast.walk(b):
                    if isinstance(n, (ast.Break, ast.Continue)):
                        cur, inner = n, False
                        # break / continue of a loop nested in BODY is fine
                        for lp in [x for x in ast.walk(b) if isinstance(x, (ast.For, ast.While))]:
                            if any(n is y for y in ast.walk(lp)):
                                inner = True
                        if not inner:
                            return True
            return False
        if leaves_loop(st.body):
            return None
        a = d.args
        if a.vararg or a.kwarg or a.posonlyargs or any(isinstance(x, ast.Starred) for x in st.iter.args) or any(k.arg is None for k in st.iter.keywords):
            return None
        params = [p.arg for p in a.args][skip:]
        defaults = dict(zip([p.arg for p in a.args][len(a.args) - len(a.defaults):], a.defaults))
        bound: Dict[str, ast.expr] = {}
        if recv is not None and skip == 1:
            bound[a.args[0].arg] = recv
        for p_, v in zip(params, st.iter.args):
            bound[p_] = v
        for k in st.iter.keywords:
            bound[k.arg] = k.value
        for p_ in params:
            if p_ not in bound:
                if p_ not in defaults:
                    return None
                bound[p_] = defaults[p_]
        _inl_counter[0] += 1
        sfx = f"__gen{_inl_counter[0]}"
        body = _copy.deepcopy(d.body)
        if body and isinstance(body[0], ast.Expr) and isinstance(body[0].value, ast.Constant) and isinstance(body[0].value.value, str):
            body = body[1:]
        assigned = {t.id for b in body for t, v, s_ in assignments(b) if isinstance(t, ast.Name)}
        for b in body:
            for n in ast.walk(b):
                if isinstance(n, (ast.For, ast.comprehension)):
                    assigned |= {x.id for x in ast.walk(n.target) if isinstance(x, ast.Name)}
        pre: List[ast.stmt] = []
        subst: Dict[str, ast.expr] = {}
        rename = {n: n + sfx for n in assigned}
        for p_, v in bound.items():
            if p_ in assigned or not isinstance(v, (ast.Name, ast.Attribute, ast.Constant)):
                nm = p_ + sfx
                pre.append(ast.copy_location(ast.Assign(targets=[ast.Name(id=nm, ctx=ast.Store())], value=_copy.deepcopy(v)), st))
                rename[p_] = nm
            else:
                subst[p_] = v

        class R(ast.NodeTransformer):
            def visit_Name(self, n):
                if n.id in rename:
                    return ast.copy_location(ast.Name(id=rename[n.id], ctx=n.ctx), n)
                if n.id in subst and isinstance(n.ctx, ast.Load):
                    return ast.copy_location(_copy.deepcopy(subst[n.id]), n)
                return n

        simple = lambda e: isinstance(e, (ast.Name, ast.Constant)) or (isinstance(e, ast.Attribute) and isinstance(e.value, ast.Name))
        tnames = [st.target.id] if isinstance(st.target, ast.Name) else [x.id for x in st.target.elts] if isinstance(st.target, (ast.Tuple, ast.List)) and all(isinstance(x, ast.Name) for x in st.target.elts) else None
        body_stores = {n.id for b in st.body for n in ast.walk(b) if isinstance(n, ast.Name) and isinstance(n.ctx, ast.Store)}

        def put(stmts_):
            out_ = []
            for b in stmts_:
                if isinstance(b, ast.Expr) and isinstance(b.value, ast.Yield):
                    val = b.value.value if b.value.value is not None else ast.Constant(value=None)
                    vals = [val] if isinstance(st.target, ast.Name) else list(val.elts) if isinstance(val, (ast.Tuple, ast.List)) else None
                    if tnames is not None and vals is not None and len(vals) == len(tnames) and all(simple(v_) for v_ in vals) and not (set(tnames) & body_stores):
                        # the loop variables are plain copies of what is yielded: substitute them in the consumer's body (no intermediate tuple assignment)
                        sub_ = dict(zip(tnames, vals))

                        class S2(ast.NodeTransformer):
                            def visit_Name(self, n):
                                return ast.copy_location(_copy.deepcopy(sub_[n.id]), n) if n.id in sub_ and isinstance(n.ctx, ast.Load) else n
                        out_.extend(S2().visit(_copy.deepcopy(x_)) for x_ in st.body)
                        continue
                    out_.append(ast.copy_location(ast.Assign(targets=[_copy.deepcopy(st.target)], value=val), st))
                    out_.extend(_copy.deepcopy(st.body))
                    continue
                for fld in ("body", "orelse", "finalbody"):
                    sub = getattr(b, fld, None)
                    if isinstance(sub, list) and sub and isinstance(sub[0], ast.stmt) and not isinstance(b, (ast.FunctionDef, ast.AsyncFunctionDef, ast.ClassDef)):
                        setattr(b, fld, put(sub))
                for h_ in getattr(b, "handlers", []) or []:
                    h_.body = put(h_.body)
                out_.append(b)
            return out_
        body = put([R().visit(b) for b in body])
        for b in pre + body:
            ast.fix_missing_locations(b)
        seq = 0
        for b in pre + body:
            for n in ast.walk(b):
                if hasattr(n, "lineno") and not hasattr(n, "_orig_lineno"):
                    n._orig_lineno = n.lineno
                    seq += 1
                    n.lineno = st.lineno
                    n.end_lineno = st.lineno
                    n.col_offset = 1000 * (getattr(st, "col_offset", 0) // 1000 + 1) + seq
        return pre + body

    def rewrite(stmts: List[ast.stmt], d: int) -> List[ast.stmt]:
        res: List[ast.stmt] = []
        hoisted: List[ast.stmt] = []
        for st in stmts:
            if isinstance(st, ast.FunctionDef):
                local_defs[st.name] = st          # (closures of this statement list, also those that arrived with an inlined body)
        for st in stmts:
            hoisted.extend(hoist(st) if d > 0 else [st])
        for st in hoisted:
            new = None
            if d > 0 and isinstance(st, ast.For):
                new = fuse_generator(st)
                if new is not None:
                    res.extend(rewrite(new, d - 1))
                    continue
            if d > 0:
                if isinstance(st, ast.Expr) and isinstance(st.value, ast.Call):
                    new = expand(st.value, "expr", None)
                elif isinstance(st, ast.Assign) and len(st.targets) == 1 and isinstance(st.value, ast.Call):
                    new = expand(st.value, "assign", st.targets[0])
                elif isinstance(st, ast.Return) and isinstance(st.value, ast.Call):
                    new = expand(st.value, "return", None)
            if new is not None:
                res.extend(rewrite(new, d - 1))
                continue
            for fld in ("body", "orelse", "finalbody"):
                sub = getattr(st, fld, None)
                if isinstance(sub, list) and sub and isinstance(sub[0], ast.stmt) and not isinstance(st, (ast.FunctionDef, ast.AsyncFunctionDef, ast.ClassDef)):
                    setattr(st, fld, rewrite(sub, d))
            for h_ in getattr(st, "handlers", []) or []:
                h_.body = rewrite(h_.body, d)
            res.append(st)
        return res

    out.body = rewrite(out.body, depth)
    # a closure whose every call was inlined is dead code now: drop its definition, so that rules do not read its body a second time
    nested_defs = [st for st in out.body if isinstance(st, (ast.FunctionDef, ast.AsyncFunctionDef))]
    if nested_defs:
        refs = {n.id for st in out.body for n in ast.walk(st) if isinstance(n, ast.Name) and isinstance(n.ctx, ast.Load)}
        orig_refs = {n.id for n in ast.walk(func) if isinstance(n, ast.Name) and isinstance(n.ctx, ast.Load)}
        out.body = [st for st in out.body if not (isinstance(st, (ast.FunctionDef, ast.AsyncFunctionDef)) and st.name in orig_refs and st.name not in refs)] or out.body
    for n in ast.walk(out):
        for ch in ast.iter_child_nodes(n):
            mod.parent[id(ch)] = n
    mod.parent[id(out)] = mod.parent.get(id(func))
    return out


def before(a: ast.AST, b: ast.AST) -> bool:
    """a precedes b in source / inlined order"""
    return (a.lineno, a.col_offset) < (b.lineno, b.col_offset)


def unroll_literal_loops(mod: Module, func: ast.AST) -> ast.AST:
    """a COPY of func in which every `for <targets> in <literal tuple/list of literals or of equally long literal tuples>:` whose body has no
    break/continue is replaced by its body repeated once per element, the loop variables substituted (a module-level constant naming such a
    literal is looked up).  A loop over literal (column, field) pairs then reads like the assignments it abbreviates."""
    import copy as _copy
    out = _copy.deepcopy(func)

    qual = mod.qualname_of(func)
    own_cls = qual.split(".")[0] if "." in qual and qual.split(".")[0] in mod.classes else None

    def resolve(e):
        if isinstance(e, ast.Name):
            ds = defs_of(out, e.id)
            if len(ds) == 1:
                return ds[0]
            if e.id in mod.constants:
                return mod.constants[e.id]
        if isinstance(e, ast.Attribute) and isinstance(e.value, ast.Name):
            # a class-level constant: self.X / cls.X / ClassName.X (assigned once in the class body, never stored elsewhere in the module)
            cname = own_cls if e.value.id in ("self", "cls") else e.value.id
            cdef = mod.classes.get(cname) if cname else None
            if cdef is not None:
                vals = [st.value for st in cdef.body if isinstance(st, (ast.Assign, ast.AnnAssign)) and st.value is not None
                        and name_id(st.targets[0] if isinstance(st, ast.Assign) else st.target) == e.attr]
                stores = [n for n in ast.walk(mod.tree) if isinstance(n, ast.Attribute) and n.attr == e.attr and isinstance(n.ctx, ast.Store)]
                if len(vals) == 1 and not stores:
                    return vals[0]
        return e

    def literal_seq(e):
        e = resolve(e)
        if isinstance(e, ast.Call) and isinstance(e.func, ast.Attribute) and e.func.attr == "items" and not e.args and not e.keywords:
            d = resolve(e.func.value)
            if isinstance(d, ast.Dict) and d.keys and len(d.keys) <= 12 and all(k is not None for k in d.keys):
                return [ast.Tuple(elts=[k, v], ctx=ast.Load()) for k, v in zip(d.keys, d.values)]
            return None
        if isinstance(e, (ast.Tuple, ast.List)) and e.elts and len(e.elts) <= 12:
            return list(e.elts)
        return None

    def unroll(stmts):
        res = []
        for st in stmts:
            for fld in ("body", "orelse", "finalbody"):
                sub = getattr(st, fld, None)
                if isinstance(sub, list) and sub and isinstance(sub[0], ast.stmt) and not isinstance(st, (ast.FunctionDef, ast.AsyncFunctionDef, ast.ClassDef)):
                    setattr(st, fld, unroll(sub))
            if isinstance(st, ast.For) and not st.orelse and not any(isinstance(x, (ast.Break, ast.Continue)) for x in ast.walk(st)):
                seq = literal_seq(st.iter)
                tg = st.target
                names = [tg.id] if isinstance(tg, ast.Name) else [x.id for x in tg.elts] if isinstance(tg, (ast.Tuple, ast.List)) and all(isinstance(x, ast.Name) for x in tg.elts) else None
                if seq is not None and names is not None and all((len(names) == 1) or (isinstance(e, (ast.Tuple, ast.List)) and len(e.elts) == len(names)) for e in seq):
                    stored = {n.id for b in st.body for n in ast.walk(b) if isinstance(n, ast.Name) and isinstance(n.ctx, ast.Store)}
                    if not (set(names) & stored):
                        for e in seq:
                            sub = dict(zip(names, [e] if len(names) == 1 else e.elts))

                            class S(ast.NodeTransformer):
                                def visit_Name(self, n):
                                    return _copy.deepcopy(sub[n.id]) if n.id in sub and isinstance(n.ctx, ast.Load) else n
                            for b in st.body:
                                nb = S().visit(_copy.deepcopy(b))
                                ast.fix_missing_locations(nb)
                                res.append(nb)
                        continue
            res.append(st)
        return res
    out.body = unroll(out.body)
    for n in ast.walk(out):
        for ch in ast.iter_child_nodes(n):
            mod.parent[id(ch)] = n
    return out


def resolve_method(mod: Module, cls: str, name: str) -> Optional[str]:
    """qualified name of the function that `cls().name` resolves to inside `mod` (the class itself or the nearest base class defined in the module)"""
    seen, todo = set(), [cls]
    while todo:
        c = todo.pop(0)
        if c in seen or c not in mod.classes:
            continue
        seen.add(c)
        if f"{c}.{name}" in mod.functions:
            return f"{c}.{name}"
        todo += [b.id for b in mod.classes[c].bases if isinstance(b, ast.Name)]
    return None


def with_private_callees(mod: Module, func: ast.AST, depth: int = 2) -> List[ast.AST]:
    """[func] + the private helpers (module-level functions / methods of the same class, name starting with '_') it calls, transitively up to `depth`:
    the unit a rule reads when the code it looks for may have been moved into a helper that cannot be inlined (several returns, used as a context manager)"""
    qual = mod.qualname_of(func)
    cls = qual.split(".")[0] if "." in qual and qual.split(".")[0] in mod.classes else None
    out, todo = [func], [(func, 0)]
    while todo:
        f, d = todo.pop()
        if d >= depth:
            continue
        for c in ast.walk(f):
            if not isinstance(c, ast.Call):
                continue
            res = _callee_of(mod, cls, c, qual)
            if res is not None and (res[0].name.startswith("_") or len(res) > 2) and not any(res[0] is x for x in out):
                out.append(res[0])
                todo.append((res[0], d + 1))
    return out


def compiled_patterns(mod: Module, funcs: List[ast.AST]) -> List[ast.Call]:
    """the re.compile(...) calls whose result the functions use: written inside them, or bound to a module-level name they read"""
    out = []
    for f in funcs:
        out += [c for c in ast.walk(f) if isinstance(c, ast.Call) and ast.unparse(c.func) == "re.compile"]
        used = {n.id for n in ast.walk(f) if isinstance(n, ast.Name) and isinstance(n.ctx, ast.Load)}
        for nm in sorted(used):
            v = mod.constants.get(nm)
            if isinstance(v, ast.Call) and ast.unparse(v.func) == "re.compile" and not any(v is x for x in out):
                out.append(v)
    return out


def dead_updates_after_loop(func: ast.AST) -> List[Tuple[str, str]]:
    """(variable, statement) for a self-update `x += e` / `x = x + e` of a local that is placed right AFTER a loop which reads x, while nothing reads x afterwards:
    the update was meant to advance a loop-carried value (an offset, a counter) but cannot have any effect - every iteration sees the initial value"""
    out = []
    def reads(node, name):
        return any(isinstance(n, ast.Name) and n.id == name and isinstance(n.ctx, ast.Load) for n in ast.walk(node))
    returns_or_yields = lambda node: any(isinstance(n, (ast.Return, ast.Yield, ast.YieldFrom)) for n in ast.walk(node))
    def blocks(node):
        for fld in ("body", "orelse", "finalbody"):
            b = getattr(node, fld, None)
            if isinstance(b, list) and b and isinstance(b[0], ast.stmt):
                yield b
                for st in b:
                    if not isinstance(st, (ast.FunctionDef, ast.AsyncFunctionDef, ast.ClassDef)):
                        yield from blocks(st)
    own_nonlocal = {n_ for x in ast.walk(func) if isinstance(x, (ast.Nonlocal, ast.Global)) for n_ in x.names}
    for b in blocks(func):
        for i, st in enumerate(b):
            name = None
            if isinstance(st, ast.AugAssign) and isinstance(st.target, ast.Name):
                name = st.target.id
            elif isinstance(st, ast.Assign) and len(st.targets) == 1 and isinstance(st.targets[0], ast.Name) and reads(st.value, st.targets[0].id):
                name = st.targets[0].id
            if name is None or name in own_nonlocal or i == 0:
                continue
            prev = b[i - 1]
            if not isinstance(prev, (ast.For, ast.While)) or not reads(prev, name):
                continue
            # is the variable updated inside the loop as well?  then the trailing update is something else (e.g. a final adjustment)
            if any(isinstance(n, (ast.AugAssign, ast.Assign)) and any(isinstance(t, ast.Name) and t.id == name for t in ([n.target] if isinstance(n, ast.AugAssign) else n.targets)) for n in ast.walk(prev)):
                continue
            later = b[i + 1:]
            if any(reads(x, name) for x in later):
                continue
            # the block must be the tail of the function (nothing after the enclosing statement can read the variable either): only flag function-level tails
            if b is not getattr(func, "body", None):
                continue
            out.append((name, " ".join(ast.unparse(st).split())[:80]))
    return out
